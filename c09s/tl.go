// Package c09s enumerates the schemas of the C09 check (TL text and TL-B declarations). The same deterministic
// enumeration is used by the generator driver (cmd/c09gen) and by the harness (harness/c09).
package c09s

import (
	"fmt"
	"hash/fnv"
	"strings"
)

// TLSchema is one TL schema in the generator's supported subset.
type TLSchema struct {
	Name string // package name of the generated code
	Text string
	// FlagsName is the name of the flags field the conditional fields of this schema refer to.
	FlagsName string
}

type tlw struct {
	ns    string
	sb    strings.Builder
	funcs strings.Builder
	n     int
}

// id returns a deterministic constructor id for name; every 4th id has leading zero nibbles, every 5th the top bit set.
func (w *tlw) id(name string) string {
	h := fnv.New32a()
	h.Write([]byte(w.ns + "/" + name))
	v := h.Sum32()
	w.n++
	switch w.n % 7 {
	case 1:
		v &= 0x0fffffff
	case 3:
		v &= 0x0000ffff
	case 5:
		v |= 0x80000000
	case 6:
		v &= 0x00ffffff
		v |= 0x00100000
	}
	if v == 0 {
		v = 0x00000001
	}
	return fmt.Sprintf("#%08x", v)
}

func (w *tlw) decl(constructor, fields, result string) {
	fmt.Fprintf(&w.sb, "%s.%s%s %s= %s.%s;\n", w.ns, constructor, w.id(constructor), pad(fields), w.ns, result)
}
func (w *tlw) fn(constructor, fields, result string) {
	fmt.Fprintf(&w.funcs, "%s.%s%s %s= %s.%s;\n", w.ns, constructor, w.id(constructor), pad(fields), w.ns, result)
}
func pad(f string) string {
	if f == "" {
		return ""
	}
	return f + " "
}

func (w *tlw) text() string {
	return "liteServer.error#bba9e148 code:int message:string = liteServer.Error;\n" + w.sb.String() + "\n---functions---\n\n" + w.funcs.String()
}

// prelude declares the helper types every schema refers to: a simple type, a nested simple type and a sum type.
func (w *tlw) prelude() {
	w.decl("leaf", "a:int b:bytes", "Leaf")
	w.decl("pair", "first:"+w.ns+".leaf second:long", "Pair")
	w.decl("altNone", "", "Alt")
	w.decl("altOne", "x:long", "Alt")
	w.decl("altDeep", "y:string z:"+w.ns+".leaf", "Alt")
}

func (w *tlw) kinds() []string {
	ns := w.ns
	return []string{"int", "long", "int256", "bytes", "string", "Bool", "#", ns + ".leaf", ns + ".pair", ns + ".Alt",
		"(vector int)", "(vector long)", "(vector int256)", "(vector bytes)", "(vector string)", "(vector Bool)",
		"(vector " + ns + ".leaf)", "(vector " + ns + ".Alt)"}
}

// TLSchemas returns the schema list. thorough adds the pair grid.
func TLSchemas(thorough bool) []TLSchema {
	var out []TLSchema
	add := func(w *tlw, flags string) {
		out = append(out, TLSchema{Name: w.ns, Text: w.text(), FlagsName: flags})
	}
	// t00: the smallest schemas: one declaration (plus the mandatory error type)
	{
		w := &tlw{ns: "t00"}
		w.decl("only", "v:int", "Only")
		add(w, "mode")
	}
	// t01: every field kind alone, and as first / last of three
	{
		w := &tlw{ns: "t01"}
		w.prelude()
		for i, k := range w.kinds() {
			w.decl(fmt.Sprintf("one%d", i), "f:"+k, fmt.Sprintf("One%d", i))
		}
		for i, k := range w.kinds() {
			w.decl(fmt.Sprintf("mid%d", i), "head:int f:"+k+" tail:long", fmt.Sprintf("Mid%d", i))
		}
		w.fn("getLeaf", "", "Leaf")
		w.fn("getAlt", "a:int b:"+w.ns+".leaf", "Alt")
		add(w, "mode")
	}
	// t02..t06: conditional fields: every kind x every bit 0..31, four conditional fields per declaration
	// (four schemas use the conventional flags field name "mode", the fifth calls it "flags")
	for part, flags := range []string{"mode", "mode", "mode", "mode", "flags"} {
		w := &tlw{ns: fmt.Sprintf("t%02d", 2+part)}
		w.prelude()
		ks := append(w.kinds(), "true")
		n := 0
		var fields []string
		flush := func() {
			if len(fields) == 0 {
				return
			}
			w.decl(fmt.Sprintf("cond%d", n), flags+":# "+strings.Join(fields, " ")+" last:int", fmt.Sprintf("Cond%d", n))
			n++
			fields = nil
		}
		for ki, k := range ks {
			if part < 4 && ki%4 != part {
				continue // kinds are split between the four "mode" schemas (about 40 declarations each)
			}
			if part == 4 && ki%4 != 0 {
				continue
			}
			for bit := 0; bit < 32; bit++ {
				fields = append(fields, fmt.Sprintf("c%d:%s.%d?%s", len(fields), flags, bit, k))
				if len(fields) == 4 {
					flush()
				}
			}
		}
		flush()
		// two conditional fields on the same bit, and a plain field between conditional ones
		w.decl("sameBit", flags+":# a:"+flags+".3?int b:"+flags+".3?bytes mid:long c:"+flags+".31?"+w.ns+".leaf", "SameBit")
		w.fn("condArgs", flags+":# a:"+flags+".0?int b:"+flags+".1?bytes c:"+flags+".2?"+w.ns+".leaf", "Pair")
		w.fn("noArgs", "", "Alt")
		add(w, flags)
	}
	// t07: sum types with 2..5 constructors; nesting up to depth 3; functions over them
	{
		w := &tlw{ns: "t07"}
		w.prelude()
		for n := 2; n <= 5; n++ {
			for k := 0; k < n; k++ {
				var f string
				switch k {
				case 0:
					f = ""
				case 1:
					f = "a:int"
				case 2:
					f = "mode:# b:mode.0?bytes c:mode.7?" + w.ns + ".leaf"
				case 3:
					f = "v:(vector " + w.ns + ".Alt) w:" + w.ns + ".pair"
				case 4:
					f = "h:int256 s:string ok:Bool"
				}
				w.decl(fmt.Sprintf("sum%dc%d", n, k), f, fmt.Sprintf("Sum%d", n))
			}
		}
		// vectors whose elements have conditional fields / are multi-constructor values: consecutive elements differ in
		// which fields are present
		w.decl("condElem", "mode:# a:mode.0?int b:mode.1?bytes tail:int", "CondElem")
		w.decl("condHolder", "before:int v:(vector "+w.ns+".condElem) w:(vector "+w.ns+".Sum3) after:long", "CondHolder")
		w.decl("nest1", "p:"+w.ns+".pair s:"+w.ns+".Sum3", "Nest1")
		w.decl("nest2", "n:"+w.ns+".nest1 v:(vector "+w.ns+".nest1)", "Nest2")
		w.decl("nest3", "n:"+w.ns+".nest2 t:"+w.ns+".Sum5 u:(vector "+w.ns+".Sum2)", "Nest3")
		for n := 2; n <= 5; n++ {
			w.fn(fmt.Sprintf("getSum%d", n), "key:long", fmt.Sprintf("Sum%d", n))
		}
		w.fn("getNest3", "n:"+w.ns+".nest2 mode:# opt:mode.4?"+w.ns+".Sum2", "Nest3")
		w.fn("putNest1", "n:"+w.ns+".nest1", "Nest1")
		add(w, "mode")
	}
	// t08: 40 declarations, names with digits and underscores
	{
		w := &tlw{ns: "t08"}
		w.prelude()
		ks := w.kinds()
		for i := 0; i < 34; i++ {
			a, b := ks[(i*5)%len(ks)], ks[(i*7+3)%len(ks)]
			w.decl(fmt.Sprintf("rec_%d_x", i), fmt.Sprintf("first_field:%s second2field:%s", a, b), fmt.Sprintf("Rec_%d_x", i))
		}
		w.fn("get_rec", "id_1:int", "Rec_3_x")
		add(w, "mode")
	}
	if thorough {
		// every ordered pair of field kinds
		ksn := len((&tlw{ns: "x"}).kinds())
		per := 34
		idx := 0
		for start := 0; start < ksn*ksn; start += per {
			w := &tlw{ns: fmt.Sprintf("t%02d", 9+idx)}
			idx++
			w.prelude()
			ks := w.kinds()
			for p := start; p < start+per && p < ksn*ksn; p++ {
				w.decl(fmt.Sprintf("pr%d", p), "l:"+ks[p/ksn]+" r:"+ks[p%ksn], fmt.Sprintf("Pr%d", p))
			}
			add(w, "mode")
		}
	}
	return out
}
