package c09s

import (
	"fmt"
	"strings"
)

// T is a TL-B type expression of the supported subset.
type T struct {
	K    string // uint int bits nat # Bool Coins VarUInteger Cell Maybe MaybeRef Ref Either EitherRef HashmapE HashmapERef Named
	N    int
	A, B *T
	Name string
}

// Field is a named field.
type Field struct {
	Name string
	T    *T
}

// Decl is one constructor.
type Decl struct {
	Constructor string
	Prefix      string // "#5fcc3d14", "$101", "#_", ""
	Combinator  string
	Fields      []Field
}

// TLBSchema is a set of declarations generated into one Go package.
type TLBSchema struct {
	Name  string
	Decls []*Decl
}

func (t *T) String() string {
	switch t.K {
	case "uint", "int", "bits":
		return fmt.Sprintf("%s%d", t.K, t.N)
	case "nat":
		return fmt.Sprintf("(## %d)", t.N)
	case "#", "Bool", "Coins", "Cell", "MsgAddress":
		return t.K
	case "VarUInteger":
		return fmt.Sprintf("(VarUInteger %d)", t.N)
	case "Maybe":
		return "(Maybe " + t.A.String() + ")"
	case "MaybeRef":
		return "(Maybe ^" + t.A.String() + ")"
	case "Ref":
		return "^" + t.A.String()
	case "Either":
		return "(Either " + t.A.String() + " " + t.B.String() + ")"
	case "EitherRef":
		return "(Either " + t.A.String() + " ^" + t.A.String() + ")"
	case "HashmapE":
		return fmt.Sprintf("(HashmapE %d %s)", t.N, t.A.String())
	case "HashmapERef":
		return fmt.Sprintf("(HashmapE %d ^%s)", t.N, t.A.String())
	case "Named":
		return t.Name
	}
	return "?"
}

// Text renders the declarations as TL-B source.
func (s TLBSchema) Text() string {
	var sb strings.Builder
	for _, d := range s.Decls {
		sb.WriteString(d.Constructor + d.Prefix)
		for _, f := range d.Fields {
			sb.WriteString(" " + f.Name + ":" + f.T.String())
		}
		sb.WriteString(" = " + d.Combinator + ";\n")
	}
	return sb.String()
}

// ByCombinator groups declarations.
func (s TLBSchema) ByCombinator(name string) []*Decl {
	var out []*Decl
	for _, d := range s.Decls {
		if d.Combinator == name {
			out = append(out, d)
		}
	}
	return out
}

// Combinators lists the declared type names in order of first appearance.
func (s TLBSchema) Combinators() []string {
	var out []string
	seen := map[string]bool{}
	for _, d := range s.Decls {
		if !seen[d.Combinator] {
			seen[d.Combinator] = true
			out = append(out, d.Combinator)
		}
	}
	return out
}

func u(n int) *T   { return &T{K: "uint", N: n} }
func i(n int) *T   { return &T{K: "int", N: n} }
func b(n int) *T   { return &T{K: "bits", N: n} }
func nat(n int) *T { return &T{K: "nat", N: n} }
func named(n string) *T {
	return &T{K: "Named", Name: n}
}

// leafTypes: the fixed-width alphabet of the tier.
func leafTypes(thorough bool) []*T {
	var out []*T
	un := []int{1, 7, 8, 9, 16, 31, 32, 33, 63, 64, 128, 256}
	in := []int{1, 8, 16, 32, 63, 64, 257}
	nn := []int{1, 8, 12, 16, 24, 32, 40, 48, 56, 64, 63}
	if thorough {
		un = un[:0]
		for k := 1; k <= 64; k++ {
			un = append(un, k)
		}
		un = append(un, 128, 256)
		in = in[:0]
		for k := 1; k <= 64; k++ {
			in = append(in, k)
		}
		in = append(in, 128, 256, 257)
		nn = nn[:0]
		for k := 1; k <= 64; k++ {
			nn = append(nn, k)
		}
	}
	for _, n := range un {
		out = append(out, u(n))
	}
	for _, n := range in {
		out = append(out, i(n))
	}
	for _, n := range []int{80, 96, 128, 256, 264, 320, 352, 512} {
		out = append(out, b(n))
	}
	for _, n := range nn {
		out = append(out, nat(n))
	}
	out = append(out, &T{K: "#"}, &T{K: "Bool"}, &T{K: "Coins"}, &T{K: "MsgAddress"}, &T{K: "VarUInteger", N: 16}, &T{K: "VarUInteger", N: 32}, &T{K: "VarUInteger", N: 7})
	return out
}

// TLBSchemas enumerates the TL-B schemas.
func TLBSchemas(thorough bool) []TLBSchema {
	var out []TLBSchema
	// b00: every leaf type alone in a declaration with a 32-bit tag, and between two other fields
	{
		s := TLBSchema{Name: "b00"}
		for k, t := range leafTypes(thorough) {
			s.Decls = append(s.Decls, &Decl{Constructor: fmt.Sprintf("leaf%d", k), Prefix: fmt.Sprintf("#%08x", 0x0a000000+k*0x01010101&0x0fffffff), Combinator: fmt.Sprintf("Leaf%d", k), Fields: []Field{{"v", t}}})
		}
		out = append(out, s)
	}
	{
		s := TLBSchema{Name: "b01"}
		for k, t := range leafTypes(thorough) {
			s.Decls = append(s.Decls, &Decl{Constructor: fmt.Sprintf("mid%d", k), Prefix: "", Combinator: fmt.Sprintf("Mid%d", k), Fields: []Field{{"head", u(3)}, {"v", t}, {"tail", i(5)}}})
		}
		out = append(out, s)
	}
	// b02: constructor prefixes of every form on simple types; sum types with # and $ tags
	{
		s := TLBSchema{Name: "b02"}
		for k, p := range []string{"", "#_", "$_", "#a", "#5fcc3d14", "#00000001", "#ffffffff", "$0", "$1", "$101", "$0000000", "#1eda", "#0f8a7ea5"} {
			s.Decls = append(s.Decls, &Decl{Constructor: fmt.Sprintf("pfx%d", k), Prefix: p, Combinator: fmt.Sprintf("Pfx%d", k), Fields: []Field{{"x", u(8)}, {"y", &T{K: "Bool"}}}})
		}
		s.Decls = append(s.Decls,
			&Decl{"sa_zero", "$0", "SumA", nil},
			&Decl{"sa_one", "$1", "SumA", []Field{{"v", u(16)}}},
			&Decl{"sb_a", "$00", "SumB", []Field{{"a", u(4)}}},
			&Decl{"sb_b", "$01", "SumB", []Field{{"b", i(9)}, {"c", &T{K: "Bool"}}}},
			&Decl{"sb_c", "$10", "SumB", nil},
			&Decl{"sb_d", "$11", "SumB", []Field{{"d", &T{K: "Coins"}}}},
			&Decl{"sc_x", "#1eda", "SumC", []Field{{"x", u(32)}}},
			&Decl{"sc_y", "#ba93", "SumC", []Field{{"y", named("SumB")}}},
			&Decl{"sc_z", "#ad01", "SumC", []Field{{"z", &T{K: "Ref", A: named("SumA")}}}},
			&Decl{"sd_p", "#00000000", "SumD", []Field{{"p", b(80)}}},
			&Decl{"sd_q", "#ffffffff", "SumD", []Field{{"q", nat(12)}}},
			&Decl{"sd_r", "#0f8a7ea5", "SumD", []Field{{"r", named("SumC")}}},
			&Decl{"sd_s", "#7362d09c", "SumD", nil},
			&Decl{"sd_t", "#595f07bc", "SumD", []Field{{"t", &T{K: "Maybe", A: named("SumA")}}}},
			&Decl{"uses", "#5fcc3d14", "Uses", []Field{{"a", named("SumA")}, {"b", named("SumB")}, {"c", named("SumC")}, {"d", named("SumD")}, {"e", named("Pfx4")}}},
		)
		out = append(out, s)
	}
	// b03: Maybe / Maybe ^ / ^ / Either / Either X ^X / HashmapE over leaf and declared types, nested once
	{
		s := TLBSchema{Name: "b03"}
		s.Decls = append(s.Decls,
			&Decl{"inner", "#a1", "Inner", []Field{{"p", u(8)}, {"q", i(16)}}},
			&Decl{"alt_l", "$0", "Alt", []Field{{"l", u(5)}}},
			&Decl{"alt_r", "$1", "Alt", []Field{{"r", &T{K: "Ref", A: named("Inner")}}}},
		)
		args := []*T{u(8), i(33), b(96), nat(24), &T{K: "Bool"}, &T{K: "Coins"}, &T{K: "MsgAddress"}, named("Inner"), named("Alt"), &T{K: "Cell"}}
		k := 0
		add := func(t *T) {
			fs := []Field{{"before", u(2)}, {"v", t}, {"after", u(6)}}
			if t.K == "EitherRef" && t.A.K == "Cell" {
				fs = fs[:2] // an inline Cell takes the rest of the cell: it has to be the last field
			}
			s.Decls = append(s.Decls, &Decl{Constructor: fmt.Sprintf("comb%d", k), Prefix: fmt.Sprintf("#%04x", 0x1000+k), Combinator: fmt.Sprintf("Comb%d", k), Fields: fs})
			k++
		}
		for _, a := range args {
			if a.K != "Cell" {
				add(&T{K: "Maybe", A: a})
			}
			add(&T{K: "MaybeRef", A: a})
			add(&T{K: "Ref", A: a})
			add(&T{K: "EitherRef", A: a})
		}
		add(&T{K: "Either", A: u(8), B: i(16)})
		add(&T{K: "Either", A: named("Inner"), B: &T{K: "Ref", A: named("Alt")}})
		add(&T{K: "Either", A: &T{K: "Bool"}, B: &T{K: "Coins"}})
		// the reference on the left branch, on both, with equal and with different types
		add(&T{K: "Either", A: &T{K: "Ref", A: named("Inner")}, B: named("Inner")})
		add(&T{K: "Either", A: &T{K: "Ref", A: named("Inner")}, B: named("Alt")})
		add(&T{K: "Either", A: &T{K: "Ref", A: named("Inner")}, B: &T{K: "Ref", A: named("Inner")}})
		add(&T{K: "Either", A: &T{K: "Ref", A: u(8)}, B: u(8)})
		add(&T{K: "Either", A: &T{K: "Ref", A: u(8)}, B: &T{K: "Ref", A: i(16)}})
		add(&T{K: "Maybe", A: &T{K: "Either", A: u(8), B: i(16)}})
		add(&T{K: "Maybe", A: &T{K: "EitherRef", A: named("Inner")}})
		out = append(out, s)
	}
	// b04: HashmapE of every key width class x value kind
	{
		s := TLBSchema{Name: "b04"}
		s.Decls = append(s.Decls, &Decl{"inner", "#a1", "Inner", []Field{{"p", u(8)}, {"q", i(16)}}})
		k := 0
		for _, n := range []int{1, 8, 16, 32, 64, 256} {
			for _, v := range []*T{u(8), i(32), nat(24), &T{K: "Coins"}, named("Inner")} {
				s.Decls = append(s.Decls, &Decl{Constructor: fmt.Sprintf("dict%d", k), Prefix: "#d1c7", Combinator: fmt.Sprintf("Dict%d", k), Fields: []Field{{"n", u(8)}, {"m", &T{K: "HashmapE", N: n, A: v}}, {"z", &T{K: "Bool"}}}})
				k++
				s.Decls = append(s.Decls, &Decl{Constructor: fmt.Sprintf("dict%d", k), Prefix: "", Combinator: fmt.Sprintf("Dict%d", k), Fields: []Field{{"m", &T{K: "HashmapERef", N: n, A: v}}}})
				k++
			}
		}
		out = append(out, s)
	}
	return out
}
