// Command check-c09 runs the C09 check. It is built with an overlay that contains the Go code tongo's schema
// compilers generated (at check time, from /repo's working tree) for the schemas of verif/c09s: see cmd/c09gen.
package main

import (
	"verif/fw"

	_ "verif/harness/c09"
)

func main() { fw.Main() }
