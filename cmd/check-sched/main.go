// Command check-sched runs the scheduler-based checks (C11, C12, C13). It is built with an overlay in which
// liteclient and liteapi/pool are source-instrumented (see /verif/instr).
package main

import (
	"verif/fw"

	_ "verif/harness/c11"
	_ "verif/harness/c12"
	_ "verif/harness/c13"
)

func main() { fw.Main() }
