// Command check runs the exhaustive exploration for one property: check [-tier quick|thorough] [-replay f] Cxx
package main

import (
	"verif/fw"

	_ "verif/harness/c01"
	_ "verif/harness/c02"
	_ "verif/harness/c03"
	_ "verif/harness/c04"
	_ "verif/harness/c05"
	_ "verif/harness/c06"
	_ "verif/harness/c07"
	_ "verif/harness/c08"
	_ "verif/harness/c10"
	_ "verif/harness/c14"
	_ "verif/harness/c15"
	_ "verif/harness/c16"
	_ "verif/harness/c17"
	_ "verif/harness/c18"
	_ "verif/harness/c19"
	_ "verif/harness/c20"
)

func main() { fw.Main() }
