// Command mkoverlay writes the `go build -overlay` file for one check: it injects the
// //go:build verif export files from /verif/inject/<pkg>/ into the corresponding /repo packages
// (nothing in /repo is modified).
package main

import (
	"encoding/json"
	"flag"
	"fmt"
	"os"
	"path/filepath"
	"strings"
)

func main() {
	id := flag.String("id", "", "property id")
	out := flag.String("out", "", "output dir")
	verif := flag.String("verif", "/verif", "")
	repo := flag.String("repo", "/repo", "")
	flag.Parse()
	_ = id
	repl := map[string]string{}
	root := filepath.Join(*verif, "inject")
	filepath.Walk(root, func(p string, info os.FileInfo, err error) error {
		if err != nil || info.IsDir() || !strings.HasSuffix(p, ".go") {
			return nil
		}
		rel, _ := filepath.Rel(root, p)
		repl[filepath.Join(*repo, rel)] = p
		return nil
	})
	if len(repl) == 0 {
		return
	}
	b, _ := json.MarshalIndent(map[string]any{"Replace": repl}, "", " ")
	if err := os.WriteFile(filepath.Join(*out, "overlay.json"), b, 0o644); err != nil {
		fmt.Fprintln(os.Stderr, err)
		os.Exit(1)
	}
}
