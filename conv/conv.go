// Package conv converts between tongo's *boc.Cell and the reference cell model.
package conv

import (
	"errors"
	"fmt"

	tb "github.com/tonkeeper/tongo/boc"

	"verif/ref/cell"
)

// FromTongo reads a tongo cell graph through its public accessors into a reference DAG
// (pointer sharing preserved). It fails on cycles / malformed cells instead of looping.
func FromTongo(c *tb.Cell) (*cell.Cell, error) {
	memo := map[*tb.Cell]*cell.Cell{}
	onPath := map[*tb.Cell]bool{}
	var rec func(x *tb.Cell, depth int) (*cell.Cell, error)
	rec = func(x *tb.Cell, depth int) (*cell.Cell, error) {
		if x == nil {
			return nil, errors.New("nil cell")
		}
		if r, ok := memo[x]; ok {
			return r, nil
		}
		if onPath[x] {
			return nil, errors.New("cycle")
		}
		if depth > 2000 {
			return nil, errors.New("too deep")
		}
		onPath[x] = true
		defer delete(onPath, x)
		bs := x.RawBitString()
		n := bs.GetWriteCursor()
		if n != x.BitSize() {
			return nil, fmt.Errorf("BitSize %d != RawBitString length %d", x.BitSize(), n)
		}
		var refs []*cell.Cell
		for _, r := range x.Refs() {
			rc, err := rec(r, depth+1)
			if err != nil {
				return nil, err
			}
			refs = append(refs, rc)
		}
		rc, err := cell.New(bs.Buffer(), n, refs, x.IsExotic())
		if err != nil {
			return nil, err
		}
		if x.IsExotic() && int(x.CellType()) != rc.Type {
			return nil, fmt.Errorf("CellType %d but first data byte says %d", x.CellType(), rc.Type)
		}
		if x.Level() != rc.Level() {
			return nil, fmt.Errorf("Level() = %d but the cell's content implies level %d", x.Level(), rc.Level())
		}
		memo[x] = rc
		return rc, nil
	}
	return rec(c, 0)
}

// ToTongo builds an in-memory tongo cell graph from a reference DAG of ordinary cells.
// share=true keeps pointer sharing; share=false duplicates every shared node (a tree).
func ToTongo(c *cell.Cell, share bool) (*tb.Cell, error) {
	memo := map[*cell.Cell]*tb.Cell{}
	var rec func(x *cell.Cell) (*tb.Cell, error)
	rec = func(x *cell.Cell) (*tb.Cell, error) {
		if share {
			if t, ok := memo[x]; ok {
				return t, nil
			}
		}
		if x.Special {
			return nil, errors.New("exotic cells cannot be built in memory through the public API")
		}
		t := tb.NewCell()
		for i := 0; i < x.BitLen; i++ {
			if err := t.WriteBit(x.Data[i/8]&(0x80>>(uint(i)%8)) != 0); err != nil {
				return nil, err
			}
		}
		for _, r := range x.Refs {
			rt, err := rec(r)
			if err != nil {
				return nil, err
			}
			if err := t.AddRef(rt); err != nil {
				return nil, err
			}
		}
		memo[x] = t
		return t, nil
	}
	return rec(c)
}

// HasSpecial reports whether the DAG contains an exotic cell.
func HasSpecial(c *cell.Cell) bool {
	found := false
	c.Walk(func(x *cell.Cell) {
		if x.Special {
			found = true
		}
	})
	return found
}
