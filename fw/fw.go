// Package fw is the glue shared by all checks: tiers, evidence, replay files,
// known-findings matching, crash-isolating worker processes (engine E3).
package fw

import (
	"bufio"
	"encoding/json"
	"flag"
	"fmt"
	"io"
	"os"
	"os/exec"
	"path/filepath"
	"sort"
	"strconv"
	"strings"
	"sync"
	"syscall"
	"time"

	"verif/mc/enum"
)

// Property is what a per-property package registers.
type Property struct {
	ID        string
	Rule      string   // how cases are enumerated, what is non-trivial
	Assume    []string // assumptions / trusted base
	Harnesses func(r *Run) []HarnessSpec
}

// HarnessSpec is one enumerable space of a property.
type HarnessSpec struct {
	enum.Harness
	// Isolated harnesses run in worker processes (crash / OOM / hang containment).
	Isolated bool
	// NShards for isolated harnesses (default 32).
	Shards int
	// Budget is the share of the tier's wall-clock budget (seconds) after which the harness stops with exhaustive:false.
	BudgetS float64
}

// Run carries the invocation parameters.
type Run struct {
	Tier string
	Seed int64
	Prop *Property
}

func (r *Run) Quick() bool { return r.Tier != "thorough" }

// Pick returns q for the quick tier and t for the thorough tier.
func (r *Run) Pick(q, t int) int {
	if r.Quick() {
		return q
	}
	return t
}

var registry = map[string]*Property{}

func Register(p *Property) { registry[p.ID] = p }

type finding struct {
	Status   string `json:"status"` // "known" or "fixed"
	Property string `json:"property"`
	Key      string `json:"key"`
	What     string `json:"what"`
	Commit   string `json:"commit,omitempty"`
}

func loadFindings(path string) ([]finding, error) {
	f, err := os.Open(path)
	if err != nil {
		if os.IsNotExist(err) {
			return nil, nil
		}
		return nil, err
	}
	defer f.Close()
	var out []finding
	sc := bufio.NewScanner(f)
	sc.Buffer(make([]byte, 1<<20), 1<<20)
	for sc.Scan() {
		line := strings.TrimSpace(sc.Text())
		if line == "" || strings.HasPrefix(line, "#") {
			continue
		}
		var x finding
		if err := json.Unmarshal([]byte(line), &x); err != nil {
			return nil, fmt.Errorf("known_findings: %v in %q", err, line)
		}
		out = append(out, x)
	}
	return out, sc.Err()
}

// workerSem bounds the number of worker processes over all harnesses of a run.
var workerSem = make(chan struct{}, 16)

type workerOut struct {
	Stats enum.Stats       `json:"stats"`
	Viols []enum.Violation `json:"violations"`
	Err   string           `json:"err,omitempty"`
	Keys  string           `json:"keys_file,omitempty"`
}

// Main is the entry point of a check binary.
func Main() {
	var (
		tier      = flag.String("tier", "quick", "quick|thorough")
		replay    = flag.String("replay", "", "replay file")
		verifDir  = flag.String("verif", "/verif", "verif root")
		worker    = flag.Bool("worker", false, "internal: worker process")
		wHarness  = flag.String("harness", "", "internal: harness name")
		wShard    = flag.Int("shard", 0, "internal")
		wNShards  = flag.Int("nshards", 1, "internal")
		wSkip     = flag.String("skip", "", "internal: file with skip prefixes")
		wDeadline = flag.Int64("deadline", 0, "internal: unix seconds")
		only      = flag.String("only", "", "run only harnesses whose name contains this")
	)
	flag.Parse()
	if flag.NArg() < 1 {
		fmt.Fprintln(os.Stderr, "usage: check [flags] <Cxx>")
		os.Exit(2)
	}
	id := flag.Arg(0)
	p := registry[id]
	if p == nil {
		fmt.Fprintf(os.Stderr, "TOOL-ERROR unknown property %s\n", id)
		os.Exit(2)
	}
	if t := os.Getenv("VERIF_TIER"); t != "" && !flagSet("tier") {
		*tier = t
	}
	seed := int64(0)
	if s := os.Getenv("VERIF_SEED"); s != "" {
		seed, _ = strconv.ParseInt(s, 10, 64)
	}
	r := &Run{Tier: *tier, Seed: seed, Prop: p}
	specs := p.Harnesses(r)
	if *tier == "thorough" {
		// The thorough tier first repeats the quick tier's bounds (known to complete: a full coverage statement whatever
		// happens next), then explores the deeper bounds under a time budget; a harness that hits the budget reports
		// exhaustive=false together with what it covered.
		var pre []HarnessSpec
		for _, q := range p.Harnesses(&Run{Tier: "quick", Seed: seed, Prop: p}) {
			q.Name += "@quick-bounds"
			pre = append(pre, q)
		}
		specs = append(pre, specs...)
	}

	if *worker {
		runWorker(specs, *wHarness, *wShard, *wNShards, *wSkip, *wDeadline)
		return
	}
	if *replay != "" {
		os.Exit(doReplay(specs, *replay))
	}
	if os.Getenv("VERIF_SUPERVISED") == "" {
		os.Exit(supervise())
	}
	if os.Getenv("VERIF_FORCE_ISOLATE") != "" {
		for i := range specs {
			specs[i].Isolated = true
		}
	}
	os.Exit(runAll(r, specs, *verifDir, *only))
}

// supervise runs the check in a child process. A fatal runtime error of the code under test (stack exhaustion, memory
// exhaustion, a fatal concurrent map access) kills a Go process without unwinding, so no harness can report it; when the
// child dies that way the check is repeated with every harness in crash-isolating worker processes, which attribute the
// death to the case that was executing and report it as a violation.
func supervise() int {
	self, err := os.Executable()
	if err != nil {
		fmt.Fprintln(os.Stderr, "TOOL-ERROR", err)
		return 2
	}
	run := func(extra ...string) (int, string) {
		cmd := exec.Command(self, os.Args[1:]...)
		cmd.Env = append(append(os.Environ(), "VERIF_SUPERVISED=1"), extra...)
		cmd.Stdout = os.Stdout
		var sb strings.Builder
		cmd.Stderr = io.MultiWriter(os.Stderr, &limitedWriter{w: &sb, n: 1 << 20})
		err := cmd.Run()
		if err == nil {
			return 0, sb.String()
		}
		if ee, ok := err.(*exec.ExitError); ok && ee.ExitCode() >= 0 {
			return ee.ExitCode(), sb.String()
		}
		return -1, sb.String()
	}
	code, se := run()
	if code == 0 || code == 1 {
		return code
	}
	fatal := code < 0 || strings.HasPrefix(se, "fatal error: ") || strings.Contains(se, "\nfatal error: ") || strings.Contains(se, "goroutine stack exceeds")
	if !fatal || strings.Contains(se, "TOOL-ERROR") {
		return code
	}
	fmt.Fprintln(os.Stderr, "note: the check process died of a fatal runtime error; repeating with every harness in crash-isolating worker processes")
	code, _ = run("VERIF_FORCE_ISOLATE=1")
	return code
}

func flagSet(name string) bool {
	set := false
	flag.Visit(func(f *flag.Flag) {
		if f.Name == name {
			set = true
		}
	})
	return set
}

func doReplay(specs []HarnessSpec, path string) int {
	b, err := os.ReadFile(path)
	if err != nil {
		fmt.Fprintln(os.Stderr, "TOOL-ERROR", err)
		return 2
	}
	var v enum.Violation
	if err := json.Unmarshal(b, &v); err != nil {
		fmt.Fprintln(os.Stderr, "TOOL-ERROR", err)
		return 2
	}
	for _, s := range specs {
		if s.Name != v.Harness {
			continue
		}
		if s.Isolated {
			setLimits()
		}
		fails, labels, err := enum.Replay(s.Harness, v.Choices)
		if err != nil {
			fmt.Fprintln(os.Stderr, "TOOL-ERROR", err)
			return 2
		}
		for _, l := range labels {
			fmt.Println("  step:", l)
		}
		if len(fails) == 0 {
			fmt.Println("replay: no failure (property holds on this case)")
			return 0
		}
		for _, f := range fails {
			fmt.Printf("replay: FAIL key=%s %s\n", f.Key, f.Msg)
			if f.Detail != nil {
				d, _ := json.Marshal(f.Detail)
				fmt.Printf("  detail: %s\n", d)
			}
		}
		return 1
	}
	fmt.Fprintf(os.Stderr, "TOOL-ERROR harness %s not found\n", v.Harness)
	return 2
}

func setLimits() {
	// 12 GiB address space: an allocation "out of proportion" kills the worker instead of the sandbox.
	lim := syscall.Rlimit{Cur: 12 << 30, Max: 12 << 30}
	_ = syscall.Setrlimit(syscall.RLIMIT_AS, &lim)
	setMaxStack()
}

func runWorker(specs []HarnessSpec, name string, shard, nshards int, skipFile string, deadline int64) {
	setLimits()
	out := workerOut{}
	// the code under test may print to stdout: keep the result channel separate
	resultFile := os.Stdout
	if devnull, err := os.OpenFile(os.DevNull, os.O_WRONLY, 0); err == nil {
		os.Stdout = devnull
	}
	enc := json.NewEncoder(resultFile)
	for _, s := range specs {
		if s.Name != name {
			continue
		}
		h := s.Harness
		h.NShards, h.Shard = nshards, shard
		h.Workers = 1
		if deadline > 0 {
			h.Deadline = time.Unix(deadline, 0)
		}
		if skipFile != "" {
			b, _ := os.ReadFile(skipFile)
			_ = json.Unmarshal(b, &h.SkipPrefixes)
		}
		jf := os.NewFile(3, "journal")
		if jf != nil {
			h.Journal = func(prefix []int) {
				b, _ := json.Marshal(prefix)
				jf.Write(append(b, '\n'))
			}
		}
		st, vs, err := enum.Explore(h)
		out.Stats, out.Viols = st, vs
		if err != nil {
			out.Err = err.Error()
		}
		enc.Encode(out)
		return
	}
	out.Err = "harness not found: " + name
	enc.Encode(out)
}

// exploreIsolated runs the harness sharded over worker processes.
func exploreIsolated(r *Run, s HarnessSpec, id string) (enum.Stats, []enum.Violation, error) {
	start := time.Now()
	n := s.Shards
	if n == 0 {
		n = 32
	}
	self, _ := os.Executable()
	type res struct {
		out workerOut
		err error
	}
	results := make([]res, n)
	sem := workerSem
	var wg sync.WaitGroup
	var mu sync.Mutex
	var crashes []enum.Violation
	for sh := 0; sh < n; sh++ {
		wg.Add(1)
		sem <- struct{}{}
		go func(sh int) {
			defer wg.Done()
			defer func() { <-sem }()
			var skips [][]int
			for attempt := 0; attempt < 12; attempt++ {
				args := []string{"-worker", "-tier", r.Tier, "-harness", s.Name, "-shard", strconv.Itoa(sh), "-nshards", strconv.Itoa(n)}
				if !s.Deadline.IsZero() {
					args = append(args, "-deadline", strconv.FormatInt(s.Deadline.Unix(), 10))
				}
				var skipPath string
				if len(skips) > 0 {
					f, _ := os.CreateTemp("", "skip*.json")
					b, _ := json.Marshal(skips)
					f.Write(b)
					f.Close()
					skipPath = f.Name()
					args = append(args, "-skip", skipPath)
				}
				args = append(args, id)
				cmd := exec.Command(self, args...)
				cmd.Env = append(os.Environ(), "GOMAXPROCS=2", "GOTRACEBACK=single")
				pr, pw, _ := os.Pipe()
				cmd.ExtraFiles = []*os.File{pw}
				var stdout, stderr strings.Builder
				cmd.Stdout = &stdout
				cmd.Stderr = &limitedWriter{w: &stderr, n: 1 << 16}
				var jmu sync.Mutex
				lastLine, lastAt := "", time.Now()
				rdDone := make(chan struct{})
				go func() {
					sc := bufio.NewScanner(pr)
					sc.Buffer(make([]byte, 1<<20), 1<<20)
					for sc.Scan() {
						jmu.Lock()
						lastLine, lastAt = sc.Text(), time.Now()
						jmu.Unlock()
					}
					close(rdDone)
				}()
				err := cmd.Start()
				pw.Close()
				if err != nil {
					results[sh] = res{err: err}
					return
				}
				done := make(chan error, 1)
				go func() { done <- cmd.Wait() }()
				var werr error
				hung := false
				// per-case watchdog: cases take micro- to milliseconds; 120 s without journal progress is an endless loop
				tick := time.NewTicker(time.Second)
			wait:
				for {
					select {
					case werr = <-done:
						break wait
					case <-tick.C:
						jmu.Lock()
						idle := time.Since(lastAt)
						jmu.Unlock()
						if idle > 120*time.Second {
							hung = true
							cmd.Process.Kill()
							werr = <-done
							break wait
						}
					}
				}
				tick.Stop()
				<-rdDone
				lastPrefix := lastLine
				pr.Close()
				if skipPath != "" {
					os.Remove(skipPath)
				}
				var out workerOut
				if werr == nil && json.Unmarshal([]byte(stdout.String()), &out) == nil {
					results[sh] = res{out: out}
					return
				}
				// the worker died: attribute to the last journaled prefix
				var pref []int
				_ = json.Unmarshal([]byte(lastPrefix), &pref)
				kind := "worker-death"
				se := stderr.String()
				switch {
				case hung:
					kind = "hang"
				case strings.Contains(se, "stack exceeds") || strings.Contains(se, "stack overflow"):
					kind = "stack-overflow"
				case strings.Contains(se, "out of memory") || strings.Contains(se, "cannot allocate"):
					kind = "out-of-memory"
				}
				v := enum.Violation{Harness: s.Name, Choices: pref, Cost: len(pref),
					Fails: []enum.Failure{{Key: "crash:" + kind + ":" + firstRepoFrame(se), Msg: "worker process died (" + kind + ") while executing this case", Detail: tail(se, 1500)}}}
				mu.Lock()
				crashes = append(crashes, v)
				mu.Unlock()
				skips = append(skips, pref)
			}
			// the worker died a dozen times in this shard: every death is reported as a violation of its case; the rest of
			// the shard stays unexplored (the coverage statement says so) - that is a verdict, not a tool error
			results[sh] = res{out: workerOut{Stats: enum.Stats{Harness: s.Name, Bound: s.Bound, Exhaustive: false, CapHit: "worker died 12 times in one shard; the rest of that shard was not explored"}}}
		}(sh)
	}
	wg.Wait()
	total := enum.Stats{Harness: s.Name, Bound: s.Bound, Exhaustive: true}
	var viols []enum.Violation
	outc := map[string]bool{}
	for _, rs := range results {
		if rs.err != nil {
			return total, viols, rs.err
		}
		if rs.out.Err != "" {
			return total, viols, enum.ToolError{Msg: rs.out.Err}
		}
		st := rs.out.Stats
		total.Evaluations += st.Evaluations
		total.Skipped += st.Skipped
		total.Transitions += st.Transitions
		total.States += st.States
		total.DistinctNontrivial += st.DistinctNontrivial
		if st.MaxDepth > total.MaxDepth {
			total.MaxDepth = st.MaxDepth
		}
		if !st.Exhaustive {
			total.Exhaustive = false
			total.CapHit = st.CapHit
		}
		for _, o := range st.Outcomes {
			outc[o] = true
		}
		if total.OutcomeCounts == nil {
			total.OutcomeCounts = map[string]int{}
		}
		for o, n := range st.OutcomeCounts {
			total.OutcomeCounts[o] += n
		}
		if len(total.Samples) < 4 {
			total.Samples = append(total.Samples, st.Samples...)
		}
		viols = append(viols, rs.out.Viols...)
	}
	if len(crashes) > 0 {
		total.Exhaustive = false
		total.CapHit = "subtrees below crashed cases not explored"
	}
	viols = append(viols, crashes...)
	for o := range outc {
		total.Outcomes = append(total.Outcomes, o)
	}
	sort.Strings(total.Outcomes)
	total.DistinctOutcomes = int64(len(total.Outcomes))
	total.WallS = time.Since(start).Seconds()
	// dedupe violations by key, keep cheapest
	best := map[string]enum.Violation{}
	for _, v := range viols {
		k := v.Fails[0].Key
		if o, ok := best[k]; !ok || v.Cost < o.Cost {
			best[k] = v
		}
	}
	viols = viols[:0]
	for _, v := range best {
		viols = append(viols, v)
	}
	sort.Slice(viols, func(i, j int) bool { return viols[i].Fails[0].Key < viols[j].Fails[0].Key })
	return total, viols, nil
}

type limitedWriter struct {
	w *strings.Builder
	n int
}

func (l *limitedWriter) Write(p []byte) (int, error) {
	if l.n > 0 {
		k := len(p)
		if k > l.n {
			k = l.n
		}
		l.w.Write(p[:k])
		l.n -= k
	}
	return len(p), nil
}

func tail(s string, n int) string {
	if len(s) > n {
		return s[:n]
	}
	return s
}

func firstRepoFrame(stderr string) string {
	for _, l := range strings.Split(stderr, "\n") {
		l = strings.TrimSpace(l)
		if strings.HasPrefix(l, "github.com/tonkeeper/tongo/") {
			l = strings.TrimPrefix(l, "github.com/tonkeeper/tongo/")
			if i := strings.Index(l, "("); i > 0 {
				l = l[:i]
			}
			return l
		}
	}
	return "unknown"
}

type evidence struct {
	PropertyID  string         `json:"property_id"`
	Tier        string         `json:"tier"`
	Seed        int64          `json:"seed"`
	Level       string         `json:"level"`
	Coverage    map[string]any `json:"coverage"`
	Assumptions []string       `json:"assumptions"`
	WallS       float64        `json:"wall_s"`
	Violations  int            `json:"violations"`
}

func runAll(r *Run, specs []HarnessSpec, verifDir, only string) int {
	start := time.Now()
	id := r.Prop.ID
	findings, err := loadFindings(filepath.Join(verifDir, "known_findings.jsonl"))
	if err != nil {
		fmt.Fprintln(os.Stderr, "TOOL-ERROR", err)
		return 2
	}
	os.MkdirAll(filepath.Join(verifDir, "evidence"), 0o755)
	os.MkdirAll(filepath.Join(verifDir, "replays"), 0o755)
	var all []enum.Stats
	var viols []enum.Violation
	exhaustive := true
	var toolErr error
	type hres struct {
		st  enum.Stats
		vs  []enum.Violation
		err error
	}
	var sel []HarnessSpec
	for _, s := range specs {
		if only != "" && !strings.Contains(s.Name, only) {
			continue
		}
		sel = append(sel, s)
	}
	results := make([]hres, len(sel))
	var hwg sync.WaitGroup
	// thorough tier: a wall-clock budget per property (VERIF_BUDGET_S, default 1500 s) shared by the deep harnesses
	var end time.Time
	seqLeft := 0
	if r.Tier == "thorough" {
		b := 1500.0
		if v, err := strconv.ParseFloat(os.Getenv("VERIF_BUDGET_S"), 64); err == nil && v > 0 {
			b = v
		}
		end = time.Now().Add(time.Duration(b * float64(time.Second)))
		for _, s := range sel {
			if !s.Isolated && !strings.HasSuffix(s.Name, "@quick-bounds") {
				seqLeft++
			}
		}
	}
	for i, s := range sel {
		if s.BudgetS > 0 {
			s.Deadline = time.Now().Add(time.Duration(s.BudgetS * float64(time.Second)))
		} else if !end.IsZero() && !strings.HasSuffix(s.Name, "@quick-bounds") {
			if s.Isolated {
				s.Deadline = end
			} else {
				left := time.Until(end)
				if left < 20*time.Second {
					left = 20 * time.Second
				}
				s.Deadline = time.Now().Add(left / time.Duration(seqLeft))
				seqLeft--
			}
		}
		run := func(i int, s HarnessSpec) {
			var hr hres
			if s.Isolated && os.Getenv("VERIF_NOISOLATE") == "" {
				hr.st, hr.vs, hr.err = exploreIsolated(r, s, id)
			} else {
				hr.st, hr.vs, hr.err = enum.Explore(s.Harness)
			}
			results[i] = hr
		}
		if s.Isolated && os.Getenv("VERIF_NOISOLATE") == "" {
			// isolated harnesses run concurrently (the worker-process semaphore bounds the load)
			hwg.Add(1)
			go func(i int, s HarnessSpec) { defer hwg.Done(); run(i, s) }(i, s)
		} else {
			run(i, s)
		}
	}
	hwg.Wait()
	for i, s := range sel {
		st, vs, err := results[i].st, results[i].vs, results[i].err
		fmt.Fprintf(os.Stderr, "[%s] %-28s bound=%d evals=%d states=%d nontrivial=%d outcomes=%d exhaustive=%v viol=%d %.1fs\n",
			id, s.Name, st.Bound, st.Evaluations, st.States, st.DistinctNontrivial, st.DistinctOutcomes, st.Exhaustive, len(vs), st.WallS)
		all = append(all, st)
		viols = append(viols, vs...)
		if !st.Exhaustive {
			exhaustive = false
		}
		if err != nil && toolErr == nil {
			toolErr = err
		}
	}
	if toolErr != nil {
		fmt.Fprintln(os.Stderr, "TOOL-ERROR", toolErr)
		return 2
	}
	// violations that did not reproduce in-process (state kept by the code under test between executions)
	// are re-checked twice in fresh processes; only self-contained ones are reported.
	{
		var kept []enum.Violation
		stable, dropped := 0, 0
		self, _ := os.Executable()
		for i, v := range viols {
			if !v.Unstable {
				stable++
				kept = append(kept, v)
				continue
			}
			tmp := filepath.Join(verifDir, "replays", fmt.Sprintf(".unstable-%s-%d-%d.json", id, os.Getpid(), i))
			enum.WriteJSON(tmp, v)
			// two fresh runs that both fail: history-dependent but deterministic. Otherwise up to eight runs: a failure with
			// the same key in at least three of them is an intermittent failure of the code under test (the harness owns
			// every source of nondeterminism it uses; on code where the property holds no run fails at all)
			hits, runs := 0, 0
			for rep := 0; rep < 8; rep++ {
				cmd := exec.Command(self, "-tier", r.Tier, "-verif", verifDir, "-replay", tmp, id)
				out, _ := cmd.CombinedOutput()
				runs++
				if cmd.ProcessState != nil && cmd.ProcessState.ExitCode() == 1 && strings.Contains(string(out), "key="+v.Fails[0].Key+" ") {
					hits++
				}
				if (rep == 1 && hits == 2) || (rep >= 3 && hits == 0) {
					break
				}
			}
			os.Remove(tmp)
			switch {
			case hits == runs:
				v.Fails[0].Msg += " [history-dependent: reproduces in a fresh process, not when re-executed in the exploring process]"
				kept = append(kept, v)
				stable++
			case hits >= 3:
				v.Fails[0].Msg += fmt.Sprintf(" [intermittent: the same case fails in %d of %d fresh processes]", hits, runs)
				kept = append(kept, v)
				stable++
			default:
				dropped++
			}
		}
		if dropped > 0 && stable == 0 {
			fmt.Fprintf(os.Stderr, "TOOL-ERROR NONDETERMINISM: %d failures did not reproduce, neither in-process nor in a fresh process\n", dropped)
			return 2
		}
		if dropped > 0 {
			fmt.Fprintf(os.Stderr, "note: %d follow-up failures caused by state carried over from earlier executions were dropped (not self-contained)\n", dropped)
		}
		viols = kept
	}
	// classify violations
	exit := 0
	unlisted := 0
	knownSeen := map[string]bool{}
	for i, v := range viols {
		k := v.Fails[0].Key
		matched := false
		for _, f := range findings {
			if f.Status == "known" && f.Property == id && f.Key == k {
				matched = true
				if !knownSeen[k] {
					knownSeen[k] = true
					fmt.Printf("KNOWN-FINDING: property=%s %s [%s]\n", id, f.What, k)
				}
			}
		}
		if matched {
			continue
		}
		unlisted++
		path := filepath.Join(verifDir, "replays", fmt.Sprintf("%s-%d.json", id, i))
		enum.WriteJSON(path, v)
		fmt.Printf("VIOLATION property=%s replay=%s\n", id, path)
		fmt.Printf("  harness=%s key=%s cost=%d: %s\n", v.Harness, k, v.Cost, v.Fails[0].Msg)
		exit = 1
	}
	// evidence
	cov := map[string]any{}
	var evals, trans, states, nontriv, outcomes int64
	var samples []any
	for _, st := range all {
		evals += st.Evaluations
		trans += st.Transitions
		states += st.States
		nontriv += st.DistinctNontrivial
		outcomes += st.DistinctOutcomes
		for _, s := range st.Samples {
			if len(samples) < 8 {
				samples = append(samples, map[string]any{"harness": st.Harness, "case": s})
			}
		}
		st.Samples = nil
	}
	if len(samples) == 0 {
		samples = append(samples, "no non-trivial sample recorded")
	}
	hs := make([]enum.Stats, len(all))
	copy(hs, all)
	for i := range hs {
		hs[i].Samples = nil
	}
	cov["evaluations"] = evals
	cov["distinct_nontrivial"] = nontriv
	cov["states"] = states
	cov["transitions"] = trans
	cov["traces_validated_against_impl"] = evals
	cov["distinct_outcomes"] = outcomes
	cov["rule"] = r.Prop.Rule
	cov["samples"] = samples
	cov["exhaustive"] = exhaustive
	cov["harnesses"] = hs
	cov["explanation"] = "stateless bounded-exhaustive exploration of the real implementation: every execution is one path of the choice tree (reference-model trace) executed against the code in /repo and compared with the reference model; traces_validated_against_impl counts those executions"
	var known []string
	for k := range knownSeen {
		known = append(known, k)
	}
	sort.Strings(known)
	cov["known_findings_reproduced"] = known
	ev := evidence{PropertyID: id, Tier: r.Tier, Seed: r.Seed, Level: "model_checking", Coverage: cov,
		Assumptions: r.Prop.Assume, WallS: time.Since(start).Seconds(), Violations: unlisted}
	if ev.Assumptions == nil {
		ev.Assumptions = []string{}
	}
	if err := enum.WriteJSON(filepath.Join(verifDir, "evidence", id+".json"), ev); err != nil {
		fmt.Fprintln(os.Stderr, "TOOL-ERROR", err)
		return 2
	}
	return exit
}
