package fw

import "runtime/debug"

func setMaxStack() { debug.SetMaxStack(96 << 20) }
