// Package dag enumerates small cell DAGs from explorer choices.
package dag

import (
	"fmt"

	"verif/mc/enum"
	"verif/ref/bits"
	"verif/ref/cell"
)

// Opts bounds the DAG space.
type Opts struct {
	MaxCells int
	Exotic   bool // allow library / pruned / Merkle cells as costed deviations
	Seed     int
	// FreeLens makes the bit-length choice free (exhausted) instead of a costed deviation.
	FreeLens bool
	MaxRefs  int // default 4
}

// LenAlphabet are the bit lengths a cell may deviate to (index 0 is the default 8).
var LenAlphabet = []int{8, 0, 1, 7, 9, 15, 16, 1016, 1017, 1022, 1023}

// Build makes one DAG; the root is the last cell. Returns nil after c.Skip() for non-canonical shapes
// (a cell not reachable from the root, or an ill-formed exotic combination).
func Build(c *enum.Ctx, o Opts) (*cell.Cell, string) {
	if o.MaxRefs == 0 {
		o.MaxRefs = 4
	}
	n := 1 + c.ChooseFree(o.MaxCells)
	cells := make([]*cell.Cell, 0, n)
	used := make([]bool, n)
	desc := ""
	// a fixed original for pruned branches
	for k := 0; k < n; k++ {
		// ref list
		nr := 0
		if k > 0 {
			nr = c.ChooseFree(o.MaxRefs + 1)
		}
		refs := make([]*cell.Cell, nr)
		ridx := make([]int, nr)
		for j := 0; j < nr; j++ {
			ridx[j] = c.ChooseFree(k)
			refs[j] = cells[ridx[j]]
			used[ridx[j]] = true
		}
		typ := 0
		if o.Exotic {
			typ = c.Choose(5)
		}
		var li, pat int
		if o.FreeLens {
			li = c.ChooseFree(len(LenAlphabet))
		} else {
			li = c.Choose(len(LenAlphabet))
		}
		pat = c.Choose(3)
		var x *cell.Cell
		var err error
		switch typ {
		case 0:
			bl := LenAlphabet[li]
			var data []byte
			switch pat {
			case 0: // default: the cell's ordinal, so that cells differ
				b := make(bits.Bits, bl)
				for i := 0; i < bl && i < 8; i++ {
					b[bl-1-i] = (k+1)>>(uint(i))&1 == 1
				}
				data = b.Bytes()
			case 1: // same content for every cell with this choice: forces equal hashes of distinct objects
				data = bits.Pattern(2, bl).Bytes()
			case 2:
				data = bits.Pattern(o.Seed*3+k, bl).Bytes()
			}
			x, err = cell.New(data, bl, refs, false)
		case cell.Library:
			if nr != 0 || li != 0 {
				c.Skip()
				return nil, ""
			}
			var h [32]byte
			copy(h[:], bits.Pattern(o.Seed+k+pat, 256).Bytes())
			x = cell.NewLibrary(h)
		case cell.PrunedBranch:
			if nr != 0 || li > 6 {
				c.Skip()
				return nil, ""
			}
			x, err = PrunedKind(li, o.Seed+k, pat)
		case cell.MerkleProof:
			if nr != 1 || li != 0 || pat != 0 {
				c.Skip()
				return nil, ""
			}
			x, err = cell.NewMerkleProof(refs[0])
		case cell.MerkleUpdate:
			if nr != 2 || li != 0 || pat != 0 {
				c.Skip()
				return nil, ""
			}
			x, err = cell.NewMerkleUpdate(refs[0], refs[1])
		}
		if err != nil {
			c.Skip()
			return nil, ""
		}
		cells = append(cells, x)
		desc += fmt.Sprintf("c%d(t%d,l%d,p%d,%v);", k, typ, li, pat, ridx)
	}
	for k := 0; k < n-1; k++ {
		if !used[k] {
			c.Skip()
			return nil, ""
		}
	}
	return cells[n-1], desc
}

// PrunedKind builds one of 7 pruned-branch cells covering every level mask 1..7:
// kind 0,1,2: a level-0 original pruned at level 1,2,3 (masks 1,2,4); kind 3,4: an original of mask 1 pruned at 2,3 (masks 3,5);
// kind 5: an original of mask 2 pruned at 3 (mask 6); kind 6: an original of mask 3 pruned at 3 (mask 7).
func PrunedKind(kind, seed, pat int) (*cell.Cell, error) {
	leaf := cell.MustNew(bits.Pattern(seed, 24+pat).Bytes(), 24+pat, nil, false)
	wrap := func(inner *cell.Cell) *cell.Cell {
		return cell.MustNew([]byte{0xAA, byte(pat)}, 16, []*cell.Cell{inner, leaf}, false)
	}
	switch kind {
	case 0, 1, 2:
		return cell.NewPruned(leaf, kind+1)
	case 3, 4:
		in, _ := cell.NewPruned(leaf, 1)
		return cell.NewPruned(wrap(in), kind-1)
	case 5:
		in, _ := cell.NewPruned(leaf, 2)
		return cell.NewPruned(wrap(in), 3)
	default:
		in1, _ := cell.NewPruned(leaf, 1)
		in2, _ := cell.NewPruned(wrap(in1), 2)
		return cell.NewPruned(wrap(in2), 3)
	}
}
