// Package gen is the reflective, domain-aware value enumerator over tongo's TL-B type vocabulary
// (DESIGN §1.5) plus the deep equality used by the round-trip checks.
package gen

import (
	"fmt"
	"math/big"
	"reflect"
	"regexp"
	"strconv"
	"strings"
	"unsafe"

	tb "github.com/tonkeeper/tongo/boc"
	"github.com/tonkeeper/tongo/tlb"

	"verif/conv"
	"verif/mc/enum"
	"verif/ref/bits"
)

// G is one generation context.
type G struct {
	C    *enum.Ctx
	Seed int
	// Lenient is set when a value of a hand-written codec type was produced by plain reflection:
	// its TL-B domain constraints are unknown to the generator, so the value may be outside the domain.
	Lenient bool
	// Enums: string constants per named string type ("pkg.Type" -> values), from the registry generator.
	Enums map[string][]string
	depth int
	Path  []string
}

var (
	intRe    = regexp.MustCompile(`^(Uint|Int)(\d+)$`)
	varRe    = regexp.MustCompile(`^VarUInteger(\d+)$`)
	bitsRe   = regexp.MustCompile(`^Bits(\d+)$`)
	bigType  = reflect.TypeOf(big.Int{})
	cellType = reflect.TypeOf(tb.Cell{})
	anyType  = reflect.TypeOf(tlb.Any{})
	bsType   = reflect.TypeOf(tb.BitString{})
)

const tlbPkg = "github.com/tonkeeper/tongo/tlb"

// CellPool is the pool of small cells used for boc.Cell / tlb.Any fields.
func CellPool(seed int) []*tb.Cell {
	mk := func(f func(c *tb.Cell)) *tb.Cell { c := tb.NewCell(); f(c); return c }
	leaf := mk(func(c *tb.Cell) { c.WriteUint(0xAB, 8) })
	return []*tb.Cell{
		mk(func(c *tb.Cell) {}),
		leaf,
		mk(func(c *tb.Cell) { c.WriteUint(5, 3) }),
		mk(func(c *tb.Cell) { c.WriteUint(0xC0FFEE, 24); c.AddRef(leaf) }),
		mk(func(c *tb.Cell) {
			for _, b := range bits.Pattern(seed, 1023) {
				c.WriteBit(b)
			}
			c.AddRef(leaf)
			c.AddRef(mk(func(c *tb.Cell) { c.WriteUint(1, 1) }))
		}),
	}
}

func big2(n int) *big.Int { return new(big.Int).Lsh(big.NewInt(1), uint(n)) }

// UintAlphabet returns boundary values of an n-bit unsigned integer (index 0 is the default).
func UintAlphabet(n int, seed int) []*big.Int {
	if n == 0 {
		return []*big.Int{big.NewInt(0)}
	}
	max := new(big.Int).Sub(big2(n), big.NewInt(1))
	vals := []*big.Int{big.NewInt(0), big.NewInt(1), max, new(big.Int).Sub(max, big.NewInt(1)), big2(n - 1), bits.Pattern(seed+n, n).Uint(),
		new(big.Int).Sub(big2(n-1), big.NewInt(1))}
	if n >= 9 {
		vals = append(vals, big.NewInt(255), big.NewInt(256), big2(n-8))
	}
	return dedupe(vals, func(v *big.Int) bool { return v.Sign() >= 0 && v.BitLen() <= n })
}

// IntAlphabet returns boundary values of an n-bit signed integer.
func IntAlphabet(n int, seed int) []*big.Int {
	if n == 0 {
		return []*big.Int{big.NewInt(0)}
	}
	half := big2(n - 1)
	vals := []*big.Int{big.NewInt(0), big.NewInt(-1), big.NewInt(1), new(big.Int).Neg(half), new(big.Int).Sub(half, big.NewInt(1)),
		new(big.Int).Add(new(big.Int).Neg(half), big.NewInt(1)), bits.Pattern(seed+n, n).Int(), big.NewInt(-2)}
	if n >= 10 {
		vals = append(vals, big.NewInt(-256), big.NewInt(255), big.NewInt(-129))
	}
	return dedupe(vals, func(v *big.Int) bool { return bits.FitsInt(v, n) })
}

func dedupe(vals []*big.Int, ok func(*big.Int) bool) []*big.Int {
	seen := map[string]bool{}
	var out []*big.Int
	for _, v := range vals {
		if !ok(v) || seen[v.String()] {
			continue
		}
		seen[v.String()] = true
		out = append(out, v)
	}
	return out
}

// VarUintAlphabet: every byte length 0..n-1 x {min, max of that length}.
func VarUintAlphabet(n int) []*big.Int {
	vals := []*big.Int{big.NewInt(0)}
	for l := 1; l < n; l++ {
		vals = append(vals, big2(8*(l-1)), new(big.Int).Sub(big2(8*l), big.NewInt(1)))
	}
	return dedupe(vals, func(*big.Int) bool { return true })
}

func (g *G) choose(n int) int {
	if n <= 1 {
		return 0
	}
	return g.C.Choose(n)
}

func setBig(v reflect.Value, x *big.Int) {
	v.Set(reflect.ValueOf(*new(big.Int).Set(x)).Convert(v.Type()))
}

func tagValue(tag string) (uint64, bool) {
	t, err := tlb.ParseTag(tag)
	if err != nil {
		return 0, false
	}
	return t.Val, true
}

// Make builds a value of type t; fieldTag is the `tlb` struct tag of the field holding it.
func (g *G) Make(t reflect.Type, fieldTag string) reflect.Value {
	v := reflect.New(t).Elem()
	g.fill(v, fieldTag)
	return v
}

func hasMethod(t reflect.Type, name string) bool {
	_, ok := reflect.PointerTo(t).MethodByName(name)
	return ok
}

func (g *G) fill(v reflect.Value, fieldTag string) {
	t := v.Type()
	g.depth++
	defer func() { g.depth-- }()
	name, pkg := t.Name(), t.PkgPath()

	// ---- named types with known domains
	if pkg == tlbPkg {
		if m := intRe.FindStringSubmatch(name); m != nil {
			n, _ := strconv.Atoi(m[2])
			signed := m[1] == "Int"
			var alpha []*big.Int
			if signed {
				alpha = IntAlphabet(n, g.Seed)
			} else {
				alpha = UintAlphabet(n, g.Seed)
			}
			x := alpha[g.choose(len(alpha))]
			switch t.Kind() {
			case reflect.Struct:
				setBig(v, x)
			case reflect.Bool:
				v.SetBool(x.Sign() != 0)
			case reflect.Int, reflect.Int8, reflect.Int16, reflect.Int32, reflect.Int64:
				v.SetInt(x.Int64())
			default:
				v.SetUint(x.Uint64())
			}
			return
		}
		if m := varRe.FindStringSubmatch(name); m != nil {
			n, _ := strconv.Atoi(m[1])
			alpha := VarUintAlphabet(n)
			setBig(v, alpha[g.choose(len(alpha))])
			return
		}
		if m := bitsRe.FindStringSubmatch(name); m != nil && t.Kind() == reflect.Array {
			k := g.choose(3)
			for i := 0; i < v.Len(); i++ {
				switch k {
				case 1:
					v.Index(i).SetUint(0xFF)
				case 2:
					v.Index(i).SetUint(uint64(bits.Pattern(g.Seed+i, 8).Uint().Uint64()))
				}
			}
			return
		}
		switch name {
		case "Grams":
			alpha := []uint64{0, 1, 255, 256, 1 << 32, 1<<63 - 1, 1 << 63, 1<<63 + 5, 1<<64 - 1, 1_000_000_000}
			v.SetUint(alpha[g.choose(len(alpha))])
			return
		case "SignedCoins":
			alpha := []int64{0, 1, -1, -5, 255, -256, 1<<63 - 1, -(1<<63 - 1), -1 << 63}
			v.SetInt(alpha[g.choose(len(alpha))])
			return
		case "Magic":
			if val, ok := tagValue(fieldTag); ok {
				v.SetUint(val)
			}
			return
		case "Unary":
			alpha := []uint64{0, 1, 7, 63, 64}
			v.SetUint(alpha[g.choose(len(alpha))])
			return
		case "SumType":
			return
		case "MsgAddress":
			g.msgAddress(v)
			return
		case "SnakeData", "Bytes", "Text", "FixedLengthText":
			g.textual(v, name)
			return
		case "VmStack":
			g.vmStack(v)
			return
		case "VmCellSlice":
			pool := CellPool(g.Seed)
			sv, err := tlb.CellToVmCellSlice(pool[g.choose(len(pool))])
			if err == nil {
				v.Set(reflect.ValueOf(sv.VmStkSlice))
			} else {
				g.Lenient = true
			}
			return
		case "Any":
			pool := CellPool(g.Seed)
			c := *pool[g.choose(len(pool))]
			v.Set(reflect.ValueOf(tlb.Any(c)))
			return
		}
		base := name
		if i := strings.Index(name, "["); i > 0 {
			base = name[:i]
		}
		switch base {
		case "Maybe":
			if g.choose(2) == 1 {
				v.FieldByName("Exists").SetBool(true)
				g.fill(v.FieldByName("Value"), "")
			}
			return
		case "Either":
			if g.choose(2) == 1 {
				v.FieldByName("IsRight").SetBool(true)
				g.fill(v.FieldByName("Right"), "")
			} else {
				g.fill(v.FieldByName("Left"), "")
			}
			return
		case "EitherRef":
			v.FieldByName("IsRight").SetBool(g.choose(2) == 1)
			g.fill(v.FieldByName("Value"), "")
			return
		case "Ref":
			g.fill(v.FieldByName("Value"), "")
			return
		case "HashmapE", "Hashmap":
			g.hashmap(v, base)
			return
		case "HashmapAugE", "HashmapAug":
			return // encoder not implemented: empty only
		}
	}
	if t == cellType {
		pool := CellPool(g.Seed)
		v.Set(reflect.ValueOf(*pool[g.choose(len(pool))]))
		return
	}
	if t == bsType {
		b := bits.Pattern(g.Seed, []int{0, 1, 8, 13}[g.choose(4)])
		bs := tb.NewBitString(len(b))
		for _, x := range b {
			bs.WriteBit(x)
		}
		v.Set(reflect.ValueOf(bs))
		return
	}

	custom := hasMethod(t, "MarshalTLB") || hasMethod(t, "UnmarshalTLB")
	switch t.Kind() {
	case reflect.Bool:
		v.SetBool(g.choose(2) == 1)
	case reflect.Uint8, reflect.Uint16, reflect.Uint32, reflect.Uint64, reflect.Uint:
		n := t.Bits()
		alpha := UintAlphabet(n, g.Seed)
		v.SetUint(alpha[g.choose(len(alpha))].Uint64())
	case reflect.Int8, reflect.Int16, reflect.Int32, reflect.Int64, reflect.Int:
		n := t.Bits()
		alpha := IntAlphabet(n, g.Seed)
		v.SetInt(alpha[g.choose(len(alpha))].Int64())
	case reflect.String:
		if vals := g.Enums[pkg+"."+name]; len(vals) > 0 {
			v.SetString(vals[g.choose(len(vals))])
		} else {
			g.Lenient = true
			v.SetString([]string{"", "a", "hello"}[g.choose(3)])
		}
	case reflect.Array:
		if t.Elem().Kind() == reflect.Uint8 {
			k := g.choose(3)
			for i := 0; i < v.Len(); i++ {
				switch k {
				case 1:
					v.Index(i).SetUint(0xFF)
				case 2:
					v.Index(i).SetUint(uint64(i*37+g.Seed) & 0xFF)
				}
			}
		} else {
			g.Lenient = true
		}
	case reflect.Slice:
		g.Lenient = true
		if t.Elem().Kind() == reflect.Uint8 {
			v.SetBytes([][]byte{nil, {1}, {1, 2, 3}}[g.choose(3)])
		} else if g.depth < 10 {
			n := g.choose(3)
			s := reflect.MakeSlice(t, n, n)
			for i := 0; i < n; i++ {
				g.fill(s.Index(i), "")
			}
			v.Set(s)
		}
	case reflect.Pointer:
		maybe := strings.HasPrefix(fieldTag, "maybe")
		if maybe && (g.depth > 10 || g.choose(2) == 0) {
			return // nil
		}
		if g.depth > 14 {
			return
		}
		p := reflect.New(t.Elem())
		g.fill(p.Elem(), "")
		v.Set(p)
	case reflect.Struct:
		if custom {
			g.Lenient = true
		}
		if _, ok := t.FieldByName("SumType"); ok {
			g.sumType(v)
			return
		}
		for i := 0; i < t.NumField(); i++ {
			f := t.Field(i)
			if !f.IsExported() {
				g.Lenient = true
				continue
			}
			g.Path = append(g.Path, f.Name)
			g.fill(v.Field(i), f.Tag.Get("tlb"))
			g.Path = g.Path[:len(g.Path)-1]
		}
	case reflect.Interface, reflect.Map, reflect.Func, reflect.Chan:
		g.Lenient = true
	default:
		g.Lenient = true
	}
}

func (g *G) sumType(v reflect.Value) {
	t := v.Type()
	var idx []int
	for i := 0; i < t.NumField(); i++ {
		if _, ok := t.Field(i).Tag.Lookup("tlbSumType"); ok && t.Field(i).IsExported() {
			idx = append(idx, i)
		}
	}
	if len(idx) == 0 {
		return
	}
	k := 0
	if g.depth < 9 {
		k = g.choose(len(idx))
	} else {
		// deep recursion: take the constructor with the smallest type
		best := -1
		for j, i := range idx {
			sz := int(t.Field(i).Type.Size())
			if best < 0 || sz < int(t.Field(idx[best]).Type.Size()) {
				best = j
			}
			_ = sz
		}
		k = best
	}
	f := t.Field(idx[k])
	v.FieldByName("SumType").SetString(f.Name)
	g.Path = append(g.Path, f.Name)
	g.fill(v.Field(idx[k]), "")
	g.Path = g.Path[:len(g.Path)-1]
}

func (g *G) msgAddress(v reflect.Value) {
	var a tlb.MsgAddress
	k := g.choose(4)
	anycast := func() *tlb.Anycast {
		d := []int{0, 1, 5, 30}[g.choose(4)]
		if d == 0 {
			return nil
		}
		return &tlb.Anycast{Depth: uint32(d), RewritePfx: uint32(bits.Pattern(g.Seed, d).Uint().Uint64())}
	}
	switch k {
	case 0:
		a.SumType = "AddrNone"
	case 1:
		a.SumType = "AddrStd"
		a.AddrStd.Anycast.Exists = false
		if ac := anycast(); ac != nil {
			a.AddrStd.Anycast.Exists = true
			a.AddrStd.Anycast.Value = *ac
		}
		a.AddrStd.WorkchainId = []int8{0, -1, 127, -128}[g.choose(4)]
		g.fill(reflect.ValueOf(&a.AddrStd.Address).Elem(), "")
	case 2:
		a.SumType = "AddrExtern"
		n := []int{8, 0, 1, 9, 256, 511}[g.choose(6)]
		b := bits.Pattern(g.Seed+1, n)
		bs := tb.NewBitString(n)
		for _, x := range b {
			bs.WriteBit(x)
		}
		a.AddrExtern = &bs
	case 3:
		a.SumType = "AddrVar"
		a.AddrVar = &struct {
			Anycast     tlb.Maybe[tlb.Anycast]
			AddrLen     tlb.Uint9
			WorkchainId int32
			Address     tb.BitString
		}{}
		if ac := anycast(); ac != nil {
			a.AddrVar.Anycast.Exists = true
			a.AddrVar.Anycast.Value = *ac
		}
		// lengths around the 64-character text form of a standard address (249..251 bits print as 64 characters ending in '_')
		n := []int{256, 0, 1, 9, 255, 257, 511, 248, 249, 250, 251, 252, 253}[g.choose(13)]
		a.AddrVar.AddrLen = tlb.Uint9(n)
		a.AddrVar.WorkchainId = []int32{0, -1, 1 << 30, -(1 << 31), 127, 128, -129}[g.choose(7)]
		b := bits.Pattern(g.Seed+2, n)
		bs := tb.NewBitString(n)
		for _, x := range b {
			bs.WriteBit(x)
		}
		a.AddrVar.Address = bs
	}
	v.Set(reflect.ValueOf(a))
}

func (g *G) textual(v reflect.Value, name string) {
	switch name {
	case "FixedLengthText":
		n := []int{0, 1, 100, 126}[g.choose(4)]
		v.SetString(strings.Repeat("z", n))
	case "Text":
		n := []int{0, 1, 126, 127, 128, 254, 255, 400}[g.choose(8)]
		v.SetString(strings.Repeat("é", n/2) + strings.Repeat("x", n%2))
	case "Bytes":
		n := []int{0, 1, 126, 127, 128, 254, 255, 400}[g.choose(8)]
		b := make([]byte, n)
		for i := range b {
			b[i] = byte(i*7 + g.Seed)
		}
		v.SetBytes(b)
	case "SnakeData":
		n := []int{0, 1, 8, 13, 1022, 1023, 1024, 2050}[g.choose(8)]
		bs := tb.NewBitString(n)
		for _, x := range bits.Pattern(g.Seed+3, n) {
			bs.WriteBit(x)
		}
		v.Set(reflect.ValueOf(tlb.SnakeData(bs)))
	}
}

func (g *G) vmStack(v reflect.Value) {
	n := g.choose(4)
	st := make(tlb.VmStack, n)
	for i := 0; i < n; i++ {
		g.fill(reflect.ValueOf(&st[i]).Elem(), "")
	}
	v.Set(reflect.ValueOf(st))
}

func (g *G) hashmap(v reflect.Value, base string) {
	n := g.choose(3)
	if base == "Hashmap" {
		n++ // a plain Hashmap has at least one entry
	}
	if n == 0 {
		return
	}
	p := v.Addr()
	put := p.MethodByName("Put")
	if !put.IsValid() {
		g.Lenient = true
		return
	}
	kt, vt := put.Type().In(0), put.Type().In(1)
	seen := map[string]bool{}
	for i := 0; i < n; i++ {
		k := reflect.New(kt).Elem()
		if i == 0 {
			g.fill(k, "")
		} else {
			// a second, different key: flip to an alternative value deterministically
			sub := &G{C: g.C, Seed: g.Seed + 17*i, Enums: g.Enums}
			sub.fillAlt(k, i)
		}
		ks := fmt.Sprintf("%v", k.Interface())
		if seen[ks] {
			continue
		}
		seen[ks] = true
		val := reflect.New(vt).Elem()
		g.fill(val, "")
		put.Call([]reflect.Value{k, val})
	}
}

// fillAlt fills an integer / bits key with its i-th alternative value without consuming explorer choices.
func (g *G) fillAlt(v reflect.Value, i int) {
	t := v.Type()
	switch t.Kind() {
	case reflect.Uint8, reflect.Uint16, reflect.Uint32, reflect.Uint64:
		n := t.Bits()
		if m := intRe.FindStringSubmatch(t.Name()); m != nil {
			n, _ = strconv.Atoi(m[2])
		}
		alpha := UintAlphabet(n, g.Seed)
		v.SetUint(alpha[i%len(alpha)].Uint64())
	case reflect.Int8, reflect.Int16, reflect.Int32, reflect.Int64:
		n := t.Bits()
		if m := intRe.FindStringSubmatch(t.Name()); m != nil {
			n, _ = strconv.Atoi(m[2])
		}
		alpha := IntAlphabet(n, g.Seed)
		v.SetInt(alpha[i%len(alpha)].Int64())
	case reflect.Array:
		for j := 0; j < v.Len(); j++ {
			v.Index(j).SetUint(uint64(0xFF - i))
		}
	case reflect.Struct:
		if t.ConvertibleTo(bigType) {
			setBig(v, big.NewInt(int64(i)))
			return
		}
		for j := 0; j < t.NumField(); j++ {
			if t.Field(j).IsExported() {
				g.fillAlt(v.Field(j), i)
			}
		}
	}
}

// ---------------------------------------------------------------------------------------------
// deep equality

func access(v reflect.Value) reflect.Value {
	if v.CanInterface() || !v.CanAddr() {
		return v
	}
	return reflect.NewAt(v.Type(), unsafe.Pointer(v.UnsafeAddr())).Elem()
}

// Equal compares two values of the same type structurally. Both must be addressable (pass pointers' Elem()).
// It returns "" when equal, otherwise a path describing the first difference.
func Equal(a, b reflect.Value) string { return eq(a, b, "") }

func cellKey(c *tb.Cell) string {
	rc, err := conv.FromTongo(c)
	if err != nil {
		s, _ := c.ToBocString()
		return "raw:" + s
	}
	h := rc.ReprHash()
	return string(h[:])
}

func bitsOf(bs tb.BitString) string { return bs.BinaryString() }

func eq(a, b reflect.Value, path string) string {
	if a.Type() != b.Type() {
		return path + ": type " + a.Type().String() + " vs " + b.Type().String()
	}
	a, b = access(a), access(b)
	t := a.Type()
	switch {
	case t == cellType || t == anyType:
		if !a.CanAddr() || !b.CanAddr() {
			return ""
		}
		ca := (*tb.Cell)(unsafe.Pointer(a.UnsafeAddr()))
		cb := (*tb.Cell)(unsafe.Pointer(b.UnsafeAddr()))
		x, y := *ca, *cb
		if cellKey(&x) != cellKey(&y) {
			return path + ": cells differ"
		}
		return ""
	case t == bsType || t.ConvertibleTo(bsType) && t.Kind() == reflect.Struct && t.NumField() == bsType.NumField() && t.Field(0).Name == "buf":
		if !a.CanAddr() || !b.CanAddr() {
			return ""
		}
		x := *(*tb.BitString)(unsafe.Pointer(a.UnsafeAddr()))
		y := *(*tb.BitString)(unsafe.Pointer(b.UnsafeAddr()))
		if bitsOf(x) != bitsOf(y) {
			return fmt.Sprintf("%s: bit strings differ (%d vs %d bits)", path, x.GetWriteCursor(), y.GetWriteCursor())
		}
		return ""
	case t.Kind() == reflect.Struct && t.ConvertibleTo(bigType):
		if !a.CanAddr() || !b.CanAddr() {
			return ""
		}
		x := (*big.Int)(unsafe.Pointer(a.UnsafeAddr()))
		y := (*big.Int)(unsafe.Pointer(b.UnsafeAddr()))
		if x.Cmp(y) != 0 {
			return fmt.Sprintf("%s: %s vs %s", path, x, y)
		}
		return ""
	}
	if t.Kind() == reflect.Struct && t.PkgPath() == tlbPkg && strings.HasPrefix(t.Name(), "Hashmap") {
		if _, ok := t.FieldByName("keys"); ok {
			ka, kb := access(a.FieldByName("keys")), access(b.FieldByName("keys"))
			va, vb := access(a.FieldByName("values")), access(b.FieldByName("values"))
			if ka.Len() != kb.Len() || va.Len() != vb.Len() || ka.Len() != va.Len() {
				return fmt.Sprintf("%s: dictionary sizes %d/%d vs %d/%d", path, ka.Len(), va.Len(), kb.Len(), vb.Len())
			}
			for i := 0; i < ka.Len(); i++ {
				found := false
				for j := 0; j < kb.Len(); j++ {
					if eq(ka.Index(i), kb.Index(j), "") == "" {
						found = true
						if d := eq(va.Index(i), vb.Index(j), fmt.Sprintf("%s[key %d]", path, i)); d != "" {
							return d
						}
						break
					}
				}
				if !found {
					return fmt.Sprintf("%s: key #%d missing on the other side", path, i)
				}
			}
			// remaining fields (extras of augmented maps)
			for i := 0; i < t.NumField(); i++ {
				if n := t.Field(i).Name; n != "keys" && n != "values" {
					if d := eq(a.Field(i), b.Field(i), path+"."+n); d != "" {
						return d
					}
				}
			}
			return ""
		}
	}
	switch t.Kind() {
	case reflect.Bool:
		if a.Bool() != b.Bool() {
			return fmt.Sprintf("%s: %v vs %v", path, a.Bool(), b.Bool())
		}
	case reflect.Int, reflect.Int8, reflect.Int16, reflect.Int32, reflect.Int64:
		if a.Int() != b.Int() {
			return fmt.Sprintf("%s: %d vs %d", path, a.Int(), b.Int())
		}
	case reflect.Uint, reflect.Uint8, reflect.Uint16, reflect.Uint32, reflect.Uint64, reflect.Uintptr:
		if a.Uint() != b.Uint() {
			return fmt.Sprintf("%s: %d vs %d", path, a.Uint(), b.Uint())
		}
	case reflect.String:
		if a.String() != b.String() {
			return fmt.Sprintf("%s: %q vs %q", path, trunc(a.String()), trunc(b.String()))
		}
	case reflect.Pointer:
		if a.IsNil() != b.IsNil() {
			return fmt.Sprintf("%s: nil=%v vs nil=%v", path, a.IsNil(), b.IsNil())
		}
		if !a.IsNil() {
			return eq(a.Elem(), b.Elem(), path)
		}
	case reflect.Slice, reflect.Array:
		if a.Len() != b.Len() {
			return fmt.Sprintf("%s: len %d vs %d", path, a.Len(), b.Len())
		}
		for i := 0; i < a.Len(); i++ {
			if d := eq(a.Index(i), b.Index(i), fmt.Sprintf("%s[%d]", path, i)); d != "" {
				return d
			}
		}
	case reflect.Struct:
		for i := 0; i < t.NumField(); i++ {
			if d := eq(a.Field(i), b.Field(i), path+"."+t.Field(i).Name); d != "" {
				return d
			}
		}
	case reflect.Interface:
		if a.IsNil() != b.IsNil() {
			return path + ": interface nil-ness"
		}
		if !a.IsNil() {
			return eq(a.Elem(), b.Elem(), path)
		}
	case reflect.Map:
		if a.Len() != b.Len() {
			return fmt.Sprintf("%s: map len %d vs %d", path, a.Len(), b.Len())
		}
	}
	return ""
}

func trunc(s string) string {
	if len(s) > 40 {
		return s[:40] + "…"
	}
	return s
}

const tongoPrefix = "github.com/tonkeeper/tongo"

// IsTLB reports whether t can be a TL-B type: it has a hand-written codec, or it is composed only of
// basic kinds and TL-B types declared inside tongo (no func / interface / map / chan / foreign struct fields).
func IsTLB(t reflect.Type) bool { return isTLB(t, map[reflect.Type]bool{}) }

func isTLB(t reflect.Type, seen map[reflect.Type]bool) bool {
	if seen[t] {
		return true
	}
	seen[t] = true
	if hasMethod(t, "MarshalTLB") || hasMethod(t, "UnmarshalTLB") || t == cellType || t == bsType || t.ConvertibleTo(bigType) && t.Kind() == reflect.Struct {
		return true
	}
	switch t.Kind() {
	case reflect.Bool, reflect.Int8, reflect.Int16, reflect.Int32, reflect.Int64, reflect.Uint8, reflect.Uint16, reflect.Uint32, reflect.Uint64:
		return true
	case reflect.Pointer:
		return isTLB(t.Elem(), seen)
	case reflect.Array, reflect.Slice:
		return t.Elem().Kind() == reflect.Uint8
	case reflect.Struct:
		if t.PkgPath() != "" && !strings.HasPrefix(t.PkgPath(), tongoPrefix) {
			return false
		}
		for i := 0; i < t.NumField(); i++ {
			f := t.Field(i)
			if f.Type.Name() == "SumType" || f.Type.Name() == "Magic" {
				continue
			}
			if !f.IsExported() {
				continue
			}
			if !isTLB(f.Type, seen) {
				return false
			}
		}
		return true
	}
	return false
}
