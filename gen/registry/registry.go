// Package registry lists the exported TL-B / TL types of the tongo packages under test.
// The list itself (zz_generated.go) is produced at check time by cmd/mkoverlay from /repo's
// current source files and supplied through the build overlay; this file only declares the API.
package registry

import "reflect"

// Entry is one exported type.
type Entry struct {
	Name string // "tlb.Message"
	Type reflect.Type
}

// Types is filled by the generated init function.
var Types []Entry

// Enums maps "importpath.Type" of named string types to their declared constants.
var Enums = map[string][]string{}

// ByPackage returns the entries of one package prefix ("tlb.", "abi.", …).
func ByPackage(prefix string) []Entry {
	var out []Entry
	for _, e := range Types {
		if len(e.Name) > len(prefix) && e.Name[:len(prefix)] == prefix {
			out = append(out, e)
		}
	}
	return out
}
