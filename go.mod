module verif

go 1.23

require github.com/tonkeeper/tongo v0.0.0

require (
	github.com/alecthomas/participle/v2 v2.0.0-beta.5 // indirect
	golang.org/x/mod v0.22.0 // indirect
	golang.org/x/sync v0.10.0 // indirect
)

require (
	github.com/oasisprotocol/curve25519-voi v0.0.0-20220328075252-7dd334e3daae // indirect
	github.com/snksoft/crc v1.1.0 // indirect
	golang.org/x/crypto v0.17.0 // indirect
	golang.org/x/exp v0.0.0-20230116083435-1de6713980de // indirect
	golang.org/x/sys v0.29.0 // indirect
	golang.org/x/tools v0.29.0
)

replace github.com/tonkeeper/tongo => /repo
