// Package c01: bag-of-cells round trip and canonical form.
package c01

import (
	"bytes"
	"encoding/hex"
	"fmt"

	tb "github.com/tonkeeper/tongo/boc"

	"verif/conv"
	"verif/fw"
	"verif/gen/dag"
	"verif/mc/enum"
	"verif/realdata"
	"verif/ref/bits"
	rboc "verif/ref/boc"
	"verif/ref/cell"
)

func init() {
	fw.Register(&fw.Property{
		ID: "C01",
		Rule: "cell DAGs are built bottom-up from explorer choices (cell count, ordered ref list into earlier cells = every sharing pattern, costed deviations for bit length / fill / exotic type), " +
			"canonical filter: every cell reachable from the root; each DAG x all 8 option combinations is serialised by tongo, parsed back by tongo and by the independent reference parser, and every " +
			"conforming variant emitted by the reference serialiser is parsed by tongo; distinct = distinct (DAG hash, options); non-trivial = more than one cell or a non byte-aligned length",
		Assume: []string{
			"reference cell/BOC model in /verif/ref written from the TL-B scheme and the validating node's rules",
			"the combination (no index, cache bits) is not a conforming BOC (the node rejects it); it is only required to round-trip through tongo's own parser",
			"DAGs with more than MaxCells cells are covered only by the boundary families (n-cell heaps, chains, wide+deep trees) listed in the harness names",
		},
		Harnesses: harnesses,
	})
}

type optCombo struct{ idx, crc, cache bool }

func combo(i int) optCombo { return optCombo{i&1 != 0, i&2 != 0, i&4 != 0} }

func headerCellCount(b []byte) int {
	if len(b) < 7 {
		return -1
	}
	size := int(b[4] & 7)
	if len(b) < 6+size {
		return -1
	}
	n := 0
	for i := 0; i < size; i++ {
		n = n<<8 | int(b[6+i])
	}
	return n
}

// checkOwnOutput verifies clause (i) and (iii) for bytes produced by tongo from a DAG equal to ref.
func checkOwnOutput(c *enum.Ctx, ref *cell.Cell, out []byte, o optCombo, tag string) {
	roots, err := tb.DeserializeBoc(out)
	if err != nil {
		c.Fail("own-output-rejected:"+tag, "tongo cannot parse its own output (%+v): %v", o, err)
		return
	}
	if len(roots) != 1 {
		c.Fail("own-output-roots:"+tag, "own output parsed to %d roots", len(roots))
		return
	}
	back, err := conv.FromTongo(roots[0])
	if err != nil {
		c.Fail("own-output-malformed:"+tag, "parsed own output is not a well-formed cell graph: %v", err)
		return
	}
	if !cell.StructEqual(back, ref) {
		c.Fail("roundtrip-structure:"+tag, "round trip (%+v) changed the structure: got %s want %s", o, back.Describe(), ref.Describe())
		return
	}
	h, err := roots[0].Hash()
	rh := ref.ReprHash()
	if err != nil || !bytes.Equal(h, rh[:]) {
		c.Fail("roundtrip-hash:"+tag, "round trip (%+v): Hash()=%x,%v want %x", o, h, err, rh)
	}
	if n := headerCellCount(out); n != ref.DistinctHashes() {
		c.Fail("dedup-count:"+tag, "header says %d cells, DAG has %d distinct cells (%+v)", n, ref.DistinctHashes(), o)
	}
	if o.idx || !o.cache {
		// the independent parser must read the same DAG from these bytes (index entries are not compared:
		// neither the node nor tongo's parser uses them, and the statement is about the parsed cells)
		rr, err := rboc.Parse(out)
		if err != nil {
			c.Fail("nonconforming-output:"+tag, "reference parser rejects tongo output (%+v): %v", o, err)
		} else if len(rr) != 1 || rr[0].ReprHash() != rh {
			c.Fail("nonconforming-output-hash:"+tag, "reference parser reads a different root from tongo output (%+v)", o)
		}
	}
}

func serialize(c *enum.Ctx, t *tb.Cell, o optCombo, tag string) []byte {
	out, err := tb.SerializeBoc(t, o.idx, o.crc, o.cache, 0)
	if err != nil {
		c.Fail("serialize-error:"+tag, "SerializeBoc(%+v): %v", o, err)
		return nil
	}
	return out
}

// fromRef obtains a tongo cell for a reference DAG: built in memory when all cells are ordinary,
// otherwise parsed from the reference serialisation.
func fromRef(c *enum.Ctx, ref *cell.Cell, share bool, tag string) *tb.Cell {
	if !conv.HasSpecial(ref) {
		t, err := conv.ToTongo(ref, share)
		if err != nil {
			c.Fail("build:"+tag, "cannot build cell in memory: %v", err)
			return nil
		}
		return t
	}
	b, _ := rboc.Serialize([]*cell.Cell{ref}, rboc.Options{Order: boolInt(!share)})
	roots, err := tb.DeserializeBoc(b)
	if err != nil || len(roots) != 1 {
		c.Fail("inbound-rejected:"+tag, "tongo rejects a conforming BOC with exotic cells: %v (%x)", err, b)
		return nil
	}
	return roots[0]
}

func boolInt(b bool) int {
	if b {
		return 1
	}
	return 0
}

func dagRoundTrip(c *enum.Ctx, ref *cell.Cell, oi int, tag string) {
	o := combo(oi)
	c.Try("panic:roundtrip:"+tag, func() {
		t := fromRef(c, ref, true, tag)
		if t == nil {
			return
		}
		out := serialize(c, t, o, tag)
		if out == nil {
			return
		}
		checkOwnOutput(c, ref, out, o, tag)
		// (ii) a structurally equal input (fresh pointers, shared nodes duplicated / different cell order on the wire) gives the same bytes
		t2 := fromRef(c, ref, false, tag)
		if t2 != nil {
			out2 := serialize(c, t2, o, tag)
			if out2 != nil && !bytes.Equal(out, out2) {
				c.Fail("not-canonical:"+tag, "structurally equal inputs serialise differently (%+v): %x vs %x", o, trunc(out), trunc(out2))
			}
		}
		// hasher-reusing API and the convenience forms agree
		if oi == 0 {
			if b, err := t.ToBoc(); err != nil || !bytes.Equal(b, out) {
				c.Fail("ToBoc-differs:"+tag, "ToBoc differs from SerializeBoc(false,false,false)")
			}
			if s, err := t.ToBocString(); err != nil || s != hex.EncodeToString(out) {
				c.Fail("ToBocString-differs:"+tag, "ToBocString differs")
			}
		}
		if b, err := t.ToBocCustom(o.idx, o.crc, o.cache, 0); err != nil || !bytes.Equal(b, out) {
			c.Fail("ToBocCustom-differs:"+tag, "ToBocCustom(%+v) differs from SerializeBoc", o)
		}
		hs := tb.NewHasher()
		if b, err := t.ToBocCustomWithHasher(hs, o.idx, o.crc, o.cache, 0); err != nil || !bytes.Equal(b, out) {
			c.Fail("ToBocCustomWithHasher-differs:"+tag, "ToBocCustomWithHasher(%+v) differs from SerializeBoc", o)
		}
	})
}

func trunc(b []byte) []byte {
	if len(b) > 96 {
		return b[:96]
	}
	return b
}

// variants enumerates reference serialiser options.
func variantOpts(c *enum.Ctx, nroots int) rboc.Options {
	var o rboc.Options
	m := c.ChooseFree(3)
	o.Magic = []uint32{rboc.MagicGeneric, rboc.MagicIdx, rboc.MagicIdxCRC}[m]
	if m == 0 {
		f := c.ChooseFree(6) // idx/crc/cache combinations that are conforming: cache requires idx
		o.Index = f&1 != 0
		o.CRC = f&2 != 0
		o.CacheBits = f >= 4 // f=4: idx+cache, f=5: idx+cache+crc
		if f >= 4 {
			o.Index = true
			o.CRC = f == 5
		}
	}
	o.StoreHashes = c.ChooseFree(2) == 1
	o.Order = c.ChooseFree(3)
	o.ExtraSize = c.ChooseFree(2)
	o.ExtraOff = c.ChooseFree(2)
	return o
}

func inbound(c *enum.Ctx, roots []*cell.Cell, o rboc.Options, tag string) {
	b, err := rboc.Serialize(roots, o)
	if err != nil {
		c.Skip()
		return
	}
	c.Try("panic:inbound:"+tag, func() {
		orig := append([]byte{}, b...)
		got, err := tb.DeserializeBoc(b)
		if err != nil {
			c.Fail(fmt.Sprintf("inbound-rejected:%s:magic=%x", tag, o.Magic), "tongo rejects a conforming BOC (%+v): %v; bytes %x", o, err, trunc(b))
			return
		}
		// the byte string belongs to the caller: parsing does not change it, and what the caller does with it afterwards
		// (a reused read buffer) does not change the cells that were returned
		if !bytes.Equal(b, orig) {
			c.Fail("inbound-input-modified:"+tag, "DeserializeBoc changed its argument: %x became %x", trunc(orig), trunc(b))
			return
		}
		for i := range b {
			b[i] = ^b[i]
		}
		if len(got) != len(roots) {
			c.Fail("inbound-roots:"+tag, "conforming BOC with %d roots parsed to %d roots (%+v)", len(roots), len(got), o)
			return
		}
		for i := range got {
			h, err := got[i].Hash()
			rh := roots[i].ReprHash()
			if err != nil || !bytes.Equal(h, rh[:]) {
				c.Fail(fmt.Sprintf("inbound-hash:%s:magic=%x", tag, o.Magic), "root %d of a conforming BOC (%+v) has hash %x,%v; intended %x", i, o, h, err, rh)
				return
			}
			back, err := conv.FromTongo(got[i])
			if err != nil || !cell.StructEqual(back, roots[i]) {
				c.Fail("inbound-structure:"+tag, "root %d of a conforming BOC (%+v) has different structure: %v", i, o, err)
				return
			}
		}
	})
}

// heap builds n distinct ordinary cells in heap layout (cell i refs 4i+1..4i+4), each with `bitsPer` bits.
func heap(n, bitsPer, seed int) *cell.Cell {
	cells := make([]*cell.Cell, n)
	for i := n - 1; i >= 0; i-- {
		var refs []*cell.Cell
		for j := 4*i + 1; j <= 4*i+4 && j < n; j++ {
			refs = append(refs, cells[j])
		}
		b := bits.Pattern(seed+i%7, bitsPer)
		// make distinct: ordinal in the first 32 bits
		for k := 0; k < 32 && k < bitsPer; k++ {
			b[k] = (i>>(uint(31-k)))&1 == 1
		}
		cells[i] = cell.MustNew(b.Bytes(), bitsPer, refs, false)
	}
	return cells[0]
}

func chain(n int, tail *cell.Cell, tagBits int) (*cell.Cell, error) {
	cur := tail
	for i := 0; i < n; i++ {
		var refs []*cell.Cell
		if cur != nil {
			refs = []*cell.Cell{cur}
		}
		d := []byte{byte(i >> 8), byte(i), byte(tagBits)}
		x, err := cell.New(d, 24, refs, false)
		if err != nil {
			return nil, err
		}
		cur = x
	}
	return cur, nil
}

func harnesses(r *fw.Run) []fw.HarnessSpec {
	seed := int(r.Seed)
	var hs []fw.HarnessSpec
	add := func(name string, bound int, f func(c *enum.Ctx)) {
		hs = append(hs, fw.HarnessSpec{Harness: enum.Harness{Name: name, Bound: bound, Run: f}})
	}
	maxCells := r.Pick(3, 4)

	add("dag-roundtrip", r.Pick(1, 2), func(c *enum.Ctx) {
		ref, desc := dag.Build(c, dag.Opts{MaxCells: maxCells, Exotic: true, Seed: seed})
		if ref == nil {
			return
		}
		oi := c.ChooseFree(8)
		h := ref.ReprHash()
		n := 0
		ref.Walk(func(*cell.Cell) { n++ })
		c.Case(append(h[:], byte(oi)), n > 1 || ref.BitLen%8 != 0)
		c.Sample(map[string]any{"dag": ref.Describe(), "options": fmt.Sprintf("%+v", combo(oi))})
		c.Label("dag=%s opts=%+v", desc, combo(oi))
		dagRoundTrip(c, ref, oi, "dag")
	})
	if !r.Quick() {
		// 5 cells with at most 2 refs each, ordinary cells only
		add("dag-roundtrip-5cells-2refs", 1, func(c *enum.Ctx) {
			ref, desc := dag.Build(c, dag.Opts{MaxCells: 5, MaxRefs: 2, Seed: seed})
			if ref == nil {
				return
			}
			oi := c.ChooseFree(8)
			h := ref.ReprHash()
			c.Case(append(h[:], byte(oi)), true)
			c.Sample(map[string]any{"dag": ref.Describe(), "options": fmt.Sprintf("%+v", combo(oi))})
			c.Label("dag=%s opts=%+v", desc, combo(oi))
			dagRoundTrip(c, ref, oi, "dag5")
		})
	}

	// a subtree with several different children that is reached more than once: twice from one parent, from a parent
	// and from inside an earlier sibling's subtree, from two parents - the positions in which the reordering passes meet
	// a cell again before / after its parent placed it
	add("repeated-subtrees", 0, func(c *enum.Ctx) {
		leaf := func(tag byte) *cell.Cell { return cell.MustNew([]byte{tag, 0x5a}, 16, nil, false) }
		A, B, C := leaf(0xa1), leaf(0xb2), leaf(0xc3)
		kids := [][]*cell.Cell{{A, B}, {B, A}, {A, B, C}, {C, A, B}, {A, A, B}, {A, B, A}, {A, B, C, A}}[c.ChooseFree(7)]
		X := cell.MustNew([]byte{0x77}, 8, kids, false)
		node := func(tag byte, refs ...*cell.Cell) *cell.Cell { return cell.MustNew([]byte{tag}, 8, refs, false) }
		place := c.ChooseFree(10)
		var root *cell.Cell
		switch place {
		case 0:
			root = node(1, X, X)
		case 1:
			root = node(1, X, leaf(0xd4), X)
		case 2:
			root = node(1, node(2, X), X)
		case 3:
			root = node(1, X, node(2, X))
		case 4:
			root = node(1, node(2, X), node(3, X))
		case 5:
			root = node(1, node(2, X, X))
		case 6:
			root = node(1, node(2, node(3, X)), X)
		case 7:
			root = node(1, A, X, node(2, X))
		case 8:
			root = node(1, node(2, B, X), node(3, X, A), X)
		case 9:
			root = node(1, X, X, X, X)
		}
		oi := c.ChooseFree(8)
		h := root.ReprHash()
		c.Case(append(h[:], byte(oi)), true)
		c.Sample(map[string]any{"dag": root.Describe(), "options": fmt.Sprintf("%+v", combo(oi))})
		c.Label("repeated subtree: children %d placement %d opts=%+v", len(kids), place, combo(oi))
		dagRoundTrip(c, root, oi, "repeated")
	})

	// serialise, change the cells, serialise again (through the same or another entry point): the second bag describes
	// the tree as it is then - nothing learnt about a cell during the first call may be used for the changed cell
	add("serialise-after-mutation", 0, func(c *enum.Ctx) {
		entry := c.ChooseFree(4)
		shape := c.ChooseFree(3)
		oi := c.ChooseFree(8)
		o := combo(oi)
		c.Case([]byte(fmt.Sprintf("mutate/%d/%d/%d", entry, shape, oi)), true)
		c.Sample(map[string]any{"entry_point": []string{"SerializeBoc", "ToBocCustom", "ToBocCustomWithHasher(new)", "ToBoc/SerializeBoc mixed"}[entry], "shape": shape, "options": fmt.Sprintf("%+v", o)})
		c.Label("serialise, mutate, serialise: entry %d shape %d opts=%+v", entry, shape, o)
		ser := func(t *tb.Cell, round int) ([]byte, error) {
			switch entry {
			case 0:
				return tb.SerializeBoc(t, o.idx, o.crc, o.cache, 0)
			case 1:
				return t.ToBocCustom(o.idx, o.crc, o.cache, 0)
			case 2:
				return t.ToBocCustomWithHasher(tb.NewHasher(), o.idx, o.crc, o.cache, 0)
			}
			if round%2 == 0 {
				return t.ToBocCustom(o.idx, o.crc, o.cache, 0)
			}
			return tb.SerializeBoc(t, o.idx, o.crc, o.cache, 0)
		}
		c.Try("panic:serialise-after-mutation", func() {
			for round := 0; round < 6; round++ {
				// two leaves that are equal (empty) at first
				l1, l2 := tb.NewCell(), tb.NewCell()
				mid := tb.NewCell()
				_ = mid.WriteUint(uint64(0x40+round), 8)
				_ = mid.AddRef(l2)
				root := tb.NewCell()
				_ = root.WriteUint(0x11, 8)
				_ = root.AddRef(l1)
				_ = root.AddRef(mid)
				if _, err := ser(root, round); err != nil {
					c.Fail("serialize-error:mutation", "first serialisation: %v", err)
					return
				}
				switch shape {
				case 0: // both leaves change, to different contents
					_ = l1.WriteUint(0xAA, 8)
					_ = l2.WriteUint(0xBB, 8)
				case 1: // one leaf changes
					_ = l2.WriteUint(0x5, 3)
				case 2: // a leaf gains a child
					ch := tb.NewCell()
					_ = ch.WriteUint(0x77, 8)
					_ = l1.AddRef(ch)
				}
				out, err := ser(root, round+1)
				if err != nil {
					c.Fail("serialize-error:mutation", "second serialisation: %v", err)
					return
				}
				ref, err := conv.FromTongo(root)
				if err != nil {
					c.Fail("setup", "%v", err)
					return
				}
				checkOwnOutput(c, ref, out, o, "after-mutation")
				if c.Failed() {
					return
				}
			}
		})
	})

	add("single-cell-all-lengths", 0, func(c *enum.Ctx) {
		n := c.ChooseFree(1024)
		p := c.ChooseFree(3)
		oi := c.ChooseFree(8)
		b := bits.Pattern(seed*3+p, n)
		if p == 2 {
			b = make(bits.Bits, n) // all zero: the completion tag is the only set bit
		}
		ref := cell.MustNew(b.Bytes(), n, nil, false)
		c.Case([]byte(fmt.Sprintf("sc/%d/%d/%d", n, p, oi)), n%8 != 0)
		c.Sample(map[string]any{"bits": n, "pattern": p, "options": fmt.Sprintf("%+v", combo(oi))})
		dagRoundTrip(c, ref, oi, "single")
		if oi == 0 && !c.Failed() {
			// as a child too (d2 of a non-root cell)
			parent := cell.MustNew([]byte{1}, 8, []*cell.Cell{ref, ref}, false)
			dagRoundTrip(c, parent, 1+p, "single-child")
			inbound(c, []*cell.Cell{parent}, rboc.Options{Index: p == 1, StoreHashes: p == 2}, "single-child")
		}
	})

	// boundary families: ref-index width (n cells), offset width (total bytes), both through all 8 option combinations
	countFam := []int{1, 2, 254, 255, 256, 257, 258}
	if !r.Quick() {
		countFam = append(countFam, 65534, 65535, 65536, 65537)
	}
	add("family-cell-count", 0, func(c *enum.Ctx) {
		n := countFam[c.ChooseFree(len(countFam))]
		oi := c.ChooseFree(8)
		ref := heap(n, 32, seed)
		c.Case([]byte(fmt.Sprintf("cnt/%d/%d", n, oi)), true)
		c.Sample(map[string]any{"distinct_cells": n, "options": fmt.Sprintf("%+v", combo(oi))})
		c.Label("heap of %d distinct cells opts=%+v", n, combo(oi))
		dagRoundTrip(c, ref, oi, fmt.Sprintf("count"))
		if oi < 3 && n < 1000 && !c.Failed() {
			inbound(c, []*cell.Cell{ref}, rboc.Options{Index: oi == 1, Order: oi}, "count")
		}
	})
	// total size crossing 2^8 and 2^16 (and 2^24 in thorough): cells of 34 bytes (32 data + 2 descriptor) + refs
	sizeFam := [][2]int{{7, 256}, {8, 256}, {2, 1016}, {496, 1016}, {497, 1016}, {498, 1016}, {499, 1016}}
	if !r.Quick() {
		sizeFam = append(sizeFam, [2]int{127100, 1016}, [2]int{127101, 1016}, [2]int{127102, 1016}, [2]int{127103, 1016})
	}
	add("family-total-size", 0, func(c *enum.Ctx) {
		f := sizeFam[c.ChooseFree(len(sizeFam))]
		oi := c.ChooseFree(8)
		if f[0] > 100000 && oi != 0 && oi != 7 {
			c.Skip() // the 16 MiB bags only with no options and with all options
			return
		}
		ref := heap(f[0], f[1], seed)
		c.Case([]byte(fmt.Sprintf("size/%d/%d/%d", f[0], f[1], oi)), true)
		c.Sample(map[string]any{"cells": f[0], "bits_per_cell": f[1], "options": fmt.Sprintf("%+v", combo(oi))})
		c.Label("heap of %d cells x %d bits opts=%+v", f[0], f[1], combo(oi))
		dagRoundTrip(c, ref, oi, "size")
	})
	// depth limit
	add("family-depth", 0, func(c *enum.Ctx) {
		d := []int{2, 1022, 1023, 1024, 1025, 1026, 1030}[c.ChooseFree(7)]
		oi := c.ChooseFree(2) * 7
		c.Case([]byte(fmt.Sprintf("depth/%d/%d", d, oi)), true)
		c.Sample(map[string]any{"chain_cells": d})
		c.Label("chain of %d cells", d)
		ref, err := chain(d, nil, 0)
		if err != nil {
			// the model says: deeper than the 1024 limit. tongo must refuse or at least not panic.
			c.Try("panic:depth", func() {
				t := tb.NewCell()
				cur := t
				for i := 1; i < d; i++ {
					n, _ := cur.NewRef()
					cur = n
				}
				_, herr := t.Hash()
				_, serr := tb.SerializeBoc(t, false, false, false, 0)
				if herr == nil || serr == nil {
					c.Fail("depth-limit-ignored", "chain of %d cells (depth %d > 1024): Hash err=%v Serialize err=%v", d, d-1, herr, serr)
				}
			})
			return
		}
		dagRoundTrip(c, ref, oi, "depth")
	})
	// wide + deep shapes that exercise the weight-based reordering
	lens := []int{1, 14, 15, 16, 17, 62, 63, 64, 65}
	if !r.Quick() {
		lens = append(lens, 127, 254, 255, 256, 257)
	}
	add("family-weights", 1, func(c *enum.Ctx) {
		nch := 1 + c.ChooseFree(4)
		share := c.ChooseFree(3) // 0: independent chains, 1: all chains share a tail, 2: chain i hangs off chain i-1's middle
		var kids []*cell.Cell
		var ls []int
		var tail *cell.Cell
		if share == 1 {
			tail, _ = chain(3, nil, 99)
		}
		for i := 0; i < nch; i++ {
			var l int
			if i == 0 {
				l = lens[c.ChooseFree(len(lens))]
			} else {
				l = lens[c.Choose(len(lens))]
			}
			ls = append(ls, l)
			t := tail
			if share == 2 && i > 0 {
				t = kids[i-1]
			}
			k, _ := chain(l, t, i)
			kids = append(kids, k)
		}
		oi := []int{0, 1, 7}[c.ChooseFree(3)]
		ref := cell.MustNew([]byte{0xEE}, 8, kids, false)
		h := ref.ReprHash()
		c.Case(append(h[:], byte(oi)), true)
		c.Sample(map[string]any{"children_chain_lengths": ls, "sharing": share, "options": fmt.Sprintf("%+v", combo(oi))})
		c.Label("root with chains %v sharing=%d opts=%+v", ls, share, combo(oi))
		dagRoundTrip(c, ref, oi, "weights")
	})

	// inbound: every conforming variant of every small DAG
	add("inbound-variants", r.Pick(1, 1), func(c *enum.Ctx) {
		ref, desc := dag.Build(c, dag.Opts{MaxCells: r.Pick(3, 3), Exotic: true, Seed: seed})
		if ref == nil {
			return
		}
		nroots := 1 + c.ChooseFree(3)
		roots := []*cell.Cell{ref}
		switch nroots {
		case 2: // second root: a cell inside the first DAG (or the root itself for a leaf)
			if len(ref.Refs) > 0 {
				roots = append(roots, ref.Refs[len(ref.Refs)-1])
			} else {
				roots = append(roots, ref)
			}
		case 3: // an unrelated second root listed first
			other := cell.MustNew([]byte{0xC0}, 3, nil, false)
			roots = []*cell.Cell{other, ref, other}
		}
		o := variantOpts(c, len(roots))
		if o.Magic != rboc.MagicGeneric && len(roots) != 1 {
			c.Skip()
			return
		}
		h := ref.ReprHash()
		c.Case([]byte(fmt.Sprintf("%x/%d/%+v", h, nroots, o)), true)
		c.Sample(map[string]any{"dag": ref.Describe(), "roots": nroots, "variant": fmt.Sprintf("%+v", o)})
		c.Label("dag=%s roots=%d variant=%+v", desc, nroots, o)
		inbound(c, roots, o, "variant")
	})

	// every level mask 1..7 (dense and sparse) on a pruned branch, on ordinary ancestors and below a Merkle proof,
	// in every header / per-cell variant incl. stored hashes (their number depends on the mask, not on the level)
	add("inbound-level-masks", 0, func(c *enum.Ctx) {
		kind := c.ChooseFree(7)
		pr, err := dag.PrunedKind(kind, seed, 0)
		if err != nil {
			c.Skip()
			return
		}
		leaf := cell.MustNew([]byte{0xA5}, 8, nil, false)
		var root *cell.Cell
		shape := c.ChooseFree(4)
		switch shape {
		case 0:
			root = pr
		case 1:
			root, err = cell.New([]byte{0x11}, 8, []*cell.Cell{pr}, false)
		case 2:
			root, err = cell.New([]byte{0x22, 0x80}, 9, []*cell.Cell{leaf, pr}, false)
		case 3:
			var mid *cell.Cell
			mid, err = cell.New([]byte{0x33}, 8, []*cell.Cell{pr, leaf}, false)
			if err == nil {
				root, err = cell.NewMerkleProof(mid)
			}
		}
		if err != nil || root == nil {
			c.Skip()
			return
		}
		o := variantOpts(c, 1)
		h := root.ReprHash()
		c.Case([]byte(fmt.Sprintf("masks/%d/%d/%x/%+v", kind, shape, h, o)), true)
		c.Sample(map[string]any{"dag": root.Describe(), "pruned_mask": pr.Mask, "variant": fmt.Sprintf("%+v", o)})
		c.Label("pruned kind %d (mask %03b) shape %d variant=%+v", kind, pr.Mask, shape, o)
		inbound(c, []*cell.Cell{root}, o, "masks")
	})

	// one bag that holds a subtree and a partially pruned copy of it (what a Merkle proof next to its source looks like):
	// the copy has the same level-0 hash as the original but is a different cell, and both must survive the round trip
	add("subtree-next-to-its-pruned-copy", 0, func(c *enum.Ctx) {
		l1 := cell.MustNew([]byte{0xA1}, 8, nil, false)
		l2 := cell.MustNew(bits.Pattern(seed, 77).Bytes(), 77, nil, false)
		inner := cell.MustNew([]byte{0x5C}, 8, []*cell.Cell{l1, l2}, false)
		a := cell.MustNew([]byte{0x11, 0x80}, 9, []*cell.Cell{inner, l1}, false)
		// copies of a with one subtree replaced by a pruned branch
		which := c.ChooseFree(3)
		target := []*cell.Cell{inner, l2, l1}[which]
		pr, err := cell.NewPruned(target, 1)
		if err != nil {
			c.Skip()
			return
		}
		var inner2, a2 *cell.Cell
		switch which {
		case 0:
			a2, err = cell.New(a.Data, a.BitLen, []*cell.Cell{pr, l1}, false)
		case 1:
			inner2, err = cell.New(inner.Data, inner.BitLen, []*cell.Cell{l1, pr}, false)
			if err == nil {
				a2, err = cell.New(a.Data, a.BitLen, []*cell.Cell{inner2, l1}, false)
			}
		case 2:
			a2, err = cell.New(a.Data, a.BitLen, []*cell.Cell{inner, pr}, false)
		}
		if err != nil {
			c.Skip()
			return
		}
		proof, err := cell.NewMerkleProof(a2)
		if err != nil {
			c.Skip()
			return
		}
		var refs []*cell.Cell
		if c.ChooseFree(2) == 0 {
			refs = []*cell.Cell{proof, a}
		} else {
			refs = []*cell.Cell{a, proof}
		}
		root, err := cell.New([]byte{0x77}, 8, refs, false)
		if err != nil {
			c.Skip()
			return
		}
		oi := c.ChooseFree(8)
		h := root.ReprHash()
		c.Case([]byte(fmt.Sprintf("pruned-copy/%d/%x/%d", which, h[:4], oi)), true)
		c.Label("pruned copy variant %d, options %03b, %d distinct cells", which, oi, root.DistinctHashes())
		dagRoundTrip(c, root, oi, "pruned-copy")
	})

	// real data
	add("real-data", 0, func(c *enum.Ctx) {
		its := realdata.BOCs()
		if len(its) == 0 {
			c.Fail("no-real-data", "no BOC found under %s", realdata.Repo)
			return
		}
		it := its[c.ChooseFree(len(its))]
		oi := c.ChooseFree(2) * 7
		refRoots, rerr := rboc.Parse(it.Data)
		if rerr != nil {
			c.Skip() // not a conforming BOC by the reference parser (counted as skipped)
			return
		}
		c.Case([]byte(fmt.Sprintf("real/%s/%d", it.Origin, oi)), true)
		c.Sample(map[string]any{"origin": it.Origin, "bytes": len(it.Data)})
		c.Label("real BOC %s (%d bytes)", it.Origin, len(it.Data))
		c.Try("panic:real", func() {
			got, err := tb.DeserializeBoc(it.Data)
			if err != nil || len(got) != len(refRoots) {
				c.Fail("real-rejected", "real BOC %s: %v (%d roots, reference says %d)", it.Origin, err, len(got), len(refRoots))
				return
			}
			for i := range got {
				h, err := got[i].Hash()
				rh := refRoots[i].ReprHash()
				if err != nil || !bytes.Equal(h, rh[:]) {
					c.Fail("real-hash", "real BOC %s root %d: hash %x,%v want %x", it.Origin, i, h, err, rh)
					return
				}
				out := serialize(c, got[i], combo(oi), "real")
				if out != nil {
					checkOwnOutput(c, refRoots[i], out, combo(oi), "real")
				}
			}
		})
	})
	return hs
}
