// Package c02: cell hash, depth and level follow the TON representation-hash definition.
package c02

import (
	"bytes"
	"encoding/hex"
	"errors"
	"fmt"

	tb "github.com/tonkeeper/tongo/boc"

	"verif/conv"
	"verif/fw"
	"verif/gen/dag"
	"verif/mc/enum"
	"verif/realdata"
	"verif/ref/bits"
	rboc "verif/ref/boc"
	"verif/ref/cell"
)

func init() {
	fw.Register(&fw.Property{
		ID: "C02",
		Rule: "cell DAGs over all five cell types and every level mask 1..7 (pruned branches of kinds covering masks 1,2,4,3,5,6,7; Merkle proof/update towers up to 3 layers) are built by the reference model, " +
			"handed to tongo (parsed from reference bytes, or built in memory through every constructor path for ordinary cells) and Hash/Hash256/HashString/Hasher.Hash/Hasher.HashString/Level of EVERY cell of the DAG " +
			"are compared with the reference values, fresh, after partial reads and twice through one Hasher; distinct = distinct (root hash, query mode); non-trivial = more than one cell, an exotic cell or a non byte-aligned length",
		Assume: []string{
			"reference hash/depth/level rules in /verif/ref/cell (validated against 75k cells of real blocks whose hashes are committed to by their parents)",
			"only well-formed exotic cells are generated (level masks consistent with children)",
			"depths are observable only through hashes of parents and through Merkle cells; the reference model checks the stored depths of Merkle cells",
		},
		Harnesses: harnesses,
	})
}

// pairs walks a tongo graph and a reference DAG in parallel (children in order) and returns the unique pairs.
func pairs(t *tb.Cell, r *cell.Cell) ([][2]any, error) {
	seen := map[*tb.Cell]*cell.Cell{}
	var out [][2]any
	var rec func(t *tb.Cell, r *cell.Cell) error
	rec = func(t *tb.Cell, r *cell.Cell) error {
		if old, ok := seen[t]; ok {
			if old.ReprHash() != r.ReprHash() {
				return errors.New("one tongo cell corresponds to two different reference cells")
			}
			return nil
		}
		seen[t] = r
		tr := t.Refs()
		if len(tr) != len(r.Refs) {
			return fmt.Errorf("ref count %d vs %d", len(tr), len(r.Refs))
		}
		for i := range tr {
			if err := rec(tr[i], r.Refs[i]); err != nil {
				return err
			}
		}
		out = append(out, [2]any{t, r})
		return nil
	}
	return out, rec(t, r)
}

func checkAll(c *enum.Ctx, t *tb.Cell, r *cell.Cell, mode int, tag string) {
	ps, err := pairs(t, r)
	if err != nil {
		c.Fail("structure:"+tag, "tongo graph does not match the reference DAG: %v", err)
		return
	}
	hasher := tb.NewHasher()
	for _, p := range ps {
		tc, rc := p[0].(*tb.Cell), p[1].(*cell.Cell)
		want := rc.ReprHash()
		kind := fmt.Sprintf("type%d", rc.Type)
		if rc.Type == cell.PrunedBranch {
			kind = fmt.Sprintf("pruned(mask=%d)", rc.Mask)
		} else if rc.Mask != 0 {
			kind = fmt.Sprintf("type%d(mask=%d)", rc.Type, rc.Mask)
		}
		switch mode {
		case 1: // partially consumed
			_, _ = tc.ReadUint(min(5, tc.BitsAvailableForRead()))
			_, _ = tc.NextRef()
		case 2: // fully consumed
			_ = tc.ReadRemainingBits()
			for {
				if _, err := tc.NextRef(); err != nil {
					break
				}
			}
		}
		if lv := tc.Level(); lv != rc.Level() {
			c.Fail("Level:"+tag+":"+kind, "Level()=%d want %d for %s", lv, rc.Level(), rc.Describe())
		}
		h, err := tc.Hash()
		if err != nil || !bytes.Equal(h, want[:]) {
			c.Fail("Hash:"+tag+":"+kind, "Hash()=%x,%v want %x for %s (query mode %d)", h, err, want, rc.Describe(), mode)
			continue
		}
		h32, err := tc.Hash256()
		if err != nil || h32 != want {
			c.Fail("Hash256:"+tag, "Hash256 differs from Hash")
		}
		hs, err := tc.HashString()
		if err != nil || hs != hex.EncodeToString(want[:]) {
			c.Fail("HashString:"+tag, "HashString differs from Hash")
		}
		for rep := 0; rep < 2; rep++ {
			hh, err := hasher.Hash(tc)
			if err != nil || !bytes.Equal(hh, want[:]) {
				c.Fail("Hasher.Hash:"+tag+":"+kind, "Hasher.Hash (call %d)=%x,%v want %x", rep, hh, err, want)
			}
			hss, err := hasher.HashString(tc)
			if err != nil || hss != hex.EncodeToString(want[:]) {
				c.Fail("Hasher.HashString:"+tag+":"+kind, "Hasher.HashString (call %d)=%s,%v", rep, hss, err)
			}
		}
		// the cells a Merkle prover keeps are the cells it was given, whatever has been read from them before: a proof
		// with nothing pruned is a Merkle-proof cell over a tree with the same hash
		if rc.Level() == 0 && !rc.Special {
			if prover, err := tb.NewMerkleProver(tc); err == nil {
				if proof, err := prover.CreateProof(prover.Cursor()); err == nil {
					roots, perr := rboc.Parse(proof)
					if perr != nil || len(roots) != 1 || len(roots[0].Refs) != 1 || roots[0].Refs[0].ReprHash() != want {
						c.Fail("prover-keeps-other-cells:"+tag, "a proof of %s with nothing pruned (query mode %d) does not contain a tree with its hash (%v)", rc.Describe(), mode, perr)
					}
				}
			}
		}
		tc.ResetCounters()
	}
}

func parsed(c *enum.Ctx, r *cell.Cell, o rboc.Options, tag string) *tb.Cell {
	b, err := rboc.Serialize([]*cell.Cell{r}, o)
	if err != nil {
		c.Skip()
		return nil
	}
	roots, err := tb.DeserializeBoc(b)
	if err != nil || len(roots) != 1 {
		c.Fail("parse:"+tag, "tongo rejects the reference serialisation: %v", err)
		return nil
	}
	return roots[0]
}

func harnesses(r *fw.Run) []fw.HarnessSpec {
	seed := int(r.Seed)
	var hs []fw.HarnessSpec
	add := func(name string, bound int, f func(c *enum.Ctx)) {
		hs = append(hs, fw.HarnessSpec{Harness: enum.Harness{Name: name, Bound: bound, Run: f}})
	}

	add("dag-hashes", r.Pick(2, 2), func(c *enum.Ctx) {
		ref, desc := dag.Build(c, dag.Opts{MaxCells: r.Pick(3, 4), Exotic: true, Seed: seed})
		if ref == nil {
			return
		}
		origin := c.ChooseFree(2) // 0: parsed from reference bytes, 1: built in memory (ordinary DAGs only)
		mode := c.ChooseFree(3)
		if origin == 1 && conv.HasSpecial(ref) {
			c.Skip()
			return
		}
		h := ref.ReprHash()
		n := 0
		ref.Walk(func(*cell.Cell) { n++ })
		c.Case(append(h[:], byte(origin), byte(mode)), n > 1 || ref.Special || ref.BitLen%8 != 0)
		c.Sample(map[string]any{"dag": ref.Describe(), "origin": []string{"parsed", "in-memory"}[origin], "query_mode": mode})
		c.Label("dag=%s origin=%d mode=%d", desc, origin, mode)
		c.Try("panic:dag-hashes", func() {
			var t *tb.Cell
			if origin == 0 {
				t = parsed(c, ref, rboc.Options{StoreHashes: mode == 1}, "dag")
			} else {
				t, _ = conv.ToTongo(ref, true)
			}
			if t != nil {
				checkAll(c, t, ref, mode, "dag")
			}
		})
	})

	// towers: pruned leaf (7 kinds = masks 1..7) under up to 3 layers of {ordinary 1 ref, ordinary 2 refs, Merkle proof, Merkle update}
	add("merkle-towers", 0, func(c *enum.Ctx) {
		kind := c.ChooseFree(8) // 7 pruned kinds + plain ordinary leaf
		var cur *cell.Cell
		var err error
		if kind == 7 {
			cur = cell.MustNew([]byte{0x77}, 7, nil, false)
		} else {
			cur, err = dag.PrunedKind(kind, seed, 0)
			if err != nil {
				c.Skip()
				return
			}
		}
		other := cell.MustNew([]byte{0x42, 0x80}, 9, nil, false)
		pr1, _ := dag.PrunedKind(0, seed+5, 1)
		layers := c.ChooseFree(4)
		desc := fmt.Sprintf("leaf%d", kind)
		for l := 0; l < layers; l++ {
			k := c.ChooseFree(6)
			switch k {
			case 0:
				cur, err = cell.New([]byte{byte(l)}, 8, []*cell.Cell{cur}, false)
			case 1:
				cur, err = cell.New([]byte{byte(l), 0xC0}, 10, []*cell.Cell{other, cur}, false)
			case 2:
				cur, err = cell.NewMerkleProof(cur)
			case 3:
				cur, err = cell.NewMerkleUpdate(cur, other)
			case 4:
				cur, err = cell.NewMerkleUpdate(pr1, cur)
			case 5:
				cur, err = cell.New([]byte{byte(l)}, 3, []*cell.Cell{cur, pr1, cur}, false)
			}
			if err != nil {
				c.Skip()
				return
			}
			desc += fmt.Sprintf(">L%d", k)
		}
		mode := c.ChooseFree(3)
		h := cur.ReprHash()
		c.Case(append(h[:], byte(mode)), true)
		c.Sample(map[string]any{"tower": desc, "root_mask": cur.Mask, "dag": cur.Describe()})
		c.Label("tower %s mode=%d", desc, mode)
		c.Try("panic:towers", func() {
			if t := parsed(c, cur, rboc.Options{Order: mode}, "tower"); t != nil {
				checkAll(c, t, cur, mode, "tower")
			}
		})
	})

	// constructor paths for in-memory cells, every length 0..1023
	add("constructors-all-lengths", 0, func(c *enum.Ctx) {
		n := c.ChooseFree(1024)
		path := c.ChooseFree(6)
		p := c.ChooseFree(2)
		src := bits.Pattern(seed*2+p, 1023)
		if p == 1 {
			for i := range src {
				src[i] = true // all ones: anything left behind the end of a slice is visible
			}
		}
		c.Case([]byte(fmt.Sprintf("ctor/%d/%d/%d", n, path, p)), n%8 != 0)
		pathName := []string{"WriteBit", "ReadBits@0+NewCellWithBits", "ReadBits@3+NewCellWithBits", "ReadRemainingBits+NewCellWithBits", "CopyRemaining@0", "CopyRemaining@5"}[path]
		c.Sample(map[string]any{"bits": n, "path": pathName, "pattern": p})
		c.Label("%d bits via %s pattern %d", n, pathName, p)
		c.Try("panic:constructors", func() {
			srcCell := tb.NewCell()
			for _, b := range src {
				_ = srcCell.WriteBit(b)
			}
			leaf := tb.NewCell()
			_ = leaf.WriteUint(0xBEEF, 16)
			refLeaf := cell.MustNew([]byte{0xBE, 0xEF}, 16, nil, false)
			var t *tb.Cell
			var want bits.Bits
			withRef := false
			switch path {
			case 0:
				t = tb.NewCell()
				for _, b := range src[:n] {
					_ = t.WriteBit(b)
				}
				want = src[:n]
			case 1, 2:
				off := []int{0, 3}[path-1]
				if off+n > 1023 {
					c.Skip()
					return
				}
				_ = srcCell.Skip(off)
				bs, err := srcCell.ReadBits(n)
				if err != nil {
					c.Fail("setup", "ReadBits: %v", err)
					return
				}
				t = tb.NewCellWithBits(bs)
				want = src[off : off+n]
			case 3:
				_ = srcCell.Skip(1023 - n)
				t = tb.NewCellWithBits(srcCell.ReadRemainingBits())
				want = src[1023-n:]
			case 4, 5:
				off := []int{0, 5}[path-4]
				if off+n > 1023 {
					c.Skip()
					return
				}
				// a source cell holding exactly off+n bits and one ref
				sc := tb.NewCell()
				for _, b := range src[:off+n] {
					_ = sc.WriteBit(b)
				}
				_ = sc.AddRef(leaf)
				_ = sc.Skip(off)
				t = sc.CopyRemaining()
				want = src[off : off+n]
				withRef = true
			}
			var refs []*cell.Cell
			if withRef {
				refs = []*cell.Cell{refLeaf}
			}
			rc := cell.MustNew(want.Bytes(), n, refs, false)
			checkAll(c, t, rc, 0, "ctor:"+pathName)
			// as a child of another cell, and through serialisation
			parent := tb.NewCell()
			_ = parent.WriteUint(1, 1)
			_ = parent.AddRef(t)
			rp := cell.MustNew([]byte{0x80}, 1, []*cell.Cell{rc}, false)
			checkAll(c, parent, rp, 0, "ctor-child:"+pathName)
		})
	})

	// depth limit
	// hashes follow the current contents: hash, extend the cell (or a descendant) in memory, hash again; with and
	// without an explicit Hasher, through every hash accessor, up to three rounds
	add("hash-after-mutation", 0, func(c *enum.Ctx) {
		api := c.ChooseFree(4)   // 0 Hash, 1 HashString, 2 Hash256, 3 Hasher.Hash (one hasher for all rounds)
		depth := c.ChooseFree(3) // the mutated cell is the root / a child / a grandchild of the hashed cell
		var muts []int
		for i := 0; i < 3; i++ {
			k := c.ChooseFree(4) // 0 stop, 1 append 5 bits, 2 append a byte, 3 add a reference
			if k == 0 {
				break
			}
			muts = append(muts, k)
		}
		c.Case([]byte(fmt.Sprintf("mut/%d/%d/%v", api, depth, muts)), len(muts) > 0)
		c.Label("hash api %d, mutated cell at depth %d, mutations %v", api, depth, muts)
		c.Try("panic:hash-after-mutation", func() {
			// model: bits and refs of the chain root -> child -> grandchild
			type node struct {
				b    bits.Bits
				refs int // number of extra leaf references
			}
			chain := []*node{{b: bits.Pattern(seed, 13)}, {b: bits.Pattern(seed+1, 8)}, {b: bits.Pattern(seed+2, 3)}}
			chain = chain[:depth+1]
			tcells := make([]*tb.Cell, len(chain))
			for i := len(chain) - 1; i >= 0; i-- {
				tcells[i] = tb.NewCell()
				for _, x := range chain[i].b {
					_ = tcells[i].WriteBit(x)
				}
				if i+1 < len(chain) {
					_ = tcells[i].AddRef(tcells[i+1])
				}
			}
			refOf := func() *cell.Cell {
				var below *cell.Cell
				for i := len(chain) - 1; i >= 0; i-- {
					var refs []*cell.Cell
					if below != nil {
						refs = append(refs, below)
					}
					for k := 0; k < chain[i].refs; k++ {
						refs = append(refs, cell.MustNew([]byte{byte(0xE0 + k)}, 8, nil, false))
					}
					below = cell.MustNew(chain[i].b.Bytes(), len(chain[i].b), refs, false)
				}
				return below
			}
			hasher := tb.NewHasher()
			hashNow := func() ([32]byte, error) {
				var out [32]byte
				switch api {
				case 0:
					h, err := tcells[0].Hash()
					copy(out[:], h)
					return out, err
				case 1:
					hs, err := tcells[0].HashString()
					if err != nil {
						return out, err
					}
					raw, err := hex.DecodeString(hs)
					copy(out[:], raw)
					return out, err
				case 2:
					h, err := tcells[0].Hash256()
					return [32]byte(h), err
				default:
					h, err := hasher.Hash(tcells[0])
					copy(out[:], h)
					return out, err
				}
			}
			check := func(round int) bool {
				got, err := hashNow()
				want := refOf().ReprHash()
				if err != nil || got != want {
					c.Fail("hash-after-mutation", "round %d (after mutations %v of the cell at depth %d): hash %x,%v want %x", round, muts[:round], depth, got, err, want)
					return false
				}
				return true
			}
			if !check(0) {
				return
			}
			target := tcells[depth]
			for i, k := range muts {
				switch k {
				case 1:
					add := bits.Pattern(seed+10+i, 5)
					for _, x := range add {
						_ = target.WriteBit(x)
					}
					chain[depth].b = append(chain[depth].b, add...)
				case 2:
					_ = target.WriteUint(uint64(0xC3+i), 8)
					chain[depth].b = append(chain[depth].b, bits.FromBytes([]byte{byte(0xC3 + i)}, 8)...)
				case 3:
					lf := tb.NewCell()
					_ = lf.WriteUint(uint64(0xE0+chain[depth].refs), 8)
					_ = target.AddRef(lf)
					chain[depth].refs++
				}
				if api == 3 {
					// an explicit Hasher caches by design (documented: for immutable trees); a fresh one per round
					hasher = tb.NewHasher()
				}
				if !check(i + 1) {
					return
				}
			}
		})
	})

	add("depth-limit", 0, func(c *enum.Ctx) {
		d := []int{1, 2, 1023, 1024, 1025, 1026}[c.ChooseFree(6)]
		c.Case([]byte(fmt.Sprintf("depth/%d", d)), true)
		c.Sample(map[string]any{"chain_cells": d})
		c.Try("panic:depth", func() {
			t := tb.NewCell()
			cur := t
			for i := 1; i < d; i++ {
				n, _ := cur.NewRef()
				cur = n
			}
			var rc *cell.Cell
			var rerr error
			for i := 0; i < d; i++ {
				var refs []*cell.Cell
				if rc != nil {
					refs = []*cell.Cell{rc}
				}
				rc, rerr = cell.New(nil, 0, refs, false)
				if rerr != nil {
					break
				}
			}
			h, err := t.Hash()
			if rerr != nil {
				// a cell that cannot be hashed stays unhashable: asked again (same Hasher, every accessor) the answer is
				// an error again, never an empty or stale hash
				hs := tb.NewHasher()
				for round := 0; round < 3; round++ {
					if _, e := hs.Hash(t); e == nil {
						c.Fail("unhashable-cell-hashed", "Hasher.Hash of a chain of %d cells succeeds at attempt %d", d, round+1)
					}
					if str, e := hs.HashString(t); e == nil {
						c.Fail("unhashable-cell-hashed", "Hasher.HashString of a chain of %d cells returns %q without error at attempt %d", d, str, round+1)
					}
					if str, e := t.HashString(); e == nil {
						c.Fail("unhashable-cell-hashed", "Cell.HashString of a chain of %d cells returns %q without error at attempt %d", d, str, round+1)
					}
				}
				// a failed hash leaves nothing behind: every valid cell hashed next - through every entry point - gets
				// its own hash (failure and success alternate, so state kept per process would meet the next cell)
				small, _ := cell.New([]byte{0xC3, 0x50}, 13, nil, false)
				two, _ := cell.New([]byte{0x99}, 8, []*cell.Cell{small}, false)
				for round := 0; round < 8; round++ {
					_, _ = t.Hash()
					for vi, v := range []*cell.Cell{cell.MustNew(nil, 0, nil, false), small, two} {
						tc, e := conv.ToTongo(v, true)
						if e != nil {
							continue
						}
						want := v.ReprHash()
						var got []byte
						switch (round + vi) % 3 {
						case 0:
							got, e = tc.Hash()
						case 1:
							got, e = tb.NewHasher().Hash(tc)
						default:
							var s string
							s, e = tc.HashString()
							got, _ = hex.DecodeString(s)
						}
						if e != nil || !bytes.Equal(got, want[:]) {
							c.Fail("hash-after-failed-hash", "after a hash attempt on a chain of %d cells failed, a valid cell hashes to %x,%v, want %x (round %d)", d, got, e, want, round)
							return
						}
					}
				}
				if err == nil {
					c.Fail("depth-limit", "chain of %d cells hashed without error (depth limit 1024)", d)
				} else if !errors.Is(err, tb.ErrDepthIsTooBig) {
					c.Fail("depth-limit-error", "chain of %d cells: error %v is not ErrDepthIsTooBig", d, err)
				}
				return
			}
			want := rc.ReprHash()
			if err != nil || !bytes.Equal(h, want[:]) {
				c.Fail("depth-hash", "chain of %d cells: Hash=%x,%v want %x", d, h, err, want)
			}
		})
	})

	// the depth limit also applies when the depth comes out of a pruned branch: stored depths at the boundaries of
	// the limit and of the 16-bit field
	add("depth-limit-with-pruned-child", 0, func(c *enum.Ctx) {
		sd := []int{0, 1, 1022, 1023, 1024, 1025, 0x7FFF, 0x8000, 0xFFFE, 0xFFFF}[c.ChooseFree(10)]
		wrap := c.ChooseFree(2) // 0: parent over the pruned branch, 1: a Merkle proof over that parent
		c.Case([]byte(fmt.Sprintf("pruned-depth/%d/%d", sd, wrap)), true)
		c.Label("pruned branch storing depth %d, wrap %d", sd, wrap)
		c.Try("panic:pruned-depth", func() {
			data := []byte{1, 1}
			data = append(data, bits.Pattern(seed, 256).Bytes()...)
			data = append(data, byte(sd>>8), byte(sd))
			pr, err := cell.New(data, len(data)*8, nil, true)
			if err != nil {
				c.Skip()
				return
			}
			parent, perr := cell.New([]byte{0x42}, 8, []*cell.Cell{pr}, false)
			top := parent
			if perr == nil && wrap == 1 {
				top, perr = cell.NewMerkleProof(parent)
			}
			// tongo's view: the same cells, parsed from bytes written by the reference serialiser where possible,
			// otherwise assembled through the in-memory API
			var t *tb.Cell
			if perr == nil {
				raw, err := rboc.Serialize([]*cell.Cell{top}, rboc.Options{})
				if err != nil {
					c.Skip()
					return
				}
				roots, err := tb.DeserializeBoc(raw)
				if err != nil {
					c.Fail("inbound-rejected", "conforming bag with a pruned branch of stored depth %d rejected: %v", sd, err)
					return
				}
				t = roots[0]
				h, err := t.Hash()
				want := top.ReprHash()
				if err != nil || !bytes.Equal(h, want[:]) {
					c.Fail("depth-hash-pruned", "stored depth %d: Hash=%x,%v want %x", sd, h, err, want)
				}
				return
			}
			// the reference refuses the parent (depth above the limit): tongo must refuse to hash it as well
			prBoc, err := rboc.Serialize([]*cell.Cell{pr}, rboc.Options{})
			if err != nil {
				c.Skip()
				return
			}
			roots, err := tb.DeserializeBoc(prBoc)
			if err != nil {
				c.Skip()
				return
			}
			t = tb.NewCell()
			_ = t.WriteUint(0x42, 8)
			_ = t.AddRef(roots[0])
			if h, err := t.Hash(); err == nil {
				c.Fail("depth-limit-pruned", "a cell above a pruned branch of stored depth %d hashed without error (%x); the limit is 1024", sd, h)
			}
		})
	})

	// real data: every cell of every real BOC
	add("real-cells", 0, func(c *enum.Ctx) {
		its := realdata.BOCs()
		it := its[c.ChooseFree(len(its))]
		refRoots, rerr := rboc.Parse(it.Data)
		if rerr != nil {
			c.Skip()
			return
		}
		c.Case([]byte(it.Origin), true)
		ncells := 0
		c.Try("panic:real", func() {
			roots, err := tb.DeserializeBoc(it.Data)
			if err != nil || len(roots) != len(refRoots) {
				c.Fail("real-parse", "%s: %v", it.Origin, err)
				return
			}
			hasher := tb.NewHasher()
			for i := range roots {
				ps, err := pairs(roots[i], refRoots[i])
				if err != nil {
					c.Fail("real-structure", "%s: %v", it.Origin, err)
					return
				}
				for k, p := range ps {
					tc, rc := p[0].(*tb.Cell), p[1].(*cell.Cell)
					ncells++
					want := rc.ReprHash()
					hh, err := hasher.Hash(tc)
					if err != nil || !bytes.Equal(hh, want[:]) {
						c.Fail(fmt.Sprintf("real-hasher:type%d", rc.Type), "%s: cell %d (%s): Hasher.Hash=%x,%v want %x", it.Origin, k, rc.Describe(), hh, err, want)
						return
					}
					if tc.Level() != rc.Level() {
						c.Fail("real-level", "%s: cell %d: Level=%d want %d", it.Origin, k, tc.Level(), rc.Level())
						return
					}
					if k%50 == 0 || k == len(ps)-1 {
						h, err := tc.Hash()
						if err != nil || !bytes.Equal(h, want[:]) {
							c.Fail(fmt.Sprintf("real-hash:type%d", rc.Type), "%s: cell %d: Hash=%x,%v want %x", it.Origin, k, h, err, want)
							return
						}
					}
				}
			}
		})
		c.Sample(map[string]any{"origin": it.Origin, "cells": ncells})
	})
	return hs
}
