// Package c03: TL-B values survive encode/decode for every type the library ships.
package c03

import (
	"fmt"
	"github.com/tonkeeper/tongo/wallet"
	"math/big"
	"path/filepath"
	"reflect"
	"strings"
	"verif/conv"
	"verif/harness/c16"
	"verif/realdata"
	rboc "verif/ref/boc"
	"verif/ref/cell"

	tb "github.com/tonkeeper/tongo/boc"
	"github.com/tonkeeper/tongo/tlb"

	"verif/fw"
	"verif/gen"
	"verif/gen/registry"
	"verif/harness/tlbx"
	"verif/mc/enum"
)

func init() {
	fw.Register(&fw.Property{
		ID: "C03",
		Rule: "the list of exported types of packages tlb, wallet and abi is generated from the current source tree; (1) every generated integer/bits/VarUInteger type x its boundary alphabet (all values for widths <= 10); " +
			"(2) every exported type x every value the reflective domain-aware enumerator builds with at most D deviating leaves (every constructor of every sum type, present/absent optionals, left/right Either, " +
			"boundary integers, address kinds, text lengths around cell borders, 0..2 dictionary entries, VM stack values); values of hand-written codecs whose domain the enumerator cannot know are first normalised through one " +
			"encode/decode pass (a decoder-produced value is in the domain by definition); (3) sequences of two encodes of the same type in one execution (shared encoder state); distinct = (type, value choices); non-trivial = at least one deviating leaf",
		Assume: []string{
			"an encoder returning an error is an accepted outcome (statement); types whose encoder is 'not implemented' are therefore only exercised when a decoder-produced value exists",
			"VmStack: decode(encode(s)) is compared with reverse(s) (documented list convention) and the decoded list is reversed before re-encoding",
			"values produced by plain reflection for types with hand-written codecs may be out of domain: for those only the decoder-produced value is judged",
		},
		Harnesses: harnesses,
	})
}

// TypesUnderTest lists the exported TL-B types (shared with C08).
func TypesUnderTest() []registry.Entry { return typesUnderTest() }

func typesUnderTest() []registry.Entry {
	var out []registry.Entry
	for _, p := range []string{"tlb.", "wallet.", "abi."} {
		for _, e := range registry.ByPackage(p) {
			k := e.Type.Kind()
			if k == reflect.Interface || k == reflect.Func || k == reflect.Map || k == reflect.Chan {
				continue
			}
			// codec infrastructure and non TL-B helper types
			switch e.Name {
			case "tlb.Encoder", "tlb.Decoder", "tlb.Tag", "tlb.SumType":
				continue
			}
			// get-method results are decoded from VM stacks, not from cells: not TL-B types
			if strings.HasPrefix(e.Name, "abi.") && strings.HasSuffix(e.Name, "Result") {
				continue
			}
			if !gen.IsTLB(e.Type) {
				continue
			}
			// outside package tlb a plain struct is a TL-B type only if it says so (codec methods or tlb tags)
			if !strings.HasPrefix(e.Name, "tlb.") && !declaresTLB(e.Type) {
				continue
			}
			out = append(out, e)
		}
	}
	return out
}

// padded puts a value behind 1..7 leading bits and in front of a trailing field.
type padded[T any] struct {
	Pad  T
	A    tlb.MsgAddress
	Tail tlb.Uint5
}

func harnesses(r *fw.Run) []fw.HarnessSpec {
	seed := int(r.Seed)
	var hs []fw.HarnessSpec
	add := func(name string, bound int, f func(c *enum.Ctx)) {
		hs = append(hs, fw.HarnessSpec{Harness: enum.Harness{Name: name, Bound: bound, Run: f}})
	}
	ints := tlbx.IntegerTypes(seed)
	add("generated-integer-types", 0, func(c *enum.Ctx) {
		if len(ints) == 0 {
			c.Fail("no-integer-types", "registry lists no generated integer types")
			return
		}
		k := ints[c.ChooseFree(len(ints))]
		x := k.Values[c.ChooseFree(len(k.Values))]
		c.Case([]byte(k.Entry.Name+"/"+x.String()), x.Sign() != 0)
		c.Sample(map[string]any{"type": k.Entry.Name, "value": x.String()})
		c.Label("%s value %s", k.Entry.Name, x)
		v := reflect.New(k.Entry.Type).Elem()
		tlbx.SetInt(v, k, x)
		c.Outcome(tlbx.RoundTrip(c, k.Entry.Name, v, true))
		// a second value of the same type in the same execution (encoder-side shared state must not leak)
		if !c.Failed() && len(k.Values) > 1 {
			y := k.Values[(len(k.Values)-1)/2]
			w := reflect.New(k.Entry.Type).Elem()
			tlbx.SetInt(w, k, y)
			tlbx.RoundTrip(c, k.Entry.Name, w, true)
			tlbx.RoundTrip(c, k.Entry.Name, v, true)
		}
	})

	types := typesUnderTest()
	hs = append(hs, fw.HarnessSpec{Harness: enum.Harness{Name: "all-types-deviations", Bound: r.Pick(1, 2), MaxViolations: 400, Run: func(c *enum.Ctx) {
		if len(types) == 0 {
			c.Fail("no-types", "registry is empty")
			return
		}
		e := types[c.ChooseFree(len(types))]
		g := &gen.G{C: c, Seed: seed, Enums: registry.Enums}
		var v reflect.Value
		if c.Try("panic:generator:"+e.Name, func() { v = g.Make(e.Type, "") }) {
			return
		}
		key := fmt.Sprintf("%s/%v", e.Name, summary(v))
		c.Case([]byte(key), true)
		c.Sample(map[string]any{"type": e.Name, "lenient": g.Lenient})
		c.Label("type %s lenient=%v", e.Name, g.Lenient)
		c.Outcome(tlbx.RoundTrip(c, e.Name, v, !g.Lenient))
	}}})

	// messages of every layout (init absent / inline / in a reference, body inline / in a reference, bodies with
	// references, exotic and levelled bodies) produced by the reference encoder: decode, encode again, decode again
	mpool := c16.Pool(seed)
	add("messages-decode-reencode", r.Pick(1, 2), func(c *enum.Ctx) {
		m, ok := c16.BuildMessage(c, seed, mpool)
		if !ok {
			c.Skip()
			return
		}
		w, err := m.Cell()
		if err != nil {
			c.Skip()
			return
		}
		h := w.ReprHash()
		c.Case(h[:], true)
		c.Label("message %+v", m)
		c.Try("panic:message-reencode", func() {
			raw, err := rboc.Serialize([]*cell.Cell{w}, rboc.Options{})
			if err != nil {
				c.Skip()
				return
			}
			roots, err := tb.DeserializeBoc(raw)
			if err != nil {
				c.Fail("setup", "%v", err)
				return
			}
			var got tlb.Message
			if err := tlb.Unmarshal(roots[0], &got); err != nil {
				c.Fail("decode-error:tlb.Message", "a conforming message does not decode: %v", err)
				return
			}
			enc := tb.NewCell()
			if err := tlb.Marshal(enc, got); err != nil {
				c.Fail("reencode-error:tlb.Message", "the decoded message does not encode: %v", err)
				return
			}
			if m.Body.Special || m.Body.Mask != 0 || (m.Init != nil && (w.Mask != 0)) {
				// exotic / levelled cells rebuilt in memory lose type or level (C16 known finding): only the decode is judged
				c.Outcome("decoded-only")
				return
			}
			rc, err := conv.FromTongo(enc)
			if err != nil {
				c.Fail("reencode-error:tlb.Message", "re-encoded cell is malformed: %v", err)
				return
			}
			if rc.ReprHash() != h {
				c.Fail("reencode-hash:tlb.Message", "encode(decode(cell)) differs from the cell: got %s want %s", rc.Describe(), w.Describe())
				return
			}
			c.Outcome("identical")
		})
	})

	// values decoded from real blocks are in the domain of their types by construction; a single in-domain change of
	// one field keeps them there, so the strict round trip applies to the large hand-decoded records as well
	var realBlocks []realdata.Item
	for _, it := range realdata.BOCs() {
		if filepath.Ext(it.Origin) == ".bin" && len(it.Data) > 100000 {
			realBlocks = append(realBlocks, it)
		}
	}
	add("real-transactions-one-field-changed", 0, func(c *enum.Ctx) {
		if len(realBlocks) == 0 {
			c.Skip()
			return
		}
		it := realBlocks[c.ChooseFree(len(realBlocks))]
		ti := c.ChooseFree(6)
		change := c.ChooseFree(6)
		c.Case([]byte(fmt.Sprintf("realtx/%s/%d/%d", it.Origin, ti, change)), true)
		c.Label("%s transaction #%d change %d", it.Origin, ti, change)
		c.Try("panic:real-tx-roundtrip", func() {
			roots, err := tb.DeserializeBoc(it.Data)
			if err != nil {
				c.Skip()
				return
			}
			var blk tlb.Block
			if tlb.Unmarshal(roots[0], &blk) != nil {
				c.Skip()
				return
			}
			txs := blk.AllTransactions()
			if ti >= len(txs) {
				c.Skip()
				return
			}
			tx := *txs[ti]
			extra := func(n int) tlb.ExtraCurrencyCollection {
				var e tlb.ExtraCurrencyCollection
				for k := 0; k < n; k++ {
					e.Dict.Put(tlb.Uint32(7+100*k), tlb.VarUInteger32(*big.NewInt(int64(1000 + k))))
				}
				return e
			}
			switch change {
			case 1:
				tx.TotalFees.Other = extra(1)
			case 2:
				tx.TotalFees.Other = extra(2)
			case 3:
				tx.TotalFees.Grams = 1<<64 - 1
			case 4:
				tx.OutMsgCnt = 0x7fff
			case 5:
				tx.Now = 1<<32 - 1
				tx.PrevTransLt = 1<<64 - 1
			}
			// the changed value still carries the hash cached from its source cell: take it through the codec once
			// (that alone must work), then judge the strict round trip of the decoder-produced value
			enc := tb.NewCell()
			if err := tlb.Marshal(enc, tx); err != nil {
				c.Fail("encode-error:tlb.Transaction", "a real transaction with one in-domain field changed does not encode: %v", err)
				return
			}
			var tx2 tlb.Transaction
			if err := tlb.Unmarshal(enc, &tx2); err != nil {
				c.Fail("decode-error:tlb.Transaction", "own encoding of a real transaction with one in-domain field changed (change %d) cannot be decoded: %v", change, err)
				return
			}
			out := tlbx.RoundTrip(c, "tlb.Transaction", reflect.ValueOf(&tx2).Elem(), true)
			c.Outcome(out)
		})
	})

	// hand-written list codecs: every list of 1..3 wallet-v5 extended actions over five actions (the same constructor
	// twice with different operands included)
	add("w5-extended-action-lists", 0, func(c *enum.Ctx) {
		mkAddr := func(k byte) tlb.MsgAddress {
			var a tlb.MsgAddress
			a.SumType = "AddrStd"
			a.AddrStd.WorkchainId = int8(k) - 1
			for i := range a.AddrStd.Address {
				a.AddrStd.Address[i] = k*16 + byte(i)
			}
			return a
		}
		mk := func(k int) wallet.W5ExtendedAction {
			var x wallet.W5ExtendedAction
			switch k {
			case 0, 1:
				x.SumType = "AddExtension"
				x.AddExtension = &struct{ Addr tlb.MsgAddress }{mkAddr(byte(k + 1))}
			case 2:
				x.SumType = "RemoveExtension"
				x.RemoveExtension = &struct{ Addr tlb.MsgAddress }{mkAddr(1)}
			case 3, 4:
				x.SumType = "SetSignatureAllowed"
				x.SetSignatureAllowed = &struct{ Allowed bool }{k == 3}
			}
			return x
		}
		n := 1 + c.ChooseFree(3)
		var list wallet.W5ExtendedActions
		desc := ""
		for i := 0; i < n; i++ {
			k := c.ChooseFree(5)
			list = append(list, mk(k))
			desc += fmt.Sprint(k)
		}
		c.Case([]byte("w5ext/"+desc), true)
		c.Label("extended actions %s", desc)
		c.Outcome(tlbx.RoundTrip(c, "wallet.W5ExtendedActions", reflect.ValueOf(&list).Elem(), true))
	})

	// cell-typed fields behind ^ keep whatever cell is referenced, library cells included, with every decoder
	// (plain, caching, with a library resolver)
	add("library-cells-in-cell-fields", 0, func(c *enum.Ctx) {
		raw := []byte{0xb5, 0xee, 0x9c, 0x72, 0x01, 0x01, 0x01, 0x01, 0x00, 35, 0x00, 0x08, 66, 0x02}
		for i := 0; i < 32; i++ {
			raw = append(raw, byte(seed+i*7+1))
		}
		roots, err := tb.DeserializeBoc(raw)
		if err != nil || len(roots) != 1 {
			c.Fail("setup", "library cell: %v", err)
			return
		}
		lib := roots[0]
		k := c.ChooseFree(3)
		c.Case([]byte(fmt.Sprintf("libcell/%d", k)), true)
		switch k {
		case 0:
			v := tlb.SimpleLib{Public: true, Root: *lib}
			c.Outcome(tlbx.RoundTrip(c, "tlb.SimpleLib", reflect.ValueOf(&v).Elem(), true))
		case 1:
			var st tlb.StateInit
			st.Library.Put(tlb.Bits256{1, 2, 3}, tlb.SimpleLib{Public: false, Root: *lib})
			c.Outcome(tlbx.RoundTrip(c, "tlb.StateInit", reflect.ValueOf(&st).Elem(), true))
		case 2:
			type holder struct {
				A uint8
				C tb.Cell `tlb:"^"`
				D tb.Cell `tlb:"^"`
			}
			ord := tb.NewCell()
			_ = ord.WriteUint(7, 3)
			v := holder{A: 9, C: *lib, D: *ord}
			c.Outcome(tlbx.RoundTrip(c, "struct{^Cell}", reflect.ValueOf(&v).Elem(), true))
		}
	})

	// explicit constructive families for hand-written codecs (strict)
	add("big-integers-sequences", 0, func(c *enum.Ctx) {
		// two encodes of negative/positive big integers of the same width in one execution
		widths := []string{"tlb.Int128", "tlb.Int256", "tlb.Int257", "tlb.Uint128", "tlb.Uint256", "tlb.Uint257"}
		wn := widths[c.ChooseFree(len(widths))]
		var k *tlbx.IntKind
		for i := range ints {
			if ints[i].Entry.Name == wn {
				k = &ints[i]
			}
		}
		if k == nil {
			c.Skip()
			return
		}
		a := k.Values[c.ChooseFree(len(k.Values))]
		b := k.Values[c.ChooseFree(len(k.Values))]
		c.Case([]byte(wn+"/"+a.String()+"/"+b.String()), true)
		c.Sample(map[string]any{"type": wn, "first": a.String(), "second": b.String()})
		c.Label("%s: %s then %s", wn, a, b)
		for _, x := range []*big.Int{a, b, a} {
			v := reflect.New(k.Entry.Type).Elem()
			tlbx.SetInt(v, *k, x)
			tlbx.RoundTrip(c, wn, v, true)
		}
		// inside a VM stack value
		for _, x := range []*big.Int{a, b} {
			if !strings.HasPrefix(wn, "tlb.Int257") {
				break
			}
			var sv tlb.VmStackValue
			sv.SumType = "VmStkInt"
			sv.VmStkInt = tlb.Int257(*new(big.Int).Set(x))
			st := tlb.VmStack{sv, {SumType: "VmStkNull"}}
			tlbx.RoundTrip(c, "tlb.VmStack", reflect.ValueOf(&st).Elem(), true)
		}
	})

	add("vm-stack-values", 0, func(c *enum.Ctx) {
		pool := gen.CellPool(seed)
		mk := func(k int) (tlb.VmStackValue, bool) {
			var v tlb.VmStackValue
			switch k {
			case 0:
				v.SumType = "VmStkNull"
			case 1:
				v.SumType = "VmStkTinyInt"
				v.VmStkTinyInt = -7
			case 2:
				v.SumType = "VmStkTinyInt"
				v.VmStkTinyInt = 1<<63 - 1
			case 3:
				v.SumType = "VmStkInt"
				v.VmStkInt = tlb.Int257(*new(big.Int).Lsh(big.NewInt(-1), 200))
			case 4:
				v.SumType = "VmStkNan"
			case 5:
				v.SumType = "VmStkCell"
				v.VmStkCell.Value = *pool[3]
			case 6:
				v.SumType = "VmStkBuilder"
				v.VmStkBuilder.Value = *pool[1]
			case 7, 8, 9, 10:
				sv, err := tlb.CellToVmCellSlice(pool[k-7])
				if err != nil {
					return v, false
				}
				v = sv
			}
			return v, true
		}
		n := c.ChooseFree(4)
		var st tlb.VmStack
		desc := ""
		for i := 0; i < n; i++ {
			k := c.ChooseFree(11)
			v, ok := mk(k)
			if !ok {
				c.Skip()
				return
			}
			st = append(st, v)
			desc += fmt.Sprintf("%d,", k)
		}
		c.Case([]byte("vmstack/"+desc), n >= 1)
		c.Sample(map[string]any{"stack_value_kinds": desc})
		c.Label("VmStack of kinds %s", desc)
		c.Outcome(tlbx.RoundTrip(c, "tlb.VmStack", reflect.ValueOf(&st).Elem(), true))
		for i := range st {
			tlbx.RoundTrip(c, "tlb.VmStackValue", reflect.ValueOf(&st[i]).Elem(), true)
		}
	})

	// the variable-length bit strings inside addresses (addr_extern, addr_var) at every length 0..511 and at every bit
	// offset 0..7 of the enclosing cell, with bit patterns that end in ones / zeros / alternate
	add("address-bit-strings-every-length-and-offset", 0, func(c *enum.Ctx) {
		kind := c.ChooseFree(2)
		n := c.ChooseFree(512)
		off := c.ChooseFree(8)
		pat := c.ChooseFree(3)
		anyc := 0 // addr_var also with an anycast prefix of depth 1 / 30 in front of the length
		if kind == 1 {
			anyc = c.ChooseFree(3)
		}
		c.Case([]byte(fmt.Sprintf("addrbits/%d/%d/%d/%d/%d", kind, n, off, pat, anyc)), true)
		c.Sample(map[string]any{"kind": []string{"addr_extern", "addr_var"}[kind], "len": n, "bit_offset": off, "pattern": pat})
		c.Label("address kind %d of %d bits at bit offset %d pattern %d", kind, n, off, pat)
		bs := tb.NewBitString(n)
		for i := 0; i < n; i++ {
			switch pat {
			case 0:
				bs.WriteBit(true)
			case 1:
				bs.WriteBit(i%2 == 0)
			default:
				bs.WriteBit(i >= n-3 || i%5 == 1)
			}
		}
		var a tlb.MsgAddress
		if kind == 0 {
			a.SumType = "AddrExtern"
			a.AddrExtern = &bs
		} else {
			a.SumType = "AddrVar"
			a.AddrVar = &struct {
				Anycast     tlb.Maybe[tlb.Anycast]
				AddrLen     tlb.Uint9
				WorkchainId int32
				Address     tb.BitString
			}{AddrLen: tlb.Uint9(n), WorkchainId: -5, Address: bs}
			if anyc > 0 {
				d := []uint32{0, 1, 30}[anyc]
				a.AddrVar.Anycast.Exists = true
				a.AddrVar.Anycast.Value = tlb.Anycast{Depth: d, RewritePfx: uint32(0x2AAAAAAA) & (1<<d - 1)}
			}
		}
		switch off {
		case 0:
			c.Outcome(tlbx.RoundTrip(c, "tlb.MsgAddress", reflect.ValueOf(&a).Elem(), true))
		case 1:
			w := padded[tlb.Uint1]{1, a, 21}
			c.Outcome(tlbx.RoundTrip(c, "struct{Uint1;MsgAddress;Uint5}", reflect.ValueOf(&w).Elem(), true))
		case 2:
			w := padded[tlb.Uint2]{2, a, 21}
			c.Outcome(tlbx.RoundTrip(c, "struct{Uint2;MsgAddress;Uint5}", reflect.ValueOf(&w).Elem(), true))
		case 3:
			w := padded[tlb.Uint3]{5, a, 21}
			c.Outcome(tlbx.RoundTrip(c, "struct{Uint3;MsgAddress;Uint5}", reflect.ValueOf(&w).Elem(), true))
		case 4:
			w := padded[tlb.Uint4]{9, a, 21}
			c.Outcome(tlbx.RoundTrip(c, "struct{Uint4;MsgAddress;Uint5}", reflect.ValueOf(&w).Elem(), true))
		case 5:
			w := padded[tlb.Uint5]{17, a, 21}
			c.Outcome(tlbx.RoundTrip(c, "struct{Uint5;MsgAddress;Uint5}", reflect.ValueOf(&w).Elem(), true))
		case 6:
			w := padded[tlb.Uint6]{33, a, 21}
			c.Outcome(tlbx.RoundTrip(c, "struct{Uint6;MsgAddress;Uint5}", reflect.ValueOf(&w).Elem(), true))
		case 7:
			w := padded[tlb.Uint7]{65, a, 21}
			c.Outcome(tlbx.RoundTrip(c, "struct{Uint7;MsgAddress;Uint5}", reflect.ValueOf(&w).Elem(), true))
		}
	})

	// a slice value of a TVM stack (what get-methods return) is read through Cell() / UnmarshalToTlbStruct: every reading
	// gives the same structure - after a complete reading, after a reading that failed half-way, and for two cells taken
	// from one slice
	add("vm-slice-read-repeatedly", 0, func(c *enum.Ctx) {
		type pair struct {
			A tlb.Uint64
			B tlb.Uint64
		}
		type triple struct {
			A tlb.Uint64
			B tlb.Uint64
			C tlb.Uint64
		}
		how := c.ChooseFree(2)   // 0: TlbStructToVmCellSlice, 1: CellToVmCellSlice
		first := c.ChooseFree(4) // what happens before: 0 nothing, 1 a complete reading, 2 a reading that fails half-way, 3 Cell() read to the end
		via := c.ChooseFree(2)   // 0: through the codec (a decoded copy of the stack value), 1: the value itself
		c.Case([]byte(fmt.Sprintf("vmslice/%d/%d/%d", how, first, via)), true)
		c.Label("vm slice built %d, earlier use %d, via %d", how, first, via)
		want := pair{0x1111111111111111, 0x2222222222222222}
		var v tlb.VmStackValue
		var err error
		c.Try("panic:vm-slice", func() {
			if how == 0 {
				v, err = tlb.TlbStructToVmCellSlice(want)
			} else {
				cl := tb.NewCell()
				_ = cl.WriteUint(uint64(want.A), 64)
				_ = cl.WriteUint(uint64(want.B), 64)
				v, err = tlb.CellToVmCellSlice(cl)
			}
			if err != nil {
				c.Fail("vm-slice-build", "%v", err)
				return
			}
			if via == 0 {
				enc := tb.NewCell()
				if err := tlb.Marshal(enc, v); err != nil {
					c.Fail("vm-slice-encode", "%v", err)
					return
				}
				var back tlb.VmStackValue
				if err := tlb.Unmarshal(enc, &back); err != nil {
					c.Fail("vm-slice-decode", "%v", err)
					return
				}
				v = back
			}
			switch first {
			case 1:
				var p pair
				_ = v.VmStkSlice.UnmarshalToTlbStruct(&p)
			case 2:
				var t triple
				if err := v.VmStkSlice.UnmarshalToTlbStruct(&t); err == nil {
					c.Fail("vm-slice-overlong-read", "reading three 64-bit fields from a 128-bit slice succeeds")
					return
				}
			case 3:
				cl := v.VmStkSlice.Cell()
				_, _ = cl.ReadUint(64)
				_, _ = cl.ReadUint(64)
			}
			for attempt := 0; attempt < 2; attempt++ {
				var p pair
				if err := v.VmStkSlice.UnmarshalToTlbStruct(&p); err != nil {
					c.Fail("vm-slice-reread-error", "reading the slice (attempt %d after earlier use %d) fails: %v", attempt+1, first, err)
					return
				}
				if p != want {
					c.Fail("vm-slice-reread-value", "reading the slice (attempt %d after earlier use %d) gives %x/%x, the slice holds %x/%x", attempt+1, first, uint64(p.A), uint64(p.B), uint64(want.A), uint64(want.B))
					return
				}
			}
			c1, c2 := v.VmStkSlice.Cell(), v.VmStkSlice.Cell()
			a, e1 := c1.ReadUint(64)
			b, e2 := c2.ReadUint(64)
			if e1 != nil || e2 != nil || a != uint64(want.A) || b != uint64(want.A) {
				c.Fail("vm-slice-cells-not-independent", "two cells taken from one slice read %x,%v and %x,%v; both start at %x", a, e1, b, e2, uint64(want.A))
			}
		})
	})

	add("snake-data-lengths", 0, func(c *enum.Ctx) {
		kind := c.ChooseFree(3)
		var n int
		if r.Quick() {
			n = []int{0, 1, 7, 8, 9, 1015, 1016, 1022, 1023, 1024, 1025, 2046, 2047, 2048, 3070}[c.ChooseFree(15)]
		} else {
			n = c.ChooseFree(2100)
		}
		prefix := []int{0, 1, 8, 32}[c.ChooseFree(4)] // bits already in the cell before the snake starts
		c.Case([]byte(fmt.Sprintf("snake/%d/%d/%d", kind, n, prefix)), true)
		c.Sample(map[string]any{"kind": []string{"SnakeData(bits)", "Bytes", "Text"}[kind], "len": n, "prefix_bits": prefix})
		type wrap[T any] struct {
			P8  tlb.Uint8
			Val T
		}
		switch kind {
		case 0:
			bs := tb.NewBitString(n)
			for i := 0; i < n; i++ {
				bs.WriteBit(i%3 == 0)
			}
			v := tlb.SnakeData(bs)
			if prefix == 8 {
				w := wrap[tlb.SnakeData]{1, v}
				c.Outcome(tlbx.RoundTrip(c, "struct{Uint8;SnakeData}", reflect.ValueOf(&w).Elem(), true))
			} else if prefix == 0 {
				c.Outcome(tlbx.RoundTrip(c, "tlb.SnakeData", reflect.ValueOf(&v).Elem(), true))
			} else {
				c.Skip()
			}
		case 1:
			if n%8 != 0 || prefix%8 != 0 || prefix > 8 {
				c.Skip()
				return
			}
			b := make(tlb.Bytes, n/8)
			for i := range b {
				b[i] = byte(i)
			}
			if prefix == 8 {
				w := wrap[tlb.Bytes]{1, b}
				c.Outcome(tlbx.RoundTrip(c, "struct{Uint8;Bytes}", reflect.ValueOf(&w).Elem(), true))
			} else {
				c.Outcome(tlbx.RoundTrip(c, "tlb.Bytes", reflect.ValueOf(&b).Elem(), true))
			}
		case 2:
			if n%8 != 0 || prefix != 0 {
				c.Skip()
				return
			}
			s := tlb.Text(strings.Repeat("a", n/8))
			c.Outcome(tlbx.RoundTrip(c, "tlb.Text", reflect.ValueOf(&s).Elem(), true))
		}
	})
	return hs
}

// summary gives a compact canonical description of a generated value for the distinct-case hash.
func summary(v reflect.Value) string {
	s := fmt.Sprintf("%+v", v.Interface())
	if len(s) > 600 {
		s = s[:600]
	}
	return s
}

func declaresTLB(t reflect.Type) bool {
	for _, m := range []string{"MarshalTLB", "UnmarshalTLB"} {
		if _, ok := reflect.PointerTo(t).MethodByName(m); ok {
			return true
		}
	}
	if t.Kind() != reflect.Struct {
		return false
	}
	for i := 0; i < t.NumField(); i++ {
		f := t.Field(i)
		if _, ok := f.Tag.Lookup("tlb"); ok {
			return true
		}
		if _, ok := f.Tag.Lookup("tlbSumType"); ok {
			return true
		}
		if f.Type.Name() == "SumType" || f.Type.Name() == "Magic" {
			return true
		}
	}
	return false
}
