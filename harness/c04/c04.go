// Package c04: TL-B encodings are bit-exact with the TON schemas.
package c04

import (
	"fmt"
	"math/big"
	"os"
	"path/filepath"
	"reflect"

	tb "github.com/tonkeeper/tongo/boc"
	"github.com/tonkeeper/tongo/tlb"
	"github.com/tonkeeper/tongo/ton"

	"verif/conv"
	"verif/fw"
	"verif/harness/tlbx"
	"verif/mc/enum"
	"verif/realdata"
	"verif/ref/bits"
	rboc "verif/ref/boc"
	"verif/ref/cell"
	te "verif/ref/tlbenc"
)

func init() {
	fw.Register(&fw.Property{
		ID: "C04",
		Rule: "(1) every generated integer/bits/VarUInteger type x boundary alphabet (all values for widths <= 10) compared bit by bit with the schema encoding; (2) combinators, tags and Go kinds in probe structs; " +
			"(3) abstract MsgAddress / Grams / CurrencyCollection / CommonMsgInfo / StateInit / Message values enumerated with up to D deviating fields, encoded by tongo and by reference encoders written from block.tlb, compared as cells (bits, refs, hash); " +
			"(4) every transaction and message contained in the real blocks of the repository is decoded and encoded again and compared with the hash of its source cell; distinct = (harness, abstract value); non-trivial = at least one non-default field",
		Assume: []string{
			"reference encoders in /verif/ref/tlbenc written from the block.tlb text; library dictionaries of StateInit are empty in the synthetic space",
			"real records that contain a non-empty dictionary are re-encoded too but a hash difference is only counted as skipped_non_unique (tongo's label choice is valid but not the canonical shortest form), unless the dictionary-free part can be compared",
		},
		Harnesses: harnesses,
	})
}

func ToTongo(c *enum.Ctx, rc *cell.Cell) *tb.Cell {
	if !conv.HasSpecial(rc) {
		t, err := conv.ToTongo(rc, true)
		if err != nil {
			c.Fail("setup", "%v", err)
			return tb.NewCell()
		}
		return t
	}
	b, _ := rboc.Serialize([]*cell.Cell{rc}, rboc.Options{})
	roots, err := tb.DeserializeBoc(b)
	if err != nil {
		c.Fail("setup", "%v", err)
		return tb.NewCell()
	}
	return roots[0]
}

func bitString(b bits.Bits) tb.BitString {
	bs := tb.NewBitString(len(b))
	for _, x := range b {
		bs.WriteBit(x)
	}
	return bs
}

func addrToTongo(a te.Addr) tlb.MsgAddress {
	var m tlb.MsgAddress
	ac := tlb.Maybe[tlb.Anycast]{}
	if a.Anycast != nil {
		ac.Exists = true
		ac.Value = tlb.Anycast{Depth: uint32(a.Anycast.Depth), RewritePfx: a.Anycast.Pfx}
	}
	switch a.Kind {
	case 0:
		m.SumType = "AddrNone"
	case 1:
		m.SumType = "AddrExtern"
		bs := bitString(a.Bits)
		m.AddrExtern = &bs
	case 2:
		m.SumType = "AddrStd"
		m.AddrStd.Anycast = ac
		m.AddrStd.WorkchainId = int8(a.WC)
		copy(m.AddrStd.Address[:], a.Bits.Bytes())
	case 3:
		m.SumType = "AddrVar"
		m.AddrVar = &struct {
			Anycast     tlb.Maybe[tlb.Anycast]
			AddrLen     tlb.Uint9
			WorkchainId int32
			Address     tb.BitString
		}{Anycast: ac, AddrLen: tlb.Uint9(len(a.Bits)), WorkchainId: a.WC, Address: bitString(a.Bits)}
	}
	return m
}

func infoToTongo(i te.Info) tlb.CommonMsgInfo {
	var m tlb.CommonMsgInfo
	switch i.Kind {
	case 0:
		m.SumType = "IntMsgInfo"
		m.IntMsgInfo = &struct {
			IhrDisabled bool
			Bounce      bool
			Bounced     bool
			Src         tlb.MsgAddress
			Dest        tlb.MsgAddress
			Value       tlb.CurrencyCollection
			IhrFee      tlb.Grams
			FwdFee      tlb.Grams
			CreatedLt   uint64
			CreatedAt   uint32
		}{i.IhrDisabled, i.Bounce, i.Bounced, addrToTongo(i.Src), addrToTongo(i.Dest), tlb.CurrencyCollection{Grams: tlb.Grams(i.Value)}, tlb.Grams(i.IhrFee), tlb.Grams(i.FwdFee), i.Lt, i.At}
	case 1:
		m.SumType = "ExtInMsgInfo"
		m.ExtInMsgInfo = &struct {
			Src       tlb.MsgAddress
			Dest      tlb.MsgAddress
			ImportFee tlb.VarUInteger16
		}{addrToTongo(i.Src), addrToTongo(i.Dest), tlb.VarUInteger16(*new(big.Int).SetUint64(i.Import))}
	case 2:
		m.SumType = "ExtOutMsgInfo"
		m.ExtOutMsgInfo = &struct {
			Src       tlb.MsgAddress
			Dest      tlb.MsgAddress
			CreatedLt uint64
			CreatedAt uint32
		}{addrToTongo(i.Src), addrToTongo(i.Dest), i.Lt, i.At}
	}
	return m
}

func stateInitToTongo(c *enum.Ctx, s te.StateInit) tlb.StateInit {
	var t tlb.StateInit
	if s.SplitDepth != nil {
		t.SplitDepth.Exists = true
		t.SplitDepth.Value = tlb.Uint5(*s.SplitDepth)
	}
	if s.Special != nil {
		t.Special.Exists = true
		t.Special.Value = tlb.TickTock{Tick: s.Special[0], Tock: s.Special[1]}
	}
	if s.Code != nil {
		t.Code.Exists = true
		t.Code.Value.Value = *ToTongo(c, s.Code)
	}
	if s.Data != nil {
		t.Data.Exists = true
		t.Data.Value.Value = *ToTongo(c, s.Data)
	}
	return t
}

// compare checks that tongo's encoding of v equals the reference cell.
func compare(c *enum.Ctx, name string, v any, want *cell.Cell) {
	enc := tb.NewCell()
	var err error
	if c.Try("panic:Marshal:"+name, func() { err = tlb.Marshal(enc, v) }) {
		return
	}
	if err != nil {
		c.Fail("encode-error:"+name, "Marshal(%s) failed: %v", name, err)
		return
	}
	got, err := conv.FromTongo(enc)
	if err != nil {
		c.Fail("encoding-malformed:"+name, "%v", err)
		return
	}
	if !cell.StructEqual(got, want) || got.ReprHash() != want.ReprHash() {
		c.Fail("bits-differ:"+name, "%s encodes to %s, schema prescribes %s", name, got.Describe(), want.Describe())
		return
	}
	// encoding does not consume or change the value: the same value encodes to the same bits again
	enc2 := tb.NewCell()
	if c.Try("panic:Marshal-again:"+name, func() { err = tlb.Marshal(enc2, v) }) {
		return
	}
	if err != nil {
		c.Fail("encode-again-error:"+name, "a second Marshal of the same %s value failed: %v", name, err)
		return
	}
	if got2, err := conv.FromTongo(enc2); err != nil || got2.ReprHash() != want.ReprHash() {
		c.Fail("bits-differ-second-encoding:"+name, "the second encoding of the same %s value differs from the first (%v)", name, err)
	}
}

var GramsAlphabet = []uint64{0, 1, 127, 128, 255, 256, 32767, 32768, 65535, 65536, 1<<23 - 1, 1 << 23, 1<<24 - 1, 1 << 24, 10_000_000, 1<<31 - 1, 1 << 31, 3_000_000_000, 1<<32 - 1, 1 << 32,
	1<<39 - 1, 1 << 39, 1<<40 - 1, 1 << 40, 1<<47 - 1, 1<<48 - 1, 1 << 48, 1<<55 - 1, 1<<56 - 1, 1 << 56, 1<<63 - 1, 1 << 63, 1<<63 + 5, 1<<64 - 1}

func ChooseAddr(c *enum.Ctx, seed int, internal bool) te.Addr {
	// default: std address in workchain 0
	var a te.Addr
	kinds := []int{2, 3, 0, 1}
	if !internal {
		kinds = []int{0, 1, 2, 3}
	}
	a.Kind = kinds[c.Choose(4)]
	if a.Kind >= 2 {
		switch c.Choose(4) {
		case 1:
			a.Anycast = &te.Anycast{Depth: 1, Pfx: 1}
		case 2:
			a.Anycast = &te.Anycast{Depth: 30, Pfx: 0x2AAAAAAA}
		case 3:
			a.Anycast = &te.Anycast{Depth: 9, Pfx: 0x155}
		}
	}
	switch a.Kind {
	case 1:
		a.Bits = bits.Pattern(seed+1, []int{8, 0, 1, 9, 511}[c.Choose(5)])
	case 2:
		a.WC = []int32{0, -1, 127, -128}[c.Choose(4)]
		a.Bits = bits.Pattern(seed+2+c.Choose(3), 256)
	case 3:
		a.WC = []int32{0, -1, 1<<31 - 1, -(1 << 31), 128}[c.Choose(5)]
		a.Bits = bits.Pattern(seed+3, []int{256, 0, 1, 9, 255, 511}[c.Choose(6)])
	}
	return a
}

func CellPool(seed int) []*cell.Cell {
	leaf := cell.MustNew([]byte{0xAB}, 8, nil, false)
	lib := cell.NewLibrary([32]byte{9, 9, 9})
	// (no pruned branch here: a parent of a pruned branch has a non-zero level, which in-memory construction
	// from ordinary cells does not cover; see C02/C18 for cells with levels)
	lib2 := cell.NewLibrary([32]byte{7, 7})
	return []*cell.Cell{
		cell.MustNew(nil, 0, nil, false),
		leaf,
		cell.MustNew([]byte{0xA0}, 3, nil, false),
		cell.MustNew([]byte{0xC0, 0xFF, 0xEE}, 24, []*cell.Cell{leaf}, false),
		lib,
		cell.MustNew(bits.Pattern(seed, 600).Bytes(), 600, []*cell.Cell{leaf, lib}, false),
		lib2,
	}
}

type probe struct {
	A  tlb.Maybe[tlb.Uint7]
	B  tlb.Either[tlb.Uint3, tlb.Int9]
	C  tlb.EitherRef[tlb.Uint12]
	D  tlb.Ref[tlb.Int8]
	E  *tlb.Uint5 `tlb:"maybe"`
	F  *tlb.Uint6 `tlb:"maybe^"`
	G  tlb.Uint4  `tlb:"^"`
	H  bool
	I  int8
	J  uint16
	K  int32
	L  uint64
	M  tlb.Magic `tlb:"probe#a1f"`
	N  tlb.Magic `tlb:"probe$101"`
	U  tlb.Unary
	Bs [3]byte
}

type probeSum struct {
	tlb.SumType
	One struct {
		X tlb.Uint3
	} `tlbSumType:"one$0"`
	Two struct {
		Y tlb.Int5
	} `tlbSumType:"two#ab"`
	Three struct{} `tlbSumType:"three$110"`
	Four  struct {
		Z tlb.Maybe[tlb.Uint2]
	} `tlbSumType:"four#_"`
}

func jettonLikeBody(cons int) (any, *cell.Cell) {
	type body struct {
		tlb.SumType
		Transfer struct {
			QueryID uint64
			Amount  tlb.VarUInteger16
		} `tlbSumType:"transfer#0f8a7ea5"`
		Burn struct {
			QueryID uint64
		} `tlbSumType:"burn#595f07bc"`
	}
	var v body
	b := &te.B{}
	if cons == 0 {
		v.SumType = "Transfer"
		v.Transfer.QueryID = 0x1122334455667788
		v.Transfer.Amount = tlb.VarUInteger16(*big.NewInt(1_000_000))
		b.Uint(0x0f8a7ea5, 32).Uint(0x1122334455667788, 64).VarUint(big.NewInt(1_000_000), 16)
	} else {
		v.SumType = "Burn"
		v.Burn.QueryID = 7
		b.Uint(0x595f07bc, 32).Uint(7, 64)
	}
	w, _ := b.Cell()
	return v, w
}

func nftLikeBody(cons int) (any, *cell.Cell) {
	type body struct {
		tlb.SumType
		Burn struct {
			Flag bool
		} `tlbSumType:"burn$101"`
		Transfer struct {
			QueryID uint64
			Forward tlb.Uint4
		} `tlbSumType:"transfer#5fcc3d14"`
	}
	var v body
	b := &te.B{}
	if cons == 0 {
		v.SumType = "Transfer"
		v.Transfer.QueryID = 9
		v.Transfer.Forward = 11
		b.Uint(0x5fcc3d14, 32).Uint(9, 64).Uint(11, 4)
	} else {
		v.SumType = "Burn"
		v.Burn.Flag = true
		b.Uint(5, 3).Bit(true)
	}
	w, _ := b.Cell()
	return v, w
}

func harnesses(r *fw.Run) []fw.HarnessSpec {
	seed := int(r.Seed)
	var hs []fw.HarnessSpec
	add := func(name string, bound int, f func(c *enum.Ctx)) {
		hs = append(hs, fw.HarnessSpec{Harness: enum.Harness{Name: name, Bound: bound, Run: f}})
	}
	ints := tlbx.IntegerTypes(seed)
	add("integer-types-bit-exact", 0, func(c *enum.Ctx) {
		if len(ints) == 0 {
			c.Fail("no-integer-types", "registry lists no generated integer types")
			return
		}
		k := ints[c.ChooseFree(len(ints))]
		x := k.Values[c.ChooseFree(len(k.Values))]
		c.Case([]byte(k.Entry.Name+"/"+x.String()), x.Sign() != 0)
		c.Sample(map[string]any{"type": k.Entry.Name, "value": x.String()})
		c.Label("%s value %s", k.Entry.Name, x)
		v := reflect.New(k.Entry.Type).Elem()
		tlbx.SetInt(v, k, x)
		want := tlbx.RefBits(k, x)
		rc := cell.MustNew(want.Bytes(), len(want), nil, false)
		compare(c, k.Entry.Name, v.Interface(), rc)
	})

	// byte arrays of any length are bit strings of 8*N bits for the reflection codec (the generated BitsN types are such
	// arrays; a user schema may declare wider ones): every length 1..127 alone and between two other fields
	add("byte-arrays-every-length", 0, func(c *enum.Ctx) {
		n := 1 + c.ChooseFree(127)
		between := c.ChooseFree(2) == 1
		c.Case([]byte(fmt.Sprintf("bytes/%d/%v", n, between)), true)
		c.Label("[%d]byte, between two fields: %v", n, between)
		data := bits.Pattern(seed+n, 8*n).Bytes()
		arrT := reflect.ArrayOf(n, reflect.TypeOf(byte(0)))
		arr := reflect.New(arrT).Elem()
		for i := 0; i < n; i++ {
			arr.Index(i).SetUint(uint64(data[i]))
		}
		b := &te.B{}
		var v any
		if between {
			st := reflect.StructOf([]reflect.StructField{
				{Name: "Head", Type: reflect.TypeOf(tlb.Uint3(0))},
				{Name: "Body", Type: arrT},
				{Name: "Tail", Type: reflect.TypeOf(false)},
			})
			sv := reflect.New(st).Elem()
			sv.Field(0).SetUint(5)
			sv.Field(1).Set(arr)
			sv.Field(2).SetBool(true)
			if 3+8*n+1 > 1023 {
				c.Skip()
				return
			}
			b.Uint(5, 3).Raw(bits.FromBytes(data, 8*n)).Bit(true)
			v = sv.Interface()
		} else {
			b.Raw(bits.FromBytes(data, 8*n))
			v = arr.Interface()
		}
		w, err := b.Cell()
		if err != nil {
			c.Skip()
			return
		}
		compare(c, fmt.Sprintf("[%d]byte", n), v, w)
	})

	add("combinators-and-tags", 2, func(c *enum.Ctx) {
		var p probe
		b := &te.B{}
		key := ""
		ch := func(n int) int { k := c.Choose(n); key += fmt.Sprintf("%d.", k); return k }
		if ch(2) == 1 {
			p.A = tlb.Maybe[tlb.Uint7]{Exists: true, Value: 0x55}
			b.Bit(true).Uint(0x55, 7)
		} else {
			b.Bit(false)
		}
		if ch(2) == 1 {
			p.B.IsRight = true
			p.B.Right = -200
			b.Bit(true).Int(-200, 9)
		} else {
			p.B.Left = 5
			b.Bit(false).Uint(5, 3)
		}
		if ch(2) == 1 {
			p.C = tlb.EitherRef[tlb.Uint12]{IsRight: true, Value: 0xABC}
			b.Bit(true).Ref(cell.MustNew([]byte{0xAB, 0xC0}, 12, nil, false))
		} else {
			p.C.Value = 0x123
			b.Bit(false).Uint(0x123, 12)
		}
		p.D.Value = -3
		b.Ref(cell.MustNew([]byte{0xFD}, 8, nil, false))
		if ch(2) == 1 {
			x := tlb.Uint5(17)
			p.E = &x
			b.Bit(true).Uint(17, 5)
		} else {
			b.Bit(false)
		}
		if ch(2) == 1 {
			x := tlb.Uint6(33)
			p.F = &x
			b.Bit(true).Ref(cell.MustNew([]byte{33 << 2}, 6, nil, false))
		} else {
			b.Bit(false)
		}
		p.G = 9
		b.Ref(cell.MustNew([]byte{0x90}, 4, nil, false))
		p.H = ch(2) == 1
		b.Bit(p.H)
		p.I = []int8{0, -1, -128, 127}[ch(4)]
		b.Int(int64(p.I), 8)
		p.J = []uint16{0, 1, 65535, 0x8000}[ch(4)]
		b.Uint(uint64(p.J), 16)
		p.K = []int32{0, -1, -(1 << 31), 1<<31 - 1}[ch(4)]
		b.Int(int64(p.K), 32)
		p.L = []uint64{0, 1, 1<<64 - 1, 1 << 63}[ch(4)]
		b.Uint(p.L, 64)
		b.Uint(0xa1f, 12).Uint(5, 3)
		p.U = tlb.Unary([]uint{0, 1, 5, 70}[ch(4)])
		for i := 0; i < int(p.U); i++ {
			b.Bit(true)
		}
		b.Bit(false)
		p.Bs = [3]byte{1, 2, 0xFF}
		b.Uint(0x0102FF, 24)
		want, err := b.Cell()
		if err != nil {
			c.Skip()
			return
		}
		c.Case([]byte("probe/"+key), key != "")
		c.Sample(map[string]any{"probe_struct_choices": key})
		c.Label("probe struct choices %s", key)
		compare(c, "probe-struct", p, want)

		var s probeSum
		sb := &te.B{}
		switch k := c.Choose(4); k {
		case 0:
			s.SumType = "One"
			s.One.X = 6
			sb.Bit(false).Uint(6, 3)
		case 1:
			s.SumType = "Two"
			s.Two.Y = -16
			sb.Uint(0xab, 8).Int(-16, 5)
		case 2:
			s.SumType = "Three"
			sb.Uint(6, 3)
		case 3:
			s.SumType = "Four"
			s.Four.Z = tlb.Maybe[tlb.Uint2]{Exists: true, Value: 2}
			sb.Bit(true).Uint(2, 2)
		}
		ws, _ := sb.Cell()
		compare(c, "probe-sum:"+string(s.SumType), s, ws)
	})

	// two user schemas in one program that give their body type the same Go name (declared inside two functions, so
	// both print as c04.body) and a constructor of the same name with a different tag and different fields: each value
	// carries the tag and fields of its own declaration, whichever type the codec met first
	add("sum-types-with-equal-names", 0, func(c *enum.Ctx) {
		first := c.ChooseFree(2)
		cons := c.ChooseFree(2)
		c.Case([]byte(fmt.Sprintf("equal-names/%d/%d", first, cons)), true)
		c.Sample(map[string]any{"first_schema": first, "constructor": cons})
		c.Label("schemas in order %d, constructor %d", first, cons)
		for i := 0; i < 3; i++ {
			if (i+first)%2 == 0 {
				v, want := jettonLikeBody(cons)
				compare(c, "equal-names:jetton-like", v, want)
			} else {
				v, want := nftLikeBody(cons)
				compare(c, "equal-names:nft-like", v, want)
			}
		}
	})

	// values that do not fit into one cell: Marshal reports an error, and the cell the caller passed stays a cell
	// (at most 1023 bits, a sane free-space count) whose bits are a prefix of the encoding the schema prescribes
	add("values-larger-than-a-cell", 0, func(c *enum.Ctx) {
		head := c.ChooseFree(9)     // bits already in the cell: 0..8
		n := 120 + c.ChooseFree(16) // byte array length 120..135 (127 bytes + 7 bits is the most a cell takes)
		c.Case([]byte(fmt.Sprintf("overflow/%d/%d", head, n)), true)
		c.Label("%d head bits then a %d-byte array", head, n)
		arrT := reflect.ArrayOf(n, reflect.TypeOf(byte(0)))
		v := reflect.New(arrT).Elem()
		for i := 0; i < n; i++ {
			v.Index(i).SetUint(uint64(0x80 | i))
		}
		cl := tb.NewCell()
		for i := 0; i < head; i++ {
			_ = cl.WriteBit(i%2 == 0)
		}
		var err error
		if c.Try("panic:Marshal:overflow", func() { err = tlb.Marshal(cl, v.Interface()) }) {
			return
		}
		fits := head+8*n <= 1023
		if fits != (err == nil) {
			c.Fail("overflow-verdict", "%d head bits + %d bytes: Marshal err=%v, fits=%v", head, n, err, fits)
			return
		}
		if cl.BitSize() > 1023 || cl.BitSize() < head || cl.BitsAvailableForWrite() < 0 || cl.BitsAvailableForWrite() != 1023-cl.BitSize() {
			c.Fail("overflow-leaves-malformed-cell", "after Marshal (err=%v) of %d head bits + %d bytes the cell reports %d bits, %d free", err, head, n, cl.BitSize(), cl.BitsAvailableForWrite())
			return
		}
		cl.ResetCounters()
		for i := 0; i < cl.BitSize(); i++ {
			b, e := cl.ReadBit()
			want := i%2 == 0
			if i >= head {
				j := i - head
				want = (0x80|(j/8))>>(7-uint(j%8))&1 == 1
			}
			if e != nil || b != want {
				c.Fail("overflow-prefix-differs", "bit %d of the cell after Marshal (err=%v) is %v,%v; the encoding has %v there", i, err, b, e, want)
				return
			}
		}
	})

	add("grams-and-addresses", 2, func(c *enum.Ctx) {
		g := GramsAlphabet[c.ChooseFree(len(GramsAlphabet))]
		a := ChooseAddr(c, seed, false)
		key := fmt.Sprintf("ga/%d/%+v", g, a)
		c.Case([]byte(key), true)
		c.Sample(map[string]any{"grams": g, "address_kind": a.Kind, "anycast": a.Anycast != nil, "addr_bits": len(a.Bits)})
		c.Label("grams=%d addr=%+v", g, a)
		w, _ := (&te.B{}).Grams(g).Cell()
		compare(c, "Grams", tlb.Grams(g), w)
		w, _ = (&te.B{}).CC(g).Cell()
		compare(c, "CurrencyCollection", tlb.CurrencyCollection{Grams: tlb.Grams(g)}, w)
		w, _ = (&te.B{}).VarUint(new(big.Int).SetUint64(g), 16).Cell()
		compare(c, "VarUInteger16", tlb.VarUInteger16(*new(big.Int).SetUint64(g)), w)
		w, err := (&te.B{}).Addr(a).Cell()
		if err == nil {
			compare(c, fmt.Sprintf("MsgAddress(kind %d)", a.Kind), addrToTongo(a), w)
			// a bit string that has been read from (by a consumer inspecting the address) is still the same value:
			// the encoding must not depend on its read cursor
			if ma := addrToTongo(a); (a.Kind == 1 && ma.AddrExtern != nil) || (a.Kind == 3 && ma.AddrVar != nil) {
				bs := ma.AddrExtern
				if a.Kind == 3 {
					bs = &ma.AddrVar.Address
				}
				for _, k := range []int{1, len(a.Bits) / 2, len(a.Bits)} {
					if k <= 0 || k > len(a.Bits) {
						continue
					}
					bs.ResetCounter()
					_, _ = bs.ReadBits(k)
					compare(c, fmt.Sprintf("MsgAddress(kind %d) after reading %d of its bits", a.Kind, k), ma, w)
				}
			}
		}
	})

	pool := CellPool(seed)
	add("state-init", 1, func(c *enum.Ctx) {
		var s te.StateInit
		mask := c.ChooseFree(16)
		if mask&1 != 0 {
			d := []int{0, 1, 31, 16}[c.Choose(4)]
			s.SplitDepth = &d
		}
		if mask&2 != 0 {
			k := c.Choose(4)
			s.Special = &[2]bool{k&1 != 0, k&2 != 0}
		}
		if mask&4 != 0 {
			s.Code = pool[[]int{3, 4, 0, 5, 6}[c.Choose(5)]]
		}
		if mask&8 != 0 {
			s.Data = pool[[]int{1, 0, 5, 4}[c.Choose(4)]]
		}
		w, err := (&te.B{}).StateInit(s).Cell()
		if err != nil {
			c.Skip()
			return
		}
		h := w.ReprHash()
		c.Case(h[:], mask != 0)
		c.Sample(map[string]any{"present_fields_mask": mask, "encoding": w.Describe()})
		c.Label("StateInit mask=%d", mask)
		compare(c, "StateInit", stateInitToTongo(c, s), w)
	})

	add("messages", r.Pick(2, 3), func(c *enum.Ctx) {
		var m te.Message
		m.Info.Kind = c.ChooseFree(3)
		switch m.Info.Kind {
		case 0:
			m.Info.Src = ChooseAddr(c, seed, true)
			m.Info.Dest = ChooseAddr(c, seed+7, true)
			f := c.Choose(8)
			m.Info.IhrDisabled, m.Info.Bounce, m.Info.Bounced = f&1 != 0, f&2 != 0, f&4 != 0
			m.Info.Value = GramsAlphabet[c.Choose(len(GramsAlphabet))]
			m.Info.IhrFee = GramsAlphabet[c.Choose(len(GramsAlphabet))]
			m.Info.FwdFee = GramsAlphabet[c.Choose(len(GramsAlphabet))]
			m.Info.Lt = []uint64{0, 1, 1<<64 - 1}[c.Choose(3)]
			m.Info.At = []uint32{0, 1, 1<<32 - 1}[c.Choose(3)]
		case 1:
			m.Info.Src = ChooseAddr(c, seed, false)
			m.Info.Dest = ChooseAddr(c, seed+7, true)
			m.Info.Import = GramsAlphabet[c.Choose(len(GramsAlphabet))]
		case 2:
			m.Info.Src = ChooseAddr(c, seed, true)
			m.Info.Dest = ChooseAddr(c, seed+7, false)
			m.Info.Lt = []uint64{0, 1, 1<<64 - 1}[c.Choose(3)]
			m.Info.At = []uint32{0, 1, 1<<32 - 1}[c.Choose(3)]
		}
		switch c.ChooseFree(3) {
		case 1, 2:
			var s te.StateInit
			mask := c.Choose(16)
			if mask&1 != 0 {
				d := 7
				s.SplitDepth = &d
			}
			if mask&2 != 0 {
				s.Special = &[2]bool{true, false}
			}
			if mask&4 != 0 {
				s.Code = pool[[]int{3, 4, 6}[c.Choose(3)]]
			}
			if mask&8 != 0 {
				s.Data = pool[1]
			}
			m.Init = &s
		}
		m.InitRef = m.Init != nil && c.ChooseFree(2) == 1
		m.BodyRef = c.ChooseFree(2) == 1
		bodyIdx := []int{0, 1, 2, 3, 5, 4, 6}
		bi := bodyIdx[c.Choose(len(bodyIdx))]
		if !m.BodyRef && pool[bi].Special {
			c.Skip() // an exotic cell cannot be stored inline
			return
		}
		m.Body = pool[bi]
		w, err := m.Cell()
		if err != nil {
			c.Skip() // does not fit into one cell
			return
		}
		h := w.ReprHash()
		c.Case(h[:], true)
		c.Sample(map[string]any{"info_kind": m.Info.Kind, "init": m.Init != nil, "init_in_ref": m.InitRef, "body_in_ref": m.BodyRef, "encoding": w.Describe()})
		c.Label("message %+v", m)
		var tm tlb.Message
		tm.Info = infoToTongo(m.Info)
		if m.Init != nil {
			tm.Init.Exists = true
			tm.Init.Value.IsRight = m.InitRef
			tm.Init.Value.Value = stateInitToTongo(c, *m.Init)
		}
		tm.Body.IsRight = m.BodyRef
		tm.Body.Value = tlb.Any(*ToTongo(c, m.Body))
		compare(c, fmt.Sprintf("Message(kind %d)", m.Info.Kind), tm, w)
		if w2, err := (&te.B{}).Info(m.Info).Cell(); err == nil {
			compare(c, fmt.Sprintf("CommonMsgInfo(kind %d)", m.Info.Kind), tm.Info, w2)
		}
		// the external-message envelope helper
		if m.Info.Kind == 1 && m.Info.Src.Kind == 0 && m.Info.Dest.Kind == 2 && m.Info.Dest.Anycast == nil && m.BodyRef && (m.Init == nil || m.InitRef) {
			var id ton.AccountID
			id.Workchain = m.Info.Dest.WC
			copy(id.Address[:], m.Info.Dest.Bits.Bytes())
			var init *tlb.StateInit
			if m.Init != nil {
				s := stateInitToTongo(c, *m.Init)
				init = &s
			}
			em, err := ton.CreateExternalMessage(id, ToTongo(c, m.Body), init, tlb.VarUInteger16(*new(big.Int).SetUint64(m.Info.Import)))
			if err != nil {
				c.Fail("CreateExternalMessage:err", "%v", err)
			} else {
				compare(c, "CreateExternalMessage", em, w)
			}
		}
	})

	// real data
	var blocks []realdata.Item
	for _, it := range realdata.BOCs() {
		if filepath.Base(it.Origin) == "block.bin" || filepath.Ext(it.Origin) == ".bin" && len(it.Data) > 100000 {
			blocks = append(blocks, it)
		}
	}
	add("real-blocks-reencode", 0, func(c *enum.Ctx) {
		if len(blocks) == 0 {
			c.Fail("no-real-blocks", "no block found under %s", realdata.Repo)
			return
		}
		it := blocks[c.ChooseFree(len(blocks))]
		c.Case([]byte(it.Origin), true)
		stats := map[string]int{}
		c.Try("panic:real", func() {
			roots, err := tb.DeserializeBoc(it.Data)
			if err != nil {
				c.Fail("real-parse", "%s: %v", it.Origin, err)
				return
			}
			var blk tlb.Block
			if err := tlb.Unmarshal(roots[0], &blk); err != nil {
				stats["not_a_block"]++
				return
			}
			for _, tx := range blk.AllTransactions() {
				stats["transactions"]++
				reencode(c, stats, "Transaction", *tx, tx.Hash(), len(tx.Msgs.OutMsgs.Keys()) > 0 || hasDict(tx))
				if tx.Msgs.InMsg.Exists {
					m := tx.Msgs.InMsg.Value.Value
					stats["messages"]++
					reencode(c, stats, "Message", m, m.Hash(false), msgHasDict(m))
				}
				for _, om := range tx.Msgs.OutMsgs.Values() {
					stats["messages"]++
					reencode(c, stats, "Message", om.Value, om.Value.Hash(false), msgHasDict(om.Value))
				}
			}
		})
		c.Sample(map[string]any{"origin": it.Origin, "stats": stats})
		if stats["transactions"] > 0 && stats["compared"] == 0 && !c.Failed() {
			c.Fail("real-vacuous", "%s: no record could be compared (%v)", it.Origin, stats)
		}
	})
	_ = os.Getenv
	return hs
}

func hasDict(tx *tlb.Transaction) bool {
	return len(tx.TotalFees.Other.Dict.Keys()) > 0
}

func msgHasDict(m tlb.Message) bool {
	if m.Init.Exists && len(m.Init.Value.Value.Library.Keys()) > 0 {
		return true
	}
	if m.Info.SumType == "IntMsgInfo" && len(m.Info.IntMsgInfo.Value.Other.Dict.Keys()) > 0 {
		return true
	}
	return false
}

func reencode(c *enum.Ctx, stats map[string]int, name string, v any, srcHash tlb.Bits256, nonUnique bool) {
	enc := tb.NewCell()
	if err := tlb.Marshal(enc, v); err != nil {
		stats["encode_error:"+name]++
		if !nonUnique {
			c.Fail("real-encode-error:"+name, "decoded real %s cannot be encoded: %v", name, err)
		}
		return
	}
	h, err := enc.Hash256()
	if err != nil {
		c.Fail("real-hash-error:"+name, "%v", err)
		return
	}
	if tlb.Bits256(h) == srcHash {
		stats["compared"]++
		stats["same_hash:"+name]++
		return
	}
	if nonUnique {
		stats["skipped_non_unique:"+name]++
		return
	}
	stats["compared"]++
	c.Fail("real-reencode-hash:"+name, "real %s re-encodes to hash %x, source cell has %x", name, h, srcHash)
}
