// Package c05: dictionaries (Hashmap / HashmapE) preserve their key->value mapping.
package c05

import (
	"bytes"
	"fmt"
	"math/big"
	"sort"

	tb "github.com/tonkeeper/tongo/boc"
	"github.com/tonkeeper/tongo/tlb"

	"verif/conv"
	"verif/fw"
	"verif/mc/enum"
	"verif/ref/bits"
	rboc "verif/ref/boc"
	"verif/ref/cell"
	"verif/ref/dict"
)

func init() {
	fw.Register(&fw.Property{
		ID: "C05",
		Rule: "key sets are subsets of the full key universe (widths 1..4: all subsets) or of a 12-key adversarial alphabet (wide keys), inserted with Put in every permutation (<=5 keys) or in sorted/reverse/rotated order; " +
			"tongo's encoding is parsed by the reference dictionary parser and by tongo, compared with a Go map, hashed against the sorted-insertion encoding, queried with Get over the universe and updated with Put after decoding; " +
			"inbound: every admissible assignment of label form (short/long/same) to every edge of the reference encoding is decoded by tongo; distinct = (key type, key set, order / label assignment); non-trivial = at least two keys",
		Assume: []string{
			"reference Hashmap parser/serialiser in /verif/ref/dict written from the TL-B definition of Hashmap/HmLabel",
			"keys are constructed by decoding key bits with the key type's own UnmarshalTLB and cross-checked by re-marshalling",
			"values are 8-bit integers (key ordinal) or a reference to a cell; value codecs themselves are the subject of C03/C04",
		},
		Harnesses: harnesses,
	})
}

type keyC interface {
	comparable
	FixedSize() int
	Equal(other any) bool
	Compare(other any) (int, bool)
}

func keyFromBits[K keyC](b bits.Bits) (K, error) {
	var k K
	c := tb.NewCell()
	for _, x := range b {
		_ = c.WriteBit(x)
	}
	err := tlb.Unmarshal(c, &k)
	return k, err
}

func keyBits[K keyC](k K) (bits.Bits, error) {
	c := tb.NewCell()
	if err := tlb.Marshal(c, k); err != nil {
		return nil, err
	}
	bs := c.RawBitString()
	return bits.FromBytes(bs.Buffer(), bs.GetWriteCursor()), nil
}

type kv struct {
	key bits.Bits
	val uint8
}

func sortKV(m []kv) {
	sort.Slice(m, func(i, j int) bool { return m[i].key.String() < m[j].key.String() })
}

func val8(rest bits.Bits, refs []*cell.Cell) (dict.Value, error) {
	if len(rest) != 8 || len(refs) != 0 {
		return dict.Value{}, fmt.Errorf("leaf value has %d bits and %d refs, want 8/0", len(rest), len(refs))
	}
	return dict.Value{Bits: rest}, nil
}

// parseHashmapE reads the HashmapE cell produced by tongo with the reference parser.
func parseHashmapE(c *tb.Cell, n int) ([]kv, error) {
	rc, err := conv.FromTongo(c)
	if err != nil {
		return nil, err
	}
	if rc.BitLen != 1 {
		return nil, fmt.Errorf("HashmapE cell has %d bits", rc.BitLen)
	}
	if rc.Data[0]&0x80 == 0 {
		if len(rc.Refs) != 0 {
			return nil, fmt.Errorf("empty HashmapE with refs")
		}
		return nil, nil
	}
	if len(rc.Refs) != 1 {
		return nil, fmt.Errorf("HashmapE with %d refs", len(rc.Refs))
	}
	es, err := dict.Parse(rc.Refs[0], n, val8)
	if err != nil {
		return nil, err
	}
	var out []kv
	for _, e := range es {
		out = append(out, kv{e.Key, uint8(e.Value.Bits.Uint().Uint64())})
	}
	return out, nil
}

func sameKV(a, b []kv) bool {
	if len(a) != len(b) {
		return false
	}
	for i := range a {
		if !a[i].key.Equal(b[i].key) || a[i].val != b[i].val {
			return false
		}
	}
	return true
}

func fmtKV(m []kv) string {
	s := "{"
	for _, e := range m {
		s += fmt.Sprintf("%s:%d ", e.key, e.val)
	}
	return s + "}"
}

// perm returns the idx-th permutation of 0..n-1 (factoradic).
func perm(n, idx int) []int {
	items := make([]int, n)
	for i := range items {
		items[i] = i
	}
	out := make([]int, 0, n)
	f := 1
	for i := 2; i < n; i++ {
		f *= i
	}
	for i := n - 1; i >= 0; i-- {
		var k int
		if i > 0 {
			k = idx / f
			idx %= f
			f /= max(i, 1)
		}
		out = append(out, items[k])
		items = append(items[:k], items[k+1:]...)
	}
	return out
}

func fact(n int) int {
	f := 1
	for i := 2; i <= n; i++ {
		f *= i
	}
	return f
}

// orders enumerates insertion orders for a set of n keys.
func chooseOrder(c *enum.Ctx, n, maxPerm int) []int {
	if n <= 1 {
		return perm(n, 0)
	}
	if n <= maxPerm {
		return perm(n, c.ChooseFree(fact(n)))
	}
	k := c.ChooseFree(4)
	out := make([]int, n)
	for i := range out {
		switch k {
		case 0:
			out[i] = i
		case 1:
			out[i] = n - 1 - i
		case 2:
			out[i] = (i + n/2) % n
		case 3: // interleave ends
			if i%2 == 0 {
				out[i] = i / 2
			} else {
				out[i] = n - 1 - i/2
			}
		}
	}
	return out
}

// runSet is the core oracle for one (key type, key set, insertion order).
func runSet[K keyC](c *enum.Ctx, tname string, model []kv, order []int, universe []bits.Bits) {
	var zero K
	n := zero.FixedSize()
	sortKV(model)
	c.Try("panic:dict:"+tname, func() {
		// build by Put in the given order
		var h tlb.HashmapE[K, tlb.Uint8]
		for _, i := range order {
			k, err := keyFromBits[K](model[i].key)
			if err != nil {
				c.Fail("key-decode:"+tname, "cannot build key %s: %v", model[i].key, err)
				return
			}
			if kb, err := keyBits(k); err != nil || !kb.Equal(model[i].key) {
				c.Fail("key-encode:"+tname, "key %s marshals to %s (%v)", model[i].key, kb, err)
				return
			}
			h.Put(k, tlb.Uint8(model[i].val))
		}
		enc := tb.NewCell()
		if err := tlb.Marshal(enc, h); err != nil {
			c.Fail("encode-error:"+tname, "Marshal of %d keys inserted in order %v failed: %v", len(model), order, err)
			return
		}
		// (a) the reference parser reads exactly the inserted pairs
		got, err := parseHashmapE(enc, n)
		if err != nil {
			c.Fail("encoding-invalid:"+tname, "tongo's encoding of %s (order %v) is not a valid dictionary: %v", fmtKV(model), order, err)
			return
		}
		if !sameKV(got, model) {
			c.Fail("encoding-wrong-mapping:"+tname, "tongo's encoding of %s (order %v) represents %s", fmtKV(model), order, fmtKV(got))
			return
		}
		// (a') the lookup that walks the encoded cells (the one that also produces a Merkle proof) finds exactly the keys
		// of the mapping: the stored value for a present key, an error for every other key of the universe
		if len(model) > 0 && enc.RefsSize() == 1 {
			refs := enc.Refs()
			if prover, err := tb.NewMerkleProver(refs[0]); err == nil {
				for _, ub := range universe {
					if len(ub) != n {
						continue
					}
					bs := tb.NewBitString(len(ub))
					for _, x := range ub {
						_ = bs.WriteBit(x)
					}
					refs[0].ResetCounters()
					val, _, perr := tlb.ProveKeyInHashmap[tlb.Uint8](prover, refs[0], bs)
					wantVal, present := lookup(model, ub)
					if present && (perr != nil || uint8(val) != wantVal) {
						c.Fail("cell-lookup:"+tname, "ProveKeyInHashmap(%s) on the encoding of %s = %d,%v want %d", ub, fmtKV(model), val, perr, wantVal)
						return
					}
					if !present && perr == nil {
						c.Fail("cell-lookup-absent-found:"+tname, "ProveKeyInHashmap finds the absent key %s in the encoding of %s (value %d)", ub, fmtKV(model), val)
						return
					}
				}
				refs[0].ResetCounters()
			}
		}
		// (c) independent of insertion order: same hash as sorted insertion
		var h0 tlb.HashmapE[K, tlb.Uint8]
		for _, e := range model {
			k, _ := keyFromBits[K](e.key)
			h0.Put(k, tlb.Uint8(e.val))
		}
		enc0 := tb.NewCell()
		if err := tlb.Marshal(enc0, h0); err != nil {
			c.Fail("encode-error:"+tname, "Marshal after sorted insertion failed: %v", err)
			return
		}
		ha, _ := enc.Hash()
		hb, _ := enc0.Hash()
		if !bytes.Equal(ha, hb) {
			c.Fail("order-dependent:"+tname, "encoding of %s depends on insertion order %v", fmtKV(model), order)
			return
		}
		// (b) tongo decodes its own encoding (through a BOC round trip) to the same pairs in ascending key-bit order
		raw, err := enc.ToBoc()
		if err != nil {
			c.Fail("toboc:"+tname, "ToBoc: %v", err)
			return
		}
		roots, err := tb.DeserializeBoc(raw)
		if err != nil {
			c.Fail("toboc:"+tname, "DeserializeBoc: %v", err)
			return
		}
		var h2 tlb.HashmapE[K, tlb.Uint8]
		if err := tlb.Unmarshal(roots[0], &h2); err != nil {
			c.Fail("decode-error:"+tname, "Unmarshal of own encoding of %s failed: %v", fmtKV(model), err)
			return
		}
		if !checkDecoded(c, tname, &h2, model, "own") {
			return
		}
		// (b') the dictionary object a cell is decoded into may have held another mapping before (a reused variable, a
		// struct field): afterwards it represents the decoded cell's mapping and nothing else. The earlier occupants:
		// the whole universe, and - for the empty dictionary as the later one - this very mapping.
		{
			var full tlb.HashmapE[K, tlb.Uint8]
			for i, ub := range universe {
				if k, err := keyFromBits[K](ub); err == nil {
					full.Put(k, tlb.Uint8(200+i))
				}
			}
			fenc := tb.NewCell()
			if tlb.Marshal(fenc, full) == nil {
				var dst tlb.HashmapE[K, tlb.Uint8]
				if tlb.Unmarshal(fenc, &dst) == nil {
					roots[0].ResetCounters()
					if err := tlb.Unmarshal(roots[0], &dst); err != nil {
						c.Fail("decode-into-used-dictionary-error:"+tname, "decoding %s into a dictionary value that held another mapping failed: %v", fmtKV(model), err)
						return
					}
					if !checkDecoded(c, tname, &dst, model, "reused") {
						return
					}
				}
			}
			empty := tb.NewCell()
			_ = empty.WriteBit(false)
			dst2 := h2
			if err := tlb.Unmarshal(empty, &dst2); err != nil || len(dst2.Keys()) != 0 || len(dst2.Values()) != 0 {
				c.Fail("decode-into-used-dictionary:"+tname, "the empty dictionary decoded into a value that held %s leaves %d keys (err %v)", fmtKV(model), len(dst2.Keys()), err)
				return
			}
		}
		// (d) lookups over the universe on both the built and the decoded dictionary
		for _, ub := range universe {
			k, err := keyFromBits[K](ub)
			if err != nil {
				continue
			}
			want, present := lookup(model, ub)
			for hi, hh := range []*tlb.HashmapE[K, tlb.Uint8]{&h, &h2} {
				name := []string{"built", "decoded"}[hi]
				v, ok := hh.Get(k)
				if ok != present || (ok && uint8(v) != want) {
					c.Fail("get:"+tname+":"+name, "Get(%s) on %s dictionary %s = %d,%v want %d,%v", ub, name, fmtKV(model), v, ok, want, present)
					return
				}
			}
		}
		// (e) updates on the decoded dictionary: overwrite an existing key, insert absent keys, re-encode
		upd := append([]kv{}, model...)
		if len(upd) > 0 {
			i := len(upd) / 2
			upd[i].val ^= 0xFF
			k, _ := keyFromBits[K](upd[i].key)
			h2.Put(k, tlb.Uint8(upd[i].val))
			j := len(upd) - 1
			upd[j].val = upd[j].val ^ 0x55
			k, _ = keyFromBits[K](upd[j].key)
			h2.Put(k, tlb.Uint8(upd[j].val))
		}
		added := 0
		for _, ub := range universe {
			if _, present := lookup(upd, ub); present {
				continue
			}
			// first and last absent key of the universe
			isLast := true
			for _, ub2 := range universe {
				if ub2.String() > ub.String() {
					if _, p := lookup(upd, ub2); !p {
						isLast = false
					}
				}
			}
			if added == 0 || isLast {
				k, err := keyFromBits[K](ub)
				if err != nil {
					continue
				}
				h2.Put(k, tlb.Uint8(200+added))
				upd = append(upd, kv{ub, uint8(200 + added)})
				added++
			}
		}
		sortKV(upd)
		enc2 := tb.NewCell()
		if err := tlb.Marshal(enc2, h2); err != nil {
			c.Fail("update-encode-error:"+tname, "Marshal after updates of decoded %s failed: %v", fmtKV(model), err)
			return
		}
		got2, err := parseHashmapE(enc2, n)
		if err != nil {
			c.Fail("update-encoding-invalid:"+tname, "after decode+Put the encoding of %s is not a valid dictionary: %v", fmtKV(upd), err)
			return
		}
		if !sameKV(got2, upd) {
			c.Fail("update-wrong-mapping:"+tname, "after decode+Put expected %s, encoding represents %s", fmtKV(upd), fmtKV(got2))
			return
		}
	})
}

func lookup(m []kv, k bits.Bits) (uint8, bool) {
	for _, e := range m {
		if e.key.Equal(k) {
			return e.val, true
		}
	}
	return 0, false
}

// checkDecoded compares Keys/Values/Items of a decoded dictionary with the model (ascending key-bit order).
func checkDecoded[K keyC](c *enum.Ctx, tname string, h *tlb.HashmapE[K, tlb.Uint8], model []kv, src string) bool {
	keys, vals, items := h.Keys(), h.Values(), h.Items()
	if len(keys) != len(model) || len(vals) != len(model) || len(items) != len(model) {
		c.Fail("decode-count:"+tname+":"+src, "decoded %d keys / %d values / %d items, want %d (%s)", len(keys), len(vals), len(items), len(model), fmtKV(model))
		return false
	}
	for i := range model {
		kb, err := keyBits(keys[i])
		if err != nil || !kb.Equal(model[i].key) || uint8(vals[i]) != model[i].val {
			c.Fail("decode-wrong:"+tname+":"+src, "decoded entry %d is %s:%d want %s:%d (ascending key-bit order of %s)", i, kb, vals[i], model[i].key, model[i].val, fmtKV(model))
			return false
		}
		ib, _ := keyBits(items[i].Key)
		if !ib.Equal(kb) || items[i].Value != vals[i] {
			c.Fail("decode-items:"+tname+":"+src, "Items()[%d] disagrees with Keys()/Values()", i)
			return false
		}
	}
	return true
}

// inbound: the reference encoding with a chosen label form per edge is decoded by tongo.
func runInbound[K keyC](c *enum.Ctx, tname string, model []kv, universe []bits.Bits) {
	var zero K
	n := zero.FixedSize()
	sortKV(model)
	var es []dict.Entry
	for _, e := range model {
		es = append(es, dict.Entry{Key: e.key, Value: dict.Value{Bits: bits.FromUint(bigU(uint64(e.val)), 8)}})
	}
	bad := false
	var forms []dict.Form
	root, err := dict.Build(es, n, func(edge int, label bits.Bits, m int) dict.Form {
		f := dict.Form(c.ChooseFree(3))
		if f == dict.Same {
			for i := 1; i < len(label); i++ {
				if label[i] != label[0] {
					bad = true
				}
			}
		}
		forms = append(forms, f)
		return f
	})
	if bad || err != nil {
		c.Skip()
		return
	}
	c.Label("%s keys=%s label forms=%v", tname, fmtKV(model), forms)
	c.Case([]byte(fmt.Sprintf("%s/%s/%v", tname, fmtKV(model), forms)), len(model) >= 2)
	outer := cell.MustNew([]byte{0x80}, 1, []*cell.Cell{root}, false)
	raw, _ := rboc.Serialize([]*cell.Cell{outer}, rboc.Options{})
	c.Try("panic:inbound:"+tname, func() {
		roots, err := tb.DeserializeBoc(raw)
		if err != nil {
			c.Fail("inbound-boc", "%v", err)
			return
		}
		var h tlb.HashmapE[K, tlb.Uint8]
		if err := tlb.Unmarshal(roots[0], &h); err != nil {
			c.Fail("inbound-decode-error:"+tname, "valid dictionary %s with label forms %v rejected: %v", fmtKV(model), forms, err)
			return
		}
		if !checkDecoded(c, tname, &h, model, fmt.Sprintf("forms")) {
			return
		}
		for _, ub := range universe {
			k, err := keyFromBits[K](ub)
			if err != nil {
				continue
			}
			want, present := lookup(model, ub)
			v, ok := h.Get(k)
			if ok != present || (ok && uint8(v) != want) {
				c.Fail("inbound-get:"+tname, "Get(%s) = %d,%v want %d,%v", ub, v, ok, want, present)
				return
			}
		}
	})
}

type keyType struct {
	name    string
	width   int
	set     func(c *enum.Ctx, model []kv, order []int, universe []bits.Bits)
	inbound func(c *enum.Ctx, model []kv, universe []bits.Bits)
}

func kt[K keyC](name string) keyType {
	var z K
	return keyType{name: name, width: z.FixedSize(),
		set:     func(c *enum.Ctx, m []kv, o []int, u []bits.Bits) { runSet[K](c, name, m, o, u) },
		inbound: func(c *enum.Ctx, m []kv, u []bits.Bits) { runInbound[K](c, name, m, u) },
	}
}

var smallTypes = []keyType{
	kt[tlb.Uint1]("Uint1"), kt[tlb.Int1]("Int1"), kt[tlb.Uint2]("Uint2"), kt[tlb.Int2]("Int2"),
	kt[tlb.Uint3]("Uint3"), kt[tlb.Int3]("Int3"), kt[tlb.Uint4]("Uint4"), kt[tlb.Int4]("Int4"),
}

var wideTypes = []keyType{
	kt[tlb.Uint8]("Uint8"), kt[tlb.Int8]("Int8"), kt[tlb.Uint9]("Uint9"), kt[tlb.Uint16]("Uint16"), kt[tlb.Int16]("Int16"),
	kt[tlb.Uint32]("Uint32"), kt[tlb.Int32]("Int32"), kt[tlb.Uint64]("Uint64"), kt[tlb.Int64]("Int64"),
	kt[tlb.Bits80]("Bits80"), kt[tlb.Bits96]("Bits96"), kt[tlb.Bits128]("Bits128"), kt[tlb.Bits256]("Bits256"),
	kt[tlb.Bits264]("Bits264"), kt[tlb.Bits320]("Bits320"), kt[tlb.Bits352]("Bits352"), kt[tlb.Bits512]("Bits512"),
	kt[tlb.AddressWithWorkchain]("AddressWithWorkchain"),
}

func universeOf(n int) []bits.Bits {
	var out []bits.Bits
	for v := 0; v < 1<<uint(n); v++ {
		out = append(out, bits.FromUint(bigU(uint64(v)), n))
	}
	return out
}

// adversarial returns 12 keys of width n: min, max, +-1 neighbours, long common prefixes, long runs, last-bit twins, sign boundary.
func adversarial(n int) []bits.Bits {
	if n == 288 {
		// AddressWithWorkchain: the 32-bit workchain part holds a sign-extended int8
		var out []bits.Bits
		for _, k := range adversarial(264) {
			ext := make(bits.Bits, 24)
			for i := range ext {
				ext[i] = k[0]
			}
			out = append(out, append(ext, k...))
		}
		return out
	}
	mk := func(f func(i int) bool) bits.Bits {
		b := make(bits.Bits, n)
		for i := range b {
			b[i] = f(i)
		}
		return b
	}
	ks := []bits.Bits{
		mk(func(i int) bool { return false }),                // 00..0
		mk(func(i int) bool { return i == n-1 }),             // 00..01
		mk(func(i int) bool { return i == n-2 }),             // 00..10
		mk(func(i int) bool { return true }),                 // 11..1
		mk(func(i int) bool { return i != n-1 }),             // 11..10
		mk(func(i int) bool { return i == 0 }),               // 10..0 (sign boundary)
		mk(func(i int) bool { return i != 0 }),               // 01..1
		mk(func(i int) bool { return i >= n/2 }),             // 0..01..1
		mk(func(i int) bool { return i >= n/2 && i != n-1 }), // 0..01..10
		mk(func(i int) bool { return i%2 == 0 }),             // 1010..
		mk(func(i int) bool { return i%2 == 0 || i == n-1 }), // 1010..1 / twin differing in the last bit(s)
		mk(func(i int) bool { return i < n-9 && n > 9 }),     // 1..1 then >=9 zeros
	}
	// dedupe (narrow widths)
	seen := map[string]bool{}
	var out []bits.Bits
	for _, k := range ks {
		if !seen[k.String()] {
			seen[k.String()] = true
			out = append(out, k)
		}
	}
	sort.Slice(out, func(i, j int) bool { return out[i].String() < out[j].String() })
	return out
}

func harnesses(r *fw.Run) []fw.HarnessSpec {
	var hs []fw.HarnessSpec
	add := func(name string, bound int, f func(c *enum.Ctx)) {
		hs = append(hs, fw.HarnessSpec{Harness: enum.Harness{Name: name, Bound: bound, Run: f}})
	}
	maxPerm := r.Pick(4, 5)

	add("small-universe-subsets-x-orders", 0, func(c *enum.Ctx) {
		t := smallTypes[c.ChooseFree(len(smallTypes))]
		uni := universeOf(t.width)
		var model []kv
		for i, k := range uni {
			if c.ChooseFree(2) == 1 {
				model = append(model, kv{k, uint8(i + 1)})
			}
		}
		if r.Quick() && t.width == 4 && len(model) > 4 && len(model) < 15 {
			c.Skip()
			return
		}
		order := chooseOrder(c, len(model), maxPerm)
		c.Case([]byte(fmt.Sprintf("%s/%s/%v", t.name, fmtKV(model), order)), len(model) >= 2)
		c.Sample(map[string]any{"key_type": t.name, "keys": fmtKV(model), "insertion_order": order})
		c.Label("%s keys=%s order=%v", t.name, fmtKV(model), order)
		t.set(c, model, order, uni)
	})

	add("wide-keys-adversarial-subsets", 0, func(c *enum.Ctx) {
		t := wideTypes[c.ChooseFree(len(wideTypes))]
		alpha := adversarial(t.width)
		maxSize := r.Pick(3, 4)
		var model []kv
		for i, k := range alpha {
			if len(model) < maxSize && c.ChooseFree(2) == 1 {
				model = append(model, kv{k, uint8(i + 1)})
			}
		}
		order := chooseOrder(c, len(model), maxPerm)
		c.Case([]byte(fmt.Sprintf("%s/%s/%v", t.name, fmtKV(model), order)), len(model) >= 2)
		c.Sample(map[string]any{"key_type": t.name, "keys": len(model), "insertion_order": order})
		c.Label("%s keys=%s order=%v", t.name, fmtKV(model), order)
		t.set(c, model, order, alpha)
	})
	if !r.Quick() {
		// all 12 adversarial keys and dense prefixes of them, in the four bulk orders
		add("wide-keys-large-sets", 0, func(c *enum.Ctx) {
			t := wideTypes[c.ChooseFree(len(wideTypes))]
			alpha := adversarial(t.width)
			n := 5 + c.ChooseFree(len(alpha)-4)
			if n > len(alpha) {
				c.Skip()
				return
			}
			var model []kv
			for i, k := range alpha[:n] {
				model = append(model, kv{k, uint8(i + 1)})
			}
			order := chooseOrder(c, len(model), 0)
			c.Case([]byte(fmt.Sprintf("%s/%d/%v", t.name, n, order)), true)
			c.Sample(map[string]any{"key_type": t.name, "keys": n, "insertion_order": order})
			c.Label("%s first %d adversarial keys order=%v", t.name, n, order)
			t.set(c, model, order, alpha)
		})
	}

	inTypes := []keyType{smallTypes[4], smallTypes[5], smallTypes[6], wideTypes[0], wideTypes[1], wideTypes[3], wideTypes[5], wideTypes[12]}
	add("inbound-label-forms", 0, func(c *enum.Ctx) {
		t := inTypes[c.ChooseFree(len(inTypes))]
		var uni []bits.Bits
		if t.width <= 4 {
			uni = universeOf(t.width)
		} else {
			uni = adversarial(t.width)
		}
		maxSize := r.Pick(3, 4)
		var model []kv
		for i, k := range uni {
			if len(model) < maxSize && c.ChooseFree(2) == 1 {
				model = append(model, kv{k, uint8(i + 1)})
			}
		}
		if len(model) == 0 {
			c.Skip()
			return
		}
		t.inbound(c, model, uni)
		c.Sample(map[string]any{"key_type": t.name, "keys": fmtKV(model)})
	})
	return hs
}

func bigU(v uint64) *big.Int { return new(big.Int).SetUint64(v) }
