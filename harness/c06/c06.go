// Package c06: bit-string and cell read/write primitives vs an ideal bit list.
package c06

import (
	"fmt"
	"math/big"
	mbits "math/bits"
	"strings"

	"github.com/tonkeeper/tongo/boc"

	"verif/fw"
	"verif/mc/enum"
	rb "verif/ref/bits"
)

func init() {
	fw.Register(&fw.Property{
		ID: "C06",
		Rule: "choice tree over (pattern, cursor offset, width/length, operation) grids and over operation sequences (writes then reads) on boc.BitString / boc.Cell; " +
			"every leaf is executed on the real code and compared step by step with an ideal []bool bit list; a case is distinct by its canonical (harness, parameters) key and " +
			"non-trivial when the cursor or the width is not byte aligned or more than one operation is involved",
		Assume: []string{
			"values handed to writers are representable in the requested width (the statement quantifies over representable values)",
			"signed widths are 1..64, unsigned 0..64, big-int widths 1..257 (ReadInt(0)/WriteBigUint(_,0) returning an error is accepted)",
			"after an operation that correctly returned an error only the previously written prefix is inspected; the sequence ends there",
			"BitString.WriteBit / ReadBit / Skip are used to set up and to observe state; they are themselves compared with the model in every harness",
		},
		Harnesses: harnesses,
	})
}

func mkBS(bits rb.Bits, cap int) boc.BitString {
	bs := boc.NewBitString(cap)
	for _, b := range bits {
		if err := bs.WriteBit(b); err != nil {
			panic("setup: " + err.Error())
		}
	}
	return bs
}

func readAll(bs boc.BitString) rb.Bits {
	bs.ResetCounter()
	n := bs.BitsAvailableForRead()
	out := make(rb.Bits, 0, n)
	for i := 0; i < n; i++ {
		b, err := bs.ReadBit()
		if err != nil {
			return out
		}
		out = append(out, b)
	}
	return out
}

func big2(n uint) *big.Int { return new(big.Int).Lsh(big.NewInt(1), n) }

func harnesses(r *fw.Run) []fw.HarnessSpec {
	seed := int(r.Seed)
	var hs []fw.HarnessSpec
	add := func(name string, bound int, f func(c *enum.Ctx)) {
		hs = append(hs, fw.HarnessSpec{Harness: enum.Harness{Name: name, Bound: bound, Run: f}})
	}

	// the two source strings: full 1023-bit cell-sized, and 517 bits inside a larger capacity
	srcLen := []int{1023, 517, 64}
	srcCap := []int{1023, 1023, 64}
	src := func(k int) (rb.Bits, boc.BitString) {
		m := rb.Pattern(seed*7+k, srcLen[k])
		return m, mkBS(m, srcCap[k])
	}

	// (a1) integer readers, every (offset, width)
	add("read-int-grid", 0, func(c *enum.Ctx) {
		k := c.ChooseFree(3)
		m, bs0 := src(k)
		off := c.ChooseFree(len(m) + 1)
		w := c.ChooseFree(66) // 0..65 (65 = too wide: must be an error)
		c.Case([]byte(fmt.Sprintf("ri/%d/%d/%d", k, off, w)), off%8 != 0 || w%8 != 0)
		c.Sample(map[string]any{"op": "ReadUint/PickUint/ReadInt", "len": len(m), "offset": off, "width": w})
		fits := off+w <= len(m) && w <= 64
		outc := "err"
		c.Try("panic:read-int", func() {
			bs := bs0
			if err := bs.Skip(off); err != nil {
				c.Fail("skip", "Skip(%d) on %d bits: %v", off, len(m), err)
				return
			}
			// ReadUint
			{
				b := bs
				v, err := b.ReadUint(w)
				if fits {
					want := m[off : off+w].Uint().Uint64()
					if err != nil || v != want {
						c.Fail("ReadUint:value", "ReadUint(%d)@%d = %d,%v want %d", w, off, v, err, want)
					}
					if b.BitsAvailableForRead() != len(m)-off-w {
						c.Fail("ReadUint:cursor", "ReadUint(%d)@%d left %d bits, want %d", w, off, b.BitsAvailableForRead(), len(m)-off-w)
					}
					outc = "ok"
				} else if err == nil {
					c.Fail("ReadUint:past-end", "ReadUint(%d)@%d of %d bits returned %d without error", w, off, len(m), v)
				}
			}
			// PickUint
			{
				b := bs
				v, err := b.PickUint(w)
				if fits {
					want := m[off : off+w].Uint().Uint64()
					if err != nil || v != want {
						c.Fail("PickUint:value", "PickUint(%d)@%d = %d,%v want %d", w, off, v, err, want)
					}
					if b.BitsAvailableForRead() != len(m)-off {
						c.Fail("PickUint:cursor", "PickUint(%d)@%d moved the cursor", w, off)
					}
				} else if err == nil {
					c.Fail("PickUint:past-end", "PickUint(%d)@%d of %d bits returned %d without error", w, off, len(m), v)
				}
			}
			// ReadInt
			if w >= 1 {
				b := bs
				v, err := b.ReadInt(w)
				if fits {
					want := m[off : off+w].Int().Int64()
					if err != nil || v != want {
						c.Fail("ReadInt:value", "ReadInt(%d)@%d = %d,%v want %d", w, off, v, err, want)
					}
					if b.BitsAvailableForRead() != len(m)-off-w {
						c.Fail("ReadInt:cursor", "ReadInt(%d)@%d left %d bits", w, off, b.BitsAvailableForRead())
					}
				} else if err == nil {
					c.Fail("ReadInt:past-end", "ReadInt(%d)@%d of %d bits returned %d without error", w, off, len(m), v)
				}
			}
			// ReadLimUint(n) reads bits.Len(n) bits
			if w <= 64 {
				b := bs
				var n uint64 = 0
				if w > 0 {
					n = 1<<uint(w-1) | 1
					if w == 1 {
						n = 1
					}
				}
				if n <= 1<<62 {
					v, err := b.ReadLimUint(int(n))
					wl := mbits.Len64(n)
					if off+wl <= len(m) {
						want := m[off : off+wl].Uint().Uint64()
						if err != nil || uint64(v) != want {
							c.Fail("ReadLimUint:value", "ReadLimUint(%d)@%d = %d,%v want %d (%d bits)", n, off, v, err, want, wl)
						}
					} else if err == nil {
						c.Fail("ReadLimUint:past-end", "ReadLimUint(%d)@%d returned data past the end", n, off)
					}
				}
			}
		})
		c.Outcome(outc)
	})

	// (a2) slice readers, every (offset, n)
	add("read-slice-grid", 0, func(c *enum.Ctx) {
		k := c.ChooseFree(2)
		m, bs0 := src(k)
		off := c.ChooseFree(len(m) + 1)
		avail := len(m) - off
		var n int
		if r.Quick() {
			// 0..72 plus the three lengths around the end
			i := c.ChooseFree(76)
			switch {
			case i <= 72:
				n = i
			default:
				n = avail + (i - 74) // avail-1, avail, avail+1
			}
			if n < 0 {
				c.Skip()
				return
			}
		} else {
			n = c.ChooseFree(avail + 2)
		}
		c.Case([]byte(fmt.Sprintf("rs/%d/%d/%d", k, off, n)), off%8 != 0 || n%8 != 0)
		c.Sample(map[string]any{"op": "ReadBits/ReadBytes/ReadByte/Skip/ReadBit", "len": len(m), "offset": off, "n": n})
		outc := "err"
		c.Try("panic:read-slice", func() {
			bs := bs0
			if err := bs.Skip(off); err != nil {
				c.Fail("skip", "Skip(%d): %v", off, err)
				return
			}
			{ // ReadBits
				b := bs
				got, err := b.ReadBits(n)
				if n <= avail {
					outc = "ok"
					if err != nil {
						c.Fail("ReadBits:err", "ReadBits(%d)@%d: %v", n, off, err)
					} else {
						gb := readAll(got)
						if !gb.Equal(m[off : off+n]) {
							c.Fail("ReadBits:value", "ReadBits(%d)@%d returned %s want %s", n, off, short(gb.String()), short(m[off:off+n].String()))
						}
						if b.BitsAvailableForRead() != avail-n {
							c.Fail("ReadBits:cursor", "ReadBits(%d)@%d left %d", n, off, b.BitsAvailableForRead())
						}
						if off < 16 || n < 40 {
							want := m[off : off+n].FiftHex()
							if h := got.ToFiftHex(); h != want {
								c.Fail("ReadBits:fifthex", "ToFiftHex of ReadBits(%d)@%d = %s want %s", n, off, short(h), short(want))
							}
							if s := got.BinaryString(); s != m[off:off+n].String() {
								c.Fail("ReadBits:binstr", "BinaryString of ReadBits(%d)@%d = %s", n, off, short(s))
							}
						}
					}
				} else if err == nil {
					c.Fail("ReadBits:past-end", "ReadBits(%d)@%d with %d available returned data", n, off, avail)
				}
			}
			if n <= 130 { // ReadBytes(n bytes)
				b := bs
				got, err := b.ReadBytes(n)
				if n*8 <= avail {
					want := m[off : off+8*n].Bytes()
					if err != nil || string(got) != string(want) {
						c.Fail("ReadBytes:value", "ReadBytes(%d)@%d = %x,%v want %x", n, off, got, err, want)
					}
					if b.BitsAvailableForRead() != avail-8*n {
						c.Fail("ReadBytes:cursor", "ReadBytes(%d)@%d left %d", n, off, b.BitsAvailableForRead())
					}
				} else if err == nil {
					c.Fail("ReadBytes:past-end", "ReadBytes(%d)@%d with %d bits available returned data", n, off, avail)
				}
			}
			if n == 8 { // ReadByte
				b := bs
				got, err := b.ReadByte()
				if avail >= 8 {
					want := m[off : off+8].Bytes()[0]
					if err != nil || got != want {
						c.Fail("ReadByte:value", "ReadByte@%d = %x,%v want %x", off, got, err, want)
					}
				} else if err == nil {
					c.Fail("ReadByte:past-end", "ReadByte@%d with %d bits available returned data", off, avail)
				}
			}
			{ // Skip(n) then ReadBit
				b := bs
				err := b.Skip(n)
				if n <= avail {
					if err != nil {
						c.Fail("Skip:err", "Skip(%d)@%d: %v", n, off, err)
					} else {
						bit, err := b.ReadBit()
						if n < avail {
							if err != nil || bit != m[off+n] {
								c.Fail("ReadBit:value", "ReadBit@%d = %v,%v", off+n, bit, err)
							}
						} else if err == nil {
							c.Fail("ReadBit:past-end", "ReadBit at the end returned data")
						}
					}
				} else if err == nil {
					c.Fail("Skip:past-end", "Skip(%d)@%d with %d available succeeded", n, off, avail)
				}
			}
			if n == 0 { // ReadRemainingBits, ReadUnary
				b := bs
				got := b.ReadRemainingBits()
				if gb := readAll(got); !gb.Equal(m[off:]) {
					c.Fail("ReadRemainingBits:value", "ReadRemainingBits@%d wrong", off)
				}
				if b.BitsAvailableForRead() != 0 {
					c.Fail("ReadRemainingBits:cursor", "ReadRemainingBits@%d left %d", off, b.BitsAvailableForRead())
				}
				b = bs
				u, err := b.ReadUnary()
				ones := 0
				for off+ones < len(m) && m[off+ones] {
					ones++
				}
				if off+ones < len(m) {
					if err != nil || int(u) != ones {
						c.Fail("ReadUnary:value", "ReadUnary@%d = %d,%v want %d", off, u, err, ones)
					}
				} else if err == nil {
					c.Fail("ReadUnary:past-end", "ReadUnary@%d without terminating zero returned %d", off, u)
				}
			}
		})
		c.Outcome(outc)
	})

	// (a3) big integer readers
	add("read-big-grid", 0, func(c *enum.Ctx) {
		k := c.ChooseFree(4) // source pattern: two pseudo patterns, all ones, alternating
		off := c.ChooseFree(16)
		w := c.ChooseFree(258) // 0..257
		total := 300
		m := rb.Pattern(seed*7+k, total)
		if k >= 2 {
			m = rb.Pattern(k, total)
		}
		c.Case([]byte(fmt.Sprintf("rbig/%d/%d/%d", k, off, w)), off%8 != 0 || w%8 != 0)
		c.Sample(map[string]any{"op": "ReadBigUint/ReadBigInt", "offset": off, "width": w, "pattern": k})
		c.Try("panic:read-big", func() {
			for _, total := range []int{300, off + w, off + w - 1} {
				if total < off {
					continue
				}
				mm := m[:total]
				bs := mkBS(mm, 1023)
				_ = bs.Skip(off)
				fits := off+w <= total
				b := bs
				v, err := b.ReadBigUint(w)
				if fits {
					want := mm[off : off+w].Uint()
					if err != nil || v == nil || v.Cmp(want) != 0 {
						c.Fail(fmt.Sprintf("ReadBigUint:value:w%%8=%d", w%8), "ReadBigUint(%d)@%d = %v,%v want %v", w, off, v, err, want)
					} else if b.BitsAvailableForRead() != total-off-w {
						c.Fail("ReadBigUint:cursor", "ReadBigUint(%d)@%d left %d", w, off, b.BitsAvailableForRead())
					}
				} else if err == nil {
					c.Fail("ReadBigUint:past-end", "ReadBigUint(%d)@%d of %d bits returned %v", w, off, total, v)
				}
				if w >= 1 {
					b = bs
					v, err = b.ReadBigInt(w)
					if fits {
						want := mm[off : off+w].Int()
						if err != nil || v == nil || v.Cmp(want) != 0 {
							c.Fail(fmt.Sprintf("ReadBigInt:value:(w-1)%%8=%d", (w-1)%8), "ReadBigInt(%d)@%d = %v,%v want %v", w, off, v, err, want)
						}
					} else if err == nil {
						c.Fail("ReadBigInt:past-end", "ReadBigInt(%d)@%d of %d bits returned %v", w, off, total, v)
					}
				}
			}
		})
	})

	// (a4) writers: every (start offset, width, boundary value)
	add("write-grid", 0, func(c *enum.Ctx) {
		start := c.ChooseFree(17)
		w := c.ChooseFree(258)
		vi := c.ChooseFree(8)
		capv := []int{1023, start + w, start + w - 1}[c.ChooseFree(3)]
		if capv < start {
			c.Skip()
			return
		}
		c.Case([]byte(fmt.Sprintf("w/%d/%d/%d/%d", start, w, vi, capv)), start%8 != 0 || w%8 != 0)
		c.Sample(map[string]any{"op": "Write*", "start": start, "width": w, "value#": vi, "cap": capv})
		pre := rb.Pattern(seed+3, start)
		// boundary values for width w
		uval := func() *big.Int {
			if w == 0 {
				return big.NewInt(0)
			}
			max := new(big.Int).Sub(big2(uint(w)), big.NewInt(1))
			switch vi {
			case 0:
				return big.NewInt(0)
			case 1:
				return max
			case 2:
				return big.NewInt(1)
			case 3:
				return big2(uint(w - 1))
			case 4:
				return new(big.Int).Sub(max, big.NewInt(1))
			case 5:
				return new(big.Int).Sub(big2(uint(w-1)), big.NewInt(1))
			default:
				return rb.Pattern(seed+vi, w).Uint()
			}
		}()
		ival := func() *big.Int {
			if w == 0 {
				return big.NewInt(0)
			}
			half := big2(uint(w - 1))
			switch vi {
			case 0:
				return big.NewInt(0)
			case 1:
				return big.NewInt(-1)
			case 2:
				return new(big.Int).Neg(half)
			case 3:
				return new(big.Int).Sub(half, big.NewInt(1))
			case 4:
				if w >= 2 {
					return big.NewInt(1)
				}
				return big.NewInt(0)
			case 5:
				return new(big.Int).Add(new(big.Int).Neg(half), big.NewInt(boolInt64(w >= 2)))
			default:
				return rb.Pattern(seed+vi, w).Int()
			}
		}()
		check := func(name string, enc rb.Bits, f func(bs *boc.BitString) error) {
			bs := mkBS(pre, capv)
			err := f(&bs)
			got := readAll(bs)
			if start+len(enc) <= capv {
				want := append(append(rb.Bits{}, pre...), enc...)
				if err != nil {
					c.Fail(name+":err", "%s(width %d, start %d, cap %d): unexpected error %v", name, w, start, capv, err)
				} else if !got.Equal(want) {
					c.Fail(name+":value", "%s(width %d, value %v/%v, start %d): wrote %s want %s", name, w, uval, ival, start, short(got.String()), short(want.String()))
				}
			} else {
				if err == nil {
					c.Fail(name+":overflow", "%s(width %d) at %d with capacity %d succeeded", name, w, start, capv)
				}
				if len(got) < start || !got[:start].Equal(pre) {
					c.Fail(name+":overflow-prefix", "%s overflow damaged previously written data", name)
				}
				if len(got) > capv {
					c.Fail(name+":overflow-len", "%s overflow: length %d beyond capacity %d", name, len(got), capv)
				}
			}
		}
		c.Try("panic:write", func() {
			if w <= 64 {
				check("WriteUint", rb.FromUint(uval, w), func(bs *boc.BitString) error { return bs.WriteUint(uval.Uint64(), w) })
			}
			if w >= 1 && w <= 64 {
				check("WriteInt", rb.FromInt(ival, w), func(bs *boc.BitString) error { return bs.WriteInt(ival.Int64(), w) })
			}
			if w >= 1 {
				// the numbers belong to the caller: a write reads them, it does not change them (they are written again below)
				uKeep, iKeep := new(big.Int).Set(uval), new(big.Int).Set(ival)
				check("WriteBigUint", rb.FromUint(uval, w), func(bs *boc.BitString) error { return bs.WriteBigUint(uval, w) })
				check("WriteBigInt", rb.FromInt(ival, w), func(bs *boc.BitString) error { return bs.WriteBigInt(ival, w) })
				if uval.Cmp(uKeep) != 0 {
					c.Fail("WriteBigUint:argument-changed", "WriteBigUint(%v, %d) left its argument as %v", uKeep, w, uval)
					uval.Set(uKeep)
				}
				if ival.Cmp(iKeep) != 0 {
					c.Fail("WriteBigInt:argument-changed", "WriteBigInt(%v, %d) left its argument as %v", iKeep, w, ival)
					ival.Set(iKeep)
				}
			}
			if w%8 == 0 && w/8 <= 16 {
				data := rb.Pattern(seed+vi, w).Bytes()
				check("WriteBytes", rb.FromBytes(data, w), func(bs *boc.BitString) error { return bs.WriteBytes(data) })
			}
			if w <= 70 {
				enc := make(rb.Bits, w+1)
				for i := 0; i < w; i++ {
					enc[i] = true
				}
				check("WriteUnary", enc, func(bs *boc.BitString) error { return bs.WriteUnary(uint(w)) })
			}
			if w <= 62 && vi < 4 {
				// #<= n with n having exactly w significant bits
				var n uint64
				if w > 0 {
					n = 1 << uint(w-1)
					if vi%2 == 1 {
						n = 1<<uint(w) - 1
					}
				}
				val := n
				if vi >= 2 {
					val = n / 2
				}
				check("WriteLimUint", rb.FromUint(new(big.Int).SetUint64(val), mbits.Len64(n)), func(bs *boc.BitString) error { return bs.WriteLimUint(int(val), int(n)) })
			}
			{
				sub := rb.Pattern(seed+vi, w)
				check("WriteBitString", sub, func(bs *boc.BitString) error { return bs.WriteBitString(mkBS(sub, w)) })
				if w <= 40 {
					check("WriteBitArray", sub, func(bs *boc.BitString) error { return bs.WriteBitArray([]bool(sub)) })
				}
				// a bit string obtained from a read (possibly aligned fast path) written again
				srcm := rb.Pattern(seed+vi+1, w+11)
				for _, o := range []int{0, 3} {
					sbs := mkBS(srcm, w+11)
					_ = sbs.Skip(o)
					part, err := sbs.ReadBits(w)
					if err == nil {
						check("WriteBitString(ReadBits)", srcm[o:o+w], func(bs *boc.BitString) error { return bs.WriteBitString(part) })
					}
				}
			}
		})
	})

	// (b) operation sequences
	wd, rd := r.Pick(2, 3), 2
	add("op-sequences", 0, func(c *enum.Ctx) { seqHarness(c, seed, wd, rd) })
	if !r.Quick() {
		add("op-sequences-deep-read", 0, func(c *enum.Ctx) { seqHarness(c, seed, 2, 3) })
	}

	// (d) cell reference slots
	add("cell-refs", 0, func(c *enum.Ctx) { refHarness(c, r.Pick(5, 6)) })

	// (e) Fift hex text form
	add("fift-hex-all-short", 0, func(c *enum.Ctx) {
		n := c.ChooseFree(r.Pick(12, 14) + 1)
		m := make(rb.Bits, n)
		for i := 0; i < n; i++ {
			m[i] = c.ChooseFree(2) == 1
		}
		c.Case([]byte("fh/"+m.String()), n%4 != 0)
		c.Sample(map[string]any{"bits": m.String(), "fift": m.FiftHex()})
		fiftCheck(c, m)
	})
	add("fift-hex-all-lengths", 0, func(c *enum.Ctx) {
		k := c.ChooseFree(4)
		n := c.ChooseFree(1024)
		m := rb.Pattern(seed*5+k, n)
		if k >= 2 {
			m = rb.Pattern(k, n)
		}
		c.Case([]byte(fmt.Sprintf("fhl/%d/%d", k, n)), n%4 != 0)
		c.Sample(map[string]any{"pattern": k, "len": n})
		fiftCheck(c, m)
	})

	// (f) bit-length table behind #<= n, observed through WriteLimUint/ReadLimUint
	add("limuint-bitlen", 0, func(c *enum.Ctx) {
		hi := c.ChooseFree(1 << 10) // blocks of 1024 values: all n < 2^20
		c.Case([]byte(fmt.Sprintf("lim/%d", hi)), true)
		c.Sample(map[string]any{"n_from": hi << 10, "n_to": hi<<10 + 1023})
		c.Try("panic:limuint", func() {
			for lo := 0; lo < 1024; lo++ {
				limCheck(c, uint64(hi<<10+lo))
			}
			if hi < 63 {
				for _, n := range []uint64{1 << uint(hi), 1<<uint(hi) - 1, 1<<uint(hi) + 1} {
					if n < 1<<62 {
						limCheck(c, n)
					}
				}
			}
		})
	})
	return hs
}

func limCheck(c *enum.Ctx, n uint64) {
	bs := boc.NewBitString(128)
	if err := bs.WriteLimUint(int(n), int(n)); err != nil {
		c.Fail("WriteLimUint:err", "WriteLimUint(%d,%d): %v", n, n, err)
		return
	}
	if bs.GetWriteCursor() != mbits.Len64(n) {
		c.Fail("WriteLimUint:width", "#<= %d written in %d bits, want %d", n, bs.GetWriteCursor(), mbits.Len64(n))
		return
	}
	v, err := bs.ReadLimUint(int(n))
	if err != nil || uint64(v) != n {
		c.Fail("ReadLimUint:roundtrip", "#<= %d read back %d,%v", n, v, err)
	}
}

func boolInt64(b bool) int64 {
	if b {
		return 1
	}
	return 0
}

func short(s string) string {
	if len(s) > 80 {
		return s[:40] + "…" + s[len(s)-36:] + fmt.Sprintf("(%d)", len(s))
	}
	return s
}

func fiftCheck(c *enum.Ctx, m rb.Bits) {
	c.Try("panic:fifthex", func() {
		bs := mkBS(m, len(m))
		want := m.FiftHex()
		got := bs.ToFiftHex()
		if got != want {
			c.Fail("ToFiftHex:value", "ToFiftHex(%s) = %s want %s", short(m.String()), short(got), short(want))
			return
		}
		// with spare capacity (cell-like)
		if len(m) <= 1023 {
			bs2 := mkBS(m, 1023)
			if g := bs2.ToFiftHex(); g != want {
				c.Fail("ToFiftHex:cap1023", "ToFiftHex with capacity 1023 = %s want %s", short(g), short(want))
			}
		}
		for _, text := range []string{want, strings.ToLower(want)} {
			back, err := boc.BitStringFromFiftHex(text)
			if err != nil {
				c.Fail("FromFiftHex:err", "BitStringFromFiftHex(%s): %v", short(text), err)
				continue
			}
			if gb := readAll(*back); !gb.Equal(m) {
				c.Fail("FromFiftHex:value", "BitStringFromFiftHex(%s) = %s want %s", short(text), short(gb.String()), short(m.String()))
			}
		}
	})
}

// ---------------------------------------------------------------------------------------------
// sequences

type model struct {
	bits rb.Bits
	cap  int
	cur  int
}

type sut struct {
	bs   *boc.BitString
	cell *boc.Cell // when non-nil the operation goes through the Cell wrapper where one exists
}

type wop struct {
	name string
	enc  func(seed int) rb.Bits // bits appended
	do   func(s *sut, seed int) error
	grow bool // Append: never overflows
}

func patt(seed, k, n int) rb.Bits { return rb.Pattern(seed*11+k, n) }

func writeOps() []wop {
	var ops []wop
	u := func(w int, vk int) {
		ops = append(ops, wop{name: fmt.Sprintf("WriteUint(p%d,%d)", vk, w),
			enc: func(seed int) rb.Bits { return valBits(seed, vk, w) },
			do: func(s *sut, seed int) error {
				v := valBits(seed, vk, w).Uint().Uint64()
				if s.cell != nil {
					return s.cell.WriteUint(v, w)
				}
				return s.bs.WriteUint(v, w)
			}})
	}
	for _, w := range []int{0, 1, 7, 8, 9, 56, 57, 64} {
		u(w, 0)
	}
	u(33, 1)
	i := func(w int, vk int) {
		ops = append(ops, wop{name: fmt.Sprintf("WriteInt(p%d,%d)", vk, w),
			enc: func(seed int) rb.Bits { return valBits(seed, vk, w) },
			do: func(s *sut, seed int) error {
				v := valBits(seed, vk, w).Int().Int64()
				if s.cell != nil {
					return s.cell.WriteInt(v, w)
				}
				return s.bs.WriteInt(v, w)
			}})
	}
	i(1, 1)
	i(9, 1)
	i(64, 1)
	ops = append(ops, wop{name: "WriteBit(1)", enc: func(int) rb.Bits { return rb.Bits{true} }, do: func(s *sut, _ int) error {
		if s.cell != nil {
			return s.cell.WriteBit(true)
		}
		return s.bs.WriteBit(true)
	}})
	ops = append(ops, wop{name: "WriteBit(0)", enc: func(int) rb.Bits { return rb.Bits{false} }, do: func(s *sut, _ int) error { return s.bs.WriteBit(false) }})
	for _, w := range []int{5, 257} {
		w := w
		ops = append(ops, wop{name: fmt.Sprintf("WriteBigUint(%d)", w), enc: func(seed int) rb.Bits { return valBits(seed, 1, w) },
			do: func(s *sut, seed int) error {
				v := valBits(seed, 1, w).Uint()
				if s.cell != nil {
					return s.cell.WriteBigUint(v, w)
				}
				return s.bs.WriteBigUint(v, w)
			}})
		ops = append(ops, wop{name: fmt.Sprintf("WriteBigInt(%d)", w), enc: func(seed int) rb.Bits { return valBits(seed, 1, w) },
			do: func(s *sut, seed int) error {
				v := valBits(seed, 1, w).Int()
				if s.cell != nil {
					return s.cell.WriteBigInt(v, w)
				}
				return s.bs.WriteBigInt(v, w)
			}})
	}
	ops = append(ops, wop{name: "WriteBytes(3)", enc: func(seed int) rb.Bits { return valBits(seed, 2, 24) }, do: func(s *sut, seed int) error {
		d := valBits(seed, 2, 24).Bytes()
		if s.cell != nil {
			return s.cell.WriteBytes(d)
		}
		return s.bs.WriteBytes(d)
	}})
	ops = append(ops, wop{name: "WriteByte", enc: func(seed int) rb.Bits { return valBits(seed, 3, 8) }, do: func(s *sut, seed int) error {
		return s.bs.WriteByte(valBits(seed, 3, 8).Bytes()[0])
	}})
	ops = append(ops, wop{name: "WriteUnary(3)", enc: func(int) rb.Bits { return rb.Bits{true, true, true, false} }, do: func(s *sut, _ int) error {
		if s.cell != nil {
			return s.cell.WriteUnary(3)
		}
		return s.bs.WriteUnary(3)
	}})
	ops = append(ops, wop{name: "WriteLimUint(5,6)", enc: func(int) rb.Bits { return rb.Bits{true, false, true} }, do: func(s *sut, _ int) error {
		if s.cell != nil {
			return s.cell.WriteLimUint(5, 6)
		}
		return s.bs.WriteLimUint(5, 6)
	}})
	ops = append(ops, wop{name: "WriteBitString(13)", enc: func(seed int) rb.Bits { return valBits(seed, 4, 13) }, do: func(s *sut, seed int) error {
		b := mkBS(valBits(seed, 4, 13), 13)
		if s.cell != nil {
			return s.cell.WriteBitString(b)
		}
		return s.bs.WriteBitString(b)
	}})
	ops = append(ops, wop{name: "WriteBitString(13,source read before)", enc: func(seed int) rb.Bits { return valBits(seed, 4, 13) }, do: func(s *sut, seed int) error {
		b := mkBS(valBits(seed, 4, 13), 13)
		_, _ = b.ReadBits(5) // a consumer looked at the first bits of the nested string; the string is still the same value
		if s.cell != nil {
			return s.cell.WriteBitString(b)
		}
		return s.bs.WriteBitString(b)
	}})
	ops = append(ops, wop{name: "Append(21)", grow: true, enc: func(seed int) rb.Bits { return valBits(seed, 5, 21) }, do: func(s *sut, seed int) error {
		s.bs.Append(mkBS(valBits(seed, 5, 21), 40))
		return nil
	}})
	return ops
}

func valBits(seed, k, w int) rb.Bits {
	switch k {
	case 0:
		b := make(rb.Bits, w) // 1000…01
		if w > 0 {
			b[0] = true
			b[w-1] = true
		}
		return b
	default:
		b := patt(seed, k, w)
		if w > 0 {
			b[0] = true // negative for signed, top bit set for unsigned
		}
		return b
	}
}

type rop struct {
	name string
	// run performs the op on the sut, checks against the model, returns false if the sequence must end (error path)
	run func(c *enum.Ctx, s *sut, m *model) bool
}

func readOps() []rop {
	var ops []rop
	num := func(name string, w int, f func(s *sut) (*big.Int, error), signed bool, peek bool) {
		ops = append(ops, rop{name: name, run: func(c *enum.Ctx, s *sut, m *model) bool {
			v, err := f(s)
			if m.cur+w <= len(m.bits) {
				var want *big.Int
				if signed {
					want = m.bits[m.cur : m.cur+w].Int()
				} else {
					want = m.bits[m.cur : m.cur+w].Uint()
				}
				if err != nil || v == nil || v.Cmp(want) != 0 {
					c.Fail("seq:"+name+":value", "%s at cursor %d = %v,%v want %v", name, m.cur, v, err, want)
					return false
				}
				if !peek {
					m.cur += w
				}
				return true
			}
			if err == nil {
				c.Fail("seq:"+name+":past-end", "%s at cursor %d of %d bits returned %v", name, m.cur, len(m.bits), v)
			}
			return false
		}})
	}
	u64 := func(v uint64, err error) (*big.Int, error) { return new(big.Int).SetUint64(v), err }
	i64 := func(v int64, err error) (*big.Int, error) { return big.NewInt(v), err }
	for _, w := range []int{0, 1, 7, 8, 9, 32, 57, 64} {
		w := w
		num(fmt.Sprintf("ReadUint(%d)", w), w, func(s *sut) (*big.Int, error) {
			if s.cell != nil {
				return u64(s.cell.ReadUint(w))
			}
			return u64(s.bs.ReadUint(w))
		}, false, false)
	}
	num("PickUint(12)", 12, func(s *sut) (*big.Int, error) {
		if s.cell != nil {
			return u64(s.cell.PickUint(12))
		}
		return u64(s.bs.PickUint(12))
	}, false, true)
	for _, w := range []int{1, 9, 64} {
		w := w
		num(fmt.Sprintf("ReadInt(%d)", w), w, func(s *sut) (*big.Int, error) {
			if s.cell != nil {
				return i64(s.cell.ReadInt(w))
			}
			return i64(s.bs.ReadInt(w))
		}, true, false)
	}
	num("ReadBigUint(5)", 5, func(s *sut) (*big.Int, error) {
		if s.cell != nil {
			return s.cell.ReadBigUint(5)
		}
		return s.bs.ReadBigUint(5)
	}, false, false)
	num("ReadBigUint(257)", 257, func(s *sut) (*big.Int, error) { return s.bs.ReadBigUint(257) }, false, false)
	num("ReadBigInt(257)", 257, func(s *sut) (*big.Int, error) {
		if s.cell != nil {
			return s.cell.ReadBigInt(257)
		}
		return s.bs.ReadBigInt(257)
	}, true, false)
	num("ReadByte", 8, func(s *sut) (*big.Int, error) {
		b, err := s.bs.ReadByte()
		return big.NewInt(int64(b)), err
	}, false, false)
	num("ReadBytes(3)", 24, func(s *sut) (*big.Int, error) {
		var b []byte
		var err error
		if s.cell != nil {
			b, err = s.cell.ReadBytes(3)
		} else {
			b, err = s.bs.ReadBytes(3)
		}
		return new(big.Int).SetBytes(b), err
	}, false, false)
	num("ReadBits(13)", 13, func(s *sut) (*big.Int, error) {
		var b boc.BitString
		var err error
		if s.cell != nil {
			b, err = s.cell.ReadBits(13)
		} else {
			b, err = s.bs.ReadBits(13)
		}
		if err != nil {
			return nil, err
		}
		if b.GetWriteCursor() != 13 {
			return big.NewInt(-1), nil
		}
		return readAll(b).Uint(), nil
	}, false, false)
	// what a read hands out must be independent of its source: the derived object is written to afterwards,
	// and everything read from the source later (and the whole-content check at the end) must be unaffected
	for _, w := range []int{8, 16} {
		w := w
		num(fmt.Sprintf("ReadBits(%d)+Append", w), w, func(s *sut) (*big.Int, error) {
			var b boc.BitString
			var err error
			if s.cell != nil {
				b, err = s.cell.ReadBits(w)
			} else {
				b, err = s.bs.ReadBits(w)
			}
			if err != nil {
				return nil, err
			}
			v := readAll(b).Uint()
			b.Append(mkBS(rb.Pattern(77, 24), 24))
			if got := readAll(b); len(got) != w+24 || got[:w].Uint().Cmp(v) != 0 {
				return big.NewInt(-1), nil
			}
			return v, nil
		}, false, false)
	}
	// (the []byte returned by ReadBytes may alias the source on the aligned path: overwriting it is the caller's
	// business, not an operation of the API, and is not judged)
	num("ReadBit", 1, func(s *sut) (*big.Int, error) {
		var b bool
		var err error
		if s.cell != nil {
			b, err = s.cell.ReadBit()
		} else {
			b, err = s.bs.ReadBit()
		}
		return big.NewInt(boolInt64(b)), err
	}, false, false)
	ops = append(ops, rop{name: "Skip(5)", run: func(c *enum.Ctx, s *sut, m *model) bool {
		var err error
		if s.cell != nil {
			err = s.cell.Skip(5)
		} else {
			err = s.bs.Skip(5)
		}
		if m.cur+5 <= len(m.bits) {
			if err != nil {
				c.Fail("seq:Skip:err", "Skip(5) at %d: %v", m.cur, err)
				return false
			}
			m.cur += 5
			return true
		}
		if err == nil {
			c.Fail("seq:Skip:past-end", "Skip(5) at %d of %d succeeded", m.cur, len(m.bits))
		}
		return false
	}})
	ops = append(ops, rop{name: "ReadUnary", run: func(c *enum.Ctx, s *sut, m *model) bool {
		var v uint
		var err error
		if s.cell != nil {
			v, err = s.cell.ReadUnary()
		} else {
			v, err = s.bs.ReadUnary()
		}
		n := 0
		for m.cur+n < len(m.bits) && m.bits[m.cur+n] {
			n++
		}
		if m.cur+n < len(m.bits) {
			if err != nil || int(v) != n {
				c.Fail("seq:ReadUnary:value", "ReadUnary at %d = %d,%v want %d", m.cur, v, err, n)
				return false
			}
			m.cur += n + 1
			return true
		}
		if err == nil {
			c.Fail("seq:ReadUnary:past-end", "ReadUnary at %d without zero returned %d", m.cur, v)
		}
		return false
	}})
	ops = append(ops, rop{name: "ResetCounter", run: func(c *enum.Ctx, s *sut, m *model) bool {
		if s.cell != nil {
			s.cell.ResetCounters()
		} else {
			s.bs.ResetCounter()
		}
		m.cur = 0
		return true
	}})
	ops = append(ops, rop{name: "Copy", run: func(c *enum.Ctx, s *sut, m *model) bool {
		if s.cell != nil {
			return true
		}
		cp := s.bs.Copy()
		*s.bs = cp
		m.cur = 0
		return true
	}})
	ops = append(ops, rop{name: "ReadRemainingBits", run: func(c *enum.Ctx, s *sut, m *model) bool {
		var b boc.BitString
		if s.cell != nil {
			b = s.cell.ReadRemainingBits()
		} else {
			b = s.bs.ReadRemainingBits()
		}
		if gb := readAll(b); !gb.Equal(m.bits[m.cur:]) {
			c.Fail("seq:ReadRemainingBits:value", "ReadRemainingBits at %d = %s want %s", m.cur, short(gb.String()), short(m.bits[m.cur:].String()))
			return false
		}
		m.cur = len(m.bits)
		return true
	}})
	return ops
}

var wOps = writeOps()
var rOps = readOps()

func seqHarness(c *enum.Ctx, seed, wDepth, rDepth int) {
	caps := []int{1023, 0, 1, 7, 8, 9, 64, 300}
	ci := c.ChooseFree(len(caps) + 1)
	viaCell := ci == len(caps)
	capv := 1023
	if !viaCell {
		capv = caps[ci]
	}
	var s sut
	if viaCell {
		s.cell = boc.NewCell()
	} else {
		bs := boc.NewBitString(capv)
		s.bs = &bs
	}
	m := &model{cap: capv}
	key := fmt.Sprintf("seq/%d", ci)
	steps := []string{}
	sync := func() {
		if viaCell {
			b := s.cell.RawBitString()
			s.bs = &b
		}
	}
	sync()
	ok := true
	nw := 0
	c.Try("panic:seq", func() {
		for d := 0; d < wDepth && ok; d++ {
			k := c.ChooseFree(len(wOps) + 1)
			if k == 0 {
				break
			}
			op := wOps[k-1]
			if viaCell && (op.grow) {
				c.Skip()
				return
			}
			nw++
			key += "/" + op.name
			steps = append(steps, op.name)
			enc := op.enc(seed)
			if viaCell {
				s.bs = nil
				tmp := sut{cell: s.cell}
				b := s.cell.RawBitString()
				tmp.bs = &b
				// ops without a Cell wrapper are skipped in cell mode
				if !hasCellWrapper(op.name) {
					c.Skip()
					return
				}
				err := op.do(&sut{cell: s.cell}, seed)
				ok = checkWrite(c, op, enc, err, m, func() rb.Bits { return readAll(s.cell.RawBitString()) }, s.cell.BitsAvailableForWrite)
				continue
			}
			err := op.do(&sut{bs: s.bs}, seed)
			ok = checkWrite(c, op, enc, err, m, func() rb.Bits { return readAll(*s.bs) }, s.bs.BitsAvailableForWrite)
		}
		if !ok || c.Failed() {
			return
		}
		if viaCell {
			s.cell.ResetCounters()
		} else {
			s.bs.ResetCounter()
		}
		for d := 0; d < rDepth; d++ {
			k := c.ChooseFree(len(rOps) + 1)
			if k == 0 {
				break
			}
			op := rOps[k-1]
			key += "/" + op.name
			steps = append(steps, op.name)
			var su sut
			if viaCell {
				su = sut{cell: s.cell}
				if !hasCellWrapper(op.name) {
					c.Skip()
					return
				}
			} else {
				su = sut{bs: s.bs}
			}
			if !op.run(c, &su, m) {
				// the read failed (or a failure was reported): a failed read returns an error "instead of inventing
				// data" - and the bits that are there must still be readable as written, from the same position
				if !c.Failed() && op.name != "ReadUnary" { // (a unary read is incremental by nature: it has to consume to find its end)
					var avail int
					if viaCell {
						avail = s.cell.BitsAvailableForRead()
					} else {
						avail = s.bs.BitsAvailableForRead()
					}
					if avail != len(m.bits)-m.cur {
						c.Fail("seq:"+op.name+":cursor-after-failed-read", "after the failing %s (ops %v): %d bits available, %d were unread before the call", op.name, steps, avail, len(m.bits)-m.cur)
					}
				}
				break
			}
			var avail int
			if viaCell {
				avail = s.cell.BitsAvailableForRead()
			} else {
				avail = s.bs.BitsAvailableForRead()
			}
			if avail != len(m.bits)-m.cur {
				c.Fail("seq:"+op.name+":cursor", "after %v: %d bits available, model says %d", steps, avail, len(m.bits)-m.cur)
				break
			}
		}
		// whatever was read and whatever was done with the results, the content is what was written
		if !c.Failed() {
			var all rb.Bits
			if viaCell {
				all = readAll(s.cell.RawBitString())
			} else {
				all = readAll(*s.bs)
			}
			if !all.Equal(m.bits) {
				c.Fail("seq:content-changed-by-reads", "after %v the content is %s, written was %s", steps, short(all.String()), short(m.bits.String()))
			}
		}
	})
	c.Case([]byte(key), len(steps) >= 2)
	c.Sample(map[string]any{"capacity": capv, "via_cell": viaCell, "ops": steps})
	if c.Failed() {
		c.Label("capacity=%d viaCell=%v ops=%v", capv, viaCell, steps)
	}
}

func hasCellWrapper(name string) bool {
	for _, p := range []string{"WriteByte", "Append", "ReadByte", "ReadBigUint(257)", "Copy", "WriteBit(0)"} {
		if name == p {
			return false
		}
	}
	return true
}

func checkWrite(c *enum.Ctx, op wop, enc rb.Bits, err error, m *model, content func() rb.Bits, availW func() int) bool {
	if op.grow {
		need := len(enc) - (m.cap - len(m.bits))
		if need > 0 {
			m.cap += need
		}
	}
	if len(m.bits)+len(enc) <= m.cap {
		if err != nil {
			c.Fail("seq:"+op.name+":err", "%s with %d of %d bits used: %v", op.name, len(m.bits), m.cap, err)
			return false
		}
		m.bits = append(m.bits, enc...)
		if got := content(); !got.Equal(m.bits) {
			c.Fail("seq:"+op.name+":value", "after %s content is %s want %s", op.name, short(got.String()), short(m.bits.String()))
			return false
		}
		if availW() != m.cap-len(m.bits) {
			c.Fail("seq:"+op.name+":avail", "after %s BitsAvailableForWrite=%d want %d", op.name, availW(), m.cap-len(m.bits))
			return false
		}
		return true
	}
	if err == nil {
		c.Fail("seq:"+op.name+":overflow", "%s of %d bits with %d free succeeded", op.name, len(enc), m.cap-len(m.bits))
		return false
	}
	got := content()
	if len(got) < len(m.bits) || !got[:len(m.bits)].Equal(m.bits) {
		c.Fail("seq:"+op.name+":overflow-prefix", "failed %s damaged previously written data", op.name)
	}
	if len(got) > m.cap {
		c.Fail("seq:"+op.name+":overflow-len", "failed %s left length %d > capacity %d", op.name, len(got), m.cap)
	}
	return false
}

// ---------------------------------------------------------------------------------------------
// reference slots

func refHarness(c *enum.Ctx, depth int) {
	cell := boc.NewCell()
	var refs []*boc.Cell
	cur := 0
	var steps []string
	pool := []*boc.Cell{boc.NewCell(), boc.NewCell()}
	pool[0].WriteUint(0xA, 4)
	pool[1].WriteUint(0x5B, 8)
	c.Try("panic:refs", func() {
		for d := 0; d < depth; d++ {
			k := c.ChooseFree(7)
			if k == 0 {
				break
			}
			switch k {
			case 1, 2:
				steps = append(steps, fmt.Sprintf("AddRef(p%d)", k-1))
				err := cell.AddRef(pool[k-1])
				if len(refs) < 4 {
					if err != nil {
						c.Fail("AddRef:err", "AddRef #%d: %v", len(refs)+1, err)
						return
					}
					refs = append(refs, pool[k-1])
				} else if err == nil {
					c.Fail("AddRef:overflow", "fifth AddRef succeeded")
					return
				}
			case 3:
				steps = append(steps, "NewRef")
				n, err := cell.NewRef()
				if len(refs) < 4 {
					if err != nil || n == nil {
						c.Fail("NewRef:err", "NewRef #%d: %v", len(refs)+1, err)
						return
					}
					refs = append(refs, n)
				} else if err == nil {
					c.Fail("NewRef:overflow", "fifth NewRef succeeded")
					return
				}
			case 4:
				steps = append(steps, "NextRef")
				got, err := cell.NextRef()
				if cur < len(refs) {
					if err != nil || got != refs[cur] {
						c.Fail("NextRef:value", "NextRef #%d returned wrong cell (%v)", cur, err)
						return
					}
					cur++
				} else if err == nil {
					c.Fail("NextRef:past-end", "NextRef beyond %d refs returned a cell", len(refs))
					return
				}
			case 5:
				steps = append(steps, "ResetCounters")
				cell.ResetCounters()
				cur = 0
			case 6:
				steps = append(steps, "CopyRemaining")
				cp := cell.CopyRemaining()
				rr := cp.Refs()
				if len(rr) != len(refs)-cur {
					c.Fail("CopyRemaining:count", "CopyRemaining has %d refs want %d", len(rr), len(refs)-cur)
					return
				}
				for i := range rr {
					if rr[i] != refs[cur+i] {
						c.Fail("CopyRemaining:order", "CopyRemaining ref %d differs", i)
						return
					}
				}
			}
			if cell.RefsSize() != len(refs) || cell.RefsAvailableForRead() != len(refs)-cur {
				c.Fail("refs:count", "after %v: RefsSize=%d RefsAvailableForRead=%d want %d/%d", steps, cell.RefsSize(), cell.RefsAvailableForRead(), len(refs), len(refs)-cur)
				return
			}
			rr := cell.Refs()
			for i := range rr {
				if rr[i] != refs[i] {
					c.Fail("refs:order", "after %v: Refs()[%d] differs", steps, i)
					return
				}
			}
		}
	})
	c.Case([]byte("refs/"+strings.Join(steps, "/")), len(steps) >= 2)
	c.Sample(map[string]any{"ops": steps})
}
