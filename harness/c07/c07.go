// Package c07: parsing untrusted bag-of-cells bytes never crashes and yields sound cells.
package c07

import (
	"bytes"
	"encoding/base64"
	"encoding/binary"
	"encoding/hex"
	"fmt"
	"hash/crc32"
	"runtime/metrics"

	tb "github.com/tonkeeper/tongo/boc"

	"verif/fw"
	"verif/mc/enum"
	"verif/realdata"
	"verif/ref/bits"
	rboc "verif/ref/boc"
	"verif/ref/cell"
)

func init() {
	fw.Register(&fw.Property{
		ID: "C07",
		Rule: "inputs are (a) every truncation and every single-byte substitution (all 255 other values) of a seed corpus of conforming BOCs produced by the reference serialiser (all header variants) and by tongo itself, " +
			"(b) every truncation of the header region and evenly spaced truncations / every header-byte substitution of the real BOCs in the repo, (c) adversarial headers assembled field by field with up to D deviating fields " +
			"(magic, flag byte, widths, counts, sizes, root indices, descriptor bytes, reference targets, CRC, trailing bytes); each input is parsed in a crash-isolating worker process; " +
			"distinct = distinct input bytes; non-trivial = differs from a valid BOC",
		Assume: []string{
			"allocation bound checked: 4 KiB per input byte + 1 MiB per parse (measured with runtime/metrics in a single-threaded worker)",
			"worker processes run with RLIMIT_AS 12 GiB and a 96 MiB stack limit; a worker death or 120 s without progress is attributed to the journaled case",
			"on success the returned graph is walked by pointer (acyclic, <=1023 bits, <=4 refs, NextRef reaches every ref) before Hash/ToBoc/ToString are called; an error from those calls is accepted, a panic is not",
			"purely random bytes are represented by the all-values substitution grid and the adversarial header grammar (no sampling is used)",
		},
		Harnesses: harnesses,
	})
}

var allocSample = []metrics.Sample{{Name: "/gc/heap/allocs:bytes"}}

func allocBytes() uint64 {
	metrics.Read(allocSample)
	return allocSample[0].Value.Uint64()
}

// probe runs the parser on one input and applies the oracle.
func probe(c *enum.Ctx, in []byte, tag string, wrappers bool) string {
	if c.Dry() {
		return ""
	}
	outcome := "error"
	before := allocBytes()
	var roots []*tb.Cell
	var err error
	orig := append([]byte{}, in...)
	if c.Try("panic:DeserializeBoc:"+tag, func() { roots, err = tb.DeserializeBoc(in) }) {
		return "panic"
	}
	if !bytes.Equal(in, orig) {
		c.Fail("input-modified:"+tag, "DeserializeBoc changed the bytes it was given (%x became %x)", orig[:min(len(orig), 40)], in[:min(len(in), 40)])
		copy(in, orig)
	}
	after := allocBytes()
	if lim := uint64(4096*len(in) + 1<<20); after-before > lim {
		c.Fail("alloc:"+tag, "DeserializeBoc allocated %d bytes for a %d byte input (limit %d)", after-before, len(in), lim)
	}
	if err == nil {
		outcome = "roots"
		if roots == nil && len(in) > 0 {
			// zero roots is a legal answer for the API (list of roots); nothing to walk
			outcome = "zero-roots"
		}
		for i, r := range roots {
			if r == nil {
				c.Fail("nil-root:"+tag, "root %d is nil without an error", i)
				return "nil-root"
			}
			if !walk(c, r, tag) {
				return "unsound"
			}
		}
		for i, r := range roots {
			if i > 2 {
				break
			}
			// The statement promises that hashing, printing and re-serialising a returned cell terminate; a crash of the
			// process is not termination of the call (the property's rationale is remote denial of service: bytes from
			// a lite server or an HTTP client are parsed and then hashed). Errors are fine, panics are not.
			c.Try("panic:Hash:"+tag, func() { _, _ = r.Hash() })
			c.Try("panic:ToBoc:"+tag, func() { _, _ = r.ToBoc() })
			c.Try("panic:ToString:"+tag, func() { _ = r.ToString() })
			c.Try("panic:MarshalJSON:"+tag, func() { _, _ = r.MarshalJSON() })
			// the same through one reusable hasher (what tlb.Decoder and the lite-api client hold on to): asked again after
			// a failure it fails again or answers, it does not panic
			hs := tb.NewHasher()
			for round := 0; round < 2; round++ {
				c.Try("panic:Hasher.Hash:"+tag, func() { _, _ = hs.Hash(r) })
				c.Try("panic:Hasher.HashString:"+tag, func() { _, _ = hs.HashString(r) })
				c.Try("panic:ToBocCustomWithHasher:"+tag, func() { _, _ = r.ToBocCustomWithHasher(hs, false, false, false, 0) })
			}
		}
	}
	if wrappers && len(in) <= 600 {
		var e2, e3, e4 error
		var cellJSON tb.Cell
		c.Try("panic:DeserializeBocHex:"+tag, func() { _, e2 = tb.DeserializeBocHex(hex.EncodeToString(in)) })
		c.Try("panic:DeserializeBocBase64:"+tag, func() { _, e3 = tb.DeserializeBocBase64(base64.StdEncoding.EncodeToString(in)) })
		c.Try("panic:Cell.UnmarshalJSON:"+tag, func() { e4 = cellJSON.UnmarshalJSON([]byte(`"` + hex.EncodeToString(in) + `"`)) })
		if (e2 == nil) != (err == nil) || (e3 == nil) != (err == nil) {
			c.Fail("wrapper-disagrees:"+tag, "DeserializeBoc err=%v but Hex err=%v Base64 err=%v", err, e2, e3)
		}
		if err != nil && e4 == nil {
			c.Fail("wrapper-disagrees-json:"+tag, "DeserializeBoc err=%v but Cell.UnmarshalJSON accepted", err)
		}
	}
	return outcome
}

// walk checks well-formedness of a returned cell graph by pointer traversal.
func walk(c *enum.Ctx, root *tb.Cell, tag string) bool {
	state := map[*tb.Cell]int{} // 1 = on path, 2 = done
	ok := true
	var rec func(x *tb.Cell, depth int)
	rec = func(x *tb.Cell, depth int) {
		if !ok {
			return
		}
		switch state[x] {
		case 1:
			c.Fail("cyclic-cell:"+tag, "parser returned a cyclic cell graph (a cell reaches itself)")
			ok = false
			return
		case 2:
			return
		}
		if depth > 100000 {
			c.Fail("too-deep:"+tag, "graph deeper than 100000")
			ok = false
			return
		}
		state[x] = 1
		if x.BitSize() > 1023 || x.BitSize() < 0 {
			c.Fail("cell-bits:"+tag, "cell with %d bits", x.BitSize())
			ok = false
		}
		refs := x.Refs()
		if len(refs) > 4 || x.RefsSize() != len(refs) {
			c.Fail("cell-refs:"+tag, "cell with %d/%d refs", len(refs), x.RefsSize())
			ok = false
		}
		for _, r := range refs {
			rec(r, depth+1)
		}
		if !ok {
			return
		}
		// every referenced cell is present and reachable through the cursor API (no nil gaps)
		x.ResetCounters()
		n := 0
		for n <= 4 {
			r, err := x.NextRef()
			if err != nil {
				break
			}
			if n >= len(refs) || r != refs[n] {
				c.Fail("cell-ref-gap:"+tag, "NextRef order differs from Refs()")
				ok = false
				break
			}
			n++
		}
		if ok && n != len(refs) {
			c.Fail("cell-ref-gap:"+tag, "cell has %d refs but NextRef reaches only %d (nil gap)", len(refs), n)
			ok = false
		}
		x.ResetCounters()
		state[x] = 2
	}
	rec(root, 0)
	return ok
}

// ---------------------------------------------------------------------------------------------
// seeds

func seedCorpus(seed int, quick bool) [][]byte {
	var out [][]byte
	leafA := cell.MustNew([]byte{0xA5}, 8, nil, false)
	leafB := cell.MustNew(bits.Pattern(seed, 13).Bytes(), 13, nil, false)
	empty := cell.MustNew(nil, 0, nil, false)
	two := cell.MustNew([]byte{0x01}, 8, []*cell.Cell{leafA}, false)
	shared := cell.MustNew([]byte{0x02, 0x80}, 9, []*cell.Cell{leafB, leafB, two}, false)
	four := cell.MustNew([]byte{0x03}, 8, []*cell.Cell{leafA, leafB, empty, two}, false)
	lib := cell.NewLibrary([32]byte{1, 2, 3})
	pr, _ := cell.NewPruned(leafB, 1)
	mp, _ := cell.NewMerkleProof(cell.MustNew([]byte{0x07}, 8, []*cell.Cell{pr, leafA}, false))
	mu, _ := cell.NewMerkleUpdate(cell.MustNew([]byte{0x08}, 8, []*cell.Cell{pr}, false), leafA)
	withLib := cell.MustNew([]byte{0x09}, 8, []*cell.Cell{lib, mp}, false)
	dags := []*cell.Cell{leafA, leafB, empty, two, shared, four, lib, mp, mu, withLib}
	if !quick {
		big := cell.MustNew(bits.Pattern(seed+1, 1023).Bytes(), 1023, []*cell.Cell{shared, four}, false)
		dags = append(dags, big)
	}
	for i, d := range dags {
		opts := []rboc.Options{
			{},
			{Index: true, CRC: true, CacheBits: true},
			{Magic: rboc.MagicIdx},
			{Magic: rboc.MagicIdxCRC, StoreHashes: true},
		}
		if !quick {
			opts = append(opts, rboc.Options{CRC: true, Order: 1, ExtraSize: 1, ExtraOff: 1}, rboc.Options{Index: true, StoreHashes: true, Order: 2})
		}
		for j, o := range opts {
			if quick && i >= 4 && j >= 2 && i != 9 {
				continue
			}
			b, err := rboc.Serialize([]*cell.Cell{d}, o)
			if err == nil {
				out = append(out, b)
			}
		}
	}
	// multi-root
	b, _ := rboc.Serialize([]*cell.Cell{two, shared, leafA}, rboc.Options{Index: true})
	out = append(out, b)
	return out
}

func harnesses(r *fw.Run) []fw.HarnessSpec {
	seed := int(r.Seed)
	seeds := seedCorpus(seed, r.Quick())
	var hs []fw.HarnessSpec
	add := func(name string, bound, shards int, f func(c *enum.Ctx)) {
		hs = append(hs, fw.HarnessSpec{Harness: enum.Harness{Name: name, Bound: bound, Run: f}, Isolated: true, Shards: shards})
	}

	add("seed-substitutions", 0, 32, func(c *enum.Ctx) {
		// the first free choice shards the space over worker processes
		si := c.ChooseFree(len(seeds))
		s := seeds[si]
		pos := c.ChooseFree(len(s))
		v := c.ChooseFree(256)
		if byte(v) == s[pos] {
			c.Skip()
			return
		}
		in := append([]byte{}, s...)
		in[pos] = byte(v)
		c.Case(in, true)
		c.Sample(map[string]any{"seed": hex.EncodeToString(s), "pos": pos, "value": v})
		c.Label("seed %x with byte %d set to %#x", s, pos, v)
		c.Outcome(probe(c, in, "subst", pos%4 == 0))
	})
	add("seed-truncations", 0, 16, func(c *enum.Ctx) {
		si := c.ChooseFree(len(seeds))
		s := seeds[si]
		n := c.ChooseFree(len(s) + 1) // n == len(s): the valid seed itself
		ext := c.ChooseFree(3)        // 0: as is, 1: one trailing zero byte, 2: trailing 0xff
		in := append([]byte{}, s[:n]...)
		if ext > 0 {
			in = append(in, []byte{0, 0xff}[ext-1])
		}
		c.Case(in, n != len(s) || ext != 0)
		c.Sample(map[string]any{"seed": hex.EncodeToString(s), "keep": n, "ext": ext})
		c.Label("seed %x truncated to %d bytes ext=%d", s, n, ext)
		out := probe(c, in, "trunc", true)
		if n == len(s) && ext == 0 && out != "roots" {
			// a conforming BOC must parse (C01 checks the content); here only recorded
			out = "valid-seed-" + out
		}
		c.Outcome(out)
	})

	// real data
	var real []realdata.Item
	for _, it := range realdata.BOCs() {
		if _, err := rboc.Parse(it.Data); err != nil {
			continue
		}
		if r.Quick() && len(it.Data) > 4000 {
			continue
		}
		if len(it.Data) > 70000 {
			continue
		}
		real = append(real, it)
	}
	if r.Quick() && len(real) > 60 {
		// every 4th item in quick mode (deterministic)
		var sub []realdata.Item
		for i, it := range real {
			if i%4 == 0 {
				sub = append(sub, it)
			}
		}
		real = sub
	}
	if len(real) > 0 {
		add("real-truncations", 0, 16, func(c *enum.Ctx) {
			it := real[c.ChooseFree(len(real))]
			npts := r.Pick(160, 600)
			k := c.ChooseFree(npts)
			var n int
			if k < 64 {
				n = k // header region byte by byte
			} else {
				n = 64 + (k-64)*(len(it.Data)-64)/(npts-64)
			}
			if n >= len(it.Data) || n < 0 {
				c.Skip()
				return
			}
			in := it.Data[:n]
			c.Case([]byte(fmt.Sprintf("%s/%d", it.Origin, n)), true)
			c.Sample(map[string]any{"origin": it.Origin, "bytes": len(it.Data), "keep": n})
			c.Label("real BOC %s truncated to %d of %d bytes", it.Origin, n, len(it.Data))
			c.Outcome(probe(c, in, "real-trunc", false))
		})
		add("real-header-substitutions", 0, 16, func(c *enum.Ctx) {
			it := real[c.ChooseFree(len(real))]
			pos := c.ChooseFree(24)
			vals := []int{0, 1, 2, 3, 4, 5, 8, 9, 0x10, 0x28, 0x48, 0x7f, 0x80, 0xfe, 0xff}
			var v int
			if r.Quick() {
				v = vals[c.ChooseFree(len(vals))]
			} else {
				v = c.ChooseFree(256)
			}
			if pos >= len(it.Data) || it.Data[pos] == byte(v) {
				c.Skip()
				return
			}
			in := append([]byte{}, it.Data...)
			in[pos] = byte(v)
			c.Case([]byte(fmt.Sprintf("%s/%d/%d", it.Origin, pos, v)), true)
			c.Sample(map[string]any{"origin": it.Origin, "pos": pos, "value": v})
			c.Label("real BOC %s with byte %d set to %#x", it.Origin, pos, v)
			c.Outcome(probe(c, in, "real-subst", false))
		})
	}

	// heavily shared DAGs ("fork bombs"): n cells, each referencing the next one f times. The unfolded tree has f^n nodes,
	// so Hash / ToBoc / ToString / MarshalJSON only terminate if they are bounded by the DAG (or by an explicit budget).
	add("fork-bombs", 0, 8, func(c *enum.Ctx) {
		n := []int{1, 10, 16, 17, 18, 24, 30, 60, 100}[c.ChooseFree(9)]
		f := 1 + c.ChooseFree(4)
		variant := c.ChooseFree(2)
		cur := cell.MustNew([]byte{0x01}, 8, nil, false)
		for i := 1; i < n; i++ {
			refs := make([]*cell.Cell, f)
			for j := range refs {
				refs[j] = cur
			}
			cur = cell.MustNew([]byte{byte(i), byte(i >> 8)}, 16, refs, false)
		}
		in, _ := rboc.Serialize([]*cell.Cell{cur}, rboc.Options{Index: variant == 1, CRC: variant == 1})
		c.Case([]byte(fmt.Sprintf("fork/%d/%d/%d", n, f, variant)), n > 1)
		c.Sample(map[string]any{"cells": n, "fanout": f, "unfolded_nodes": fmt.Sprintf("%d^%d", f, n-1), "bytes": len(in)})
		c.Label("fork bomb: %d cells, each referencing the next %d times (%d bytes)", n, f, len(in))
		out := probe(c, in, "fork", true)
		if out != "roots" && out != "" {
			c.Fail("fork-bomb-rejected", "a conforming heavily shared BOC was not parsed: %s", out)
		}
		c.Outcome(out)
	})

	// the same sharing pattern made of cells that announce an exotic type (pruned branch / library / unknown type) and
	// still carry references: the parser does not have to accept them, but whatever it returns is hashed, printed and
	// re-serialised in time proportional to the bag, not to the tree it unfolds to
	add("fork-bombs-of-exotic-cells", 0, 8, func(c *enum.Ctx) {
		n := []int{6, 24, 40}[c.ChooseFree(3)]
		f := 2 + c.ChooseFree(3)
		typ := []byte{1, 2, 9}[c.ChooseFree(3)]
		mixed := c.ChooseFree(2) == 1 // every second cell is an ordinary one
		var data []byte
		for i := 0; i < n-1; i++ {
			special := !mixed || i%2 == 0
			var body []byte
			d1 := byte(f)
			if special {
				d1 |= 8
				switch typ {
				case 1:
					body = make([]byte, 36)
					body[0], body[1] = 1, 1
					d1 |= 32
				case 2:
					body = make([]byte, 33)
					body[0] = 2
				default:
					body = []byte{typ, byte(i)}
				}
				if len(body) > 2 {
					body[2] = byte(i) // distinct cells
				}
			} else {
				body = []byte{0x55, byte(i)}
			}
			data = append(data, d1, byte(2*len(body)))
			data = append(data, body...)
			for j := 0; j < f; j++ {
				data = append(data, byte(i+1))
			}
		}
		data = append(data, 0, 2, 0xA5) // the leaf
		b := []byte{0xb5, 0xee, 0x9c, 0x72, 1, 2, byte(n), 1, 0}
		b = append(b, put(uint64(len(data)), 2)...)
		b = append(b, 0)
		b = append(b, data...)
		c.Case(b, true)
		c.Sample(map[string]any{"cells": n, "fanout": f, "exotic_type": typ, "every_second_ordinary": mixed, "bytes": len(b)})
		c.Label("exotic fork bomb: %d cells of type %d (mixed=%v), each referencing the next %d times (%d bytes)", n, typ, mixed, f, len(b))
		c.Outcome(probe(c, b, "exotic-fork", false))
	})

	// exotic cells of every announced length: a pruned branch cell with every level mask 1..7 and every data length up to
	// its full size + 3 (also merkle proof / update and library cells of every length), as the root, under an ordinary
	// parent whose mask asks for the child's higher levels, under a merkle proof parent, and two levels down; the parser
	// may refuse or return them, and hashing / printing / re-serialising what it returned must not panic
	add("exotic-cell-lengths", 0, 8, func(c *enum.Ctx) {
		typ := []byte{1, 2, 3, 4}[c.ChooseFree(4)]
		mask := 0
		maxLen := 40
		switch typ {
		case 1:
			mask = 1 + c.ChooseFree(7)
			maxLen = 2 + 3*34 + 3
		case 4:
			maxLen = 72
		}
		n := c.ChooseFree(maxLen + 1)
		parent := c.ChooseFree(5)
		refs := 0
		if typ == 3 {
			refs = 1
		} else if typ == 4 {
			refs = 2
		}
		child := make([]byte, n)
		for i := range child {
			child[i] = byte(i * 7)
		}
		if n > 0 {
			child[0] = typ
		}
		if typ == 1 && n > 1 {
			child[1] = byte(mask)
			// stored depths stay small (below the depth limit)
			hashes := 0
			for m := mask; m != 0; m >>= 1 {
				hashes += m & 1
			}
			for i := 2 + 32*hashes; i < n; i++ {
				child[i] = byte(i & 1)
			}
		}
		merkle := make([]byte, 35)
		merkle[0] = 3
		type raw struct {
			d1   byte
			data []byte
			refs []int
		}
		leaf := raw{d1: 0, data: []byte{0xA5}}
		ch := raw{d1: byte(refs) + 8 + byte(32*mask), data: child}
		var cells []raw
		switch parent {
		case 0: // the exotic cell is the root
			cells = []raw{ch}
		case 1: // ordinary parent of level 2 (mask 011)
			cells = []raw{{d1: 1 + 32*3, refs: []int{1}}, ch}
		case 2: // ordinary parent whose mask is the child's
			cells = []raw{{d1: 1 + byte(32*mask), data: []byte{0x11}, refs: []int{1}}, ch}
		case 3: // merkle proof parent
			cells = []raw{{d1: 1 + 8, data: merkle, refs: []int{1}}, ch}
		case 4: // merkle proof above an ordinary cell of level 7 above the exotic cell
			cells = []raw{{d1: 1 + 8, data: merkle, refs: []int{1}}, {d1: 1 + 32*7, data: []byte{0x22}, refs: []int{2}}, ch}
		}
		for i := 0; i < refs; i++ {
			cells[len(cells)-1].refs = append(cells[len(cells)-1].refs, len(cells))
		}
		if refs > 0 {
			cells = append(cells, leaf)
		}
		var data []byte
		for _, rc := range cells {
			data = append(data, rc.d1, byte(2*len(rc.data)))
			data = append(data, rc.data...)
			for _, rf := range rc.refs {
				data = append(data, byte(rf))
			}
		}
		b := []byte{0xb5, 0xee, 0x9c, 0x72, 1, 2, byte(len(cells)), 1, 0}
		b = append(b, put(uint64(len(data)), 2)...)
		b = append(b, 0)
		b = append(b, data...)
		c.Case(b, true)
		c.Sample(map[string]any{"exotic_type": typ, "mask": mask, "data_bytes": n, "parent": parent})
		c.Label("exotic type %d mask %03b with %d data bytes, parent kind %d", typ, mask, n, parent)
		c.Outcome(probe(c, b, "exotic-len", false))
	})
	add("adversarial-headers", r.Pick(2, 3), 32, func(c *enum.Ctx) { adversarial(c, seed) })
	return hs
}

// adversarial assembles a BOC field by field; every Choose(…) != 0 is one deviation from a valid bag.
func adversarial(c *enum.Ctx, seed int) {
	// base DAG: root(8 bits) -> mid(8 bits) -> leaf(13 bits); root also refs leaf. (3 cells, refs exist at two levels)
	shape := c.ChooseFree(3) // 0: 3-cell DAG, 1: single cell, 2: no cell at all (the header is all there is)
	magicI := c.Choose(4)
	magic := [][]byte{{0xb5, 0xee, 0x9c, 0x72}, {0x68, 0xff, 0x65, 0xf3}, {0xac, 0xc3, 0xa7, 0x28}, {0xde, 0xad, 0xbe, 0xef}}[magicI]
	generic := magicI == 0 || magicI == 3

	type rawCell struct {
		d1, d2 byte
		data   []byte
		refs   []int
	}
	var cells []rawCell
	if shape == 0 {
		cells = []rawCell{
			{d1: 2, d2: 2, data: []byte{0x11}, refs: []int{1, 2}},
			{d1: 1, d2: 2, data: []byte{0x22}, refs: []int{2}},
			{d1: 0, d2: 3, data: []byte{0xAB, 0xCC}, refs: nil},
		}
	} else if shape == 1 {
		cells = []rawCell{{d1: 0, d2: 2, data: []byte{0x5A}}}
	}
	ncells := len(cells)

	// per-cell deviations (cell 0 and the last cell)
	for _, ci := range []int{0, ncells - 1} {
		if ncells == 0 || (ci == ncells-1 && ncells == 1) {
			break
		}
		if v := c.Choose(256); v != 0 {
			cells[ci].d1 = byte(int(cells[ci].d1)+v) % 255 // every other d1 value
			if v == 255 {
				cells[ci].d1 = 255
			}
		}
		d2alts := []int{-1, 0, 1, 2, 3, 4, 254, 255}
		if v := c.Choose(len(d2alts)); v != 0 {
			cells[ci].d2 = byte(d2alts[v])
		}
		if len(cells[ci].refs) > 0 {
			refAlts := []int{-1, ci, 0, ncells, ncells + 1, 255}
			if v := c.Choose(len(refAlts)); v != 0 {
				cells[ci].refs[0] = refAlts[v]
			}
		}
		// data length deviates from d2
		dl := []int{0, -1, 1, 40}
		if v := c.Choose(len(dl)); v != 0 {
			switch dl[v] {
			case -1:
				cells[ci].data = cells[ci].data[:len(cells[ci].data)-1]
			case 1:
				cells[ci].data = append(cells[ci].data, 0x80)
			case 40:
				cells[ci].data = append(cells[ci].data, make([]byte, 40)...)
			}
		}
	}

	sizeAlts := []int{1, 0, 2, 3, 4, 5, 6, 7}
	size := sizeAlts[c.Choose(len(sizeAlts))]
	sizeField := size
	if !generic {
		// the lean formats store size in a whole byte
		hi := []int{0, 8, 0xF8, 0xFF}
		if v := c.Choose(len(hi)); v != 0 {
			sizeField = hi[v]
			size = sizeField // what a naive parser would take
		}
	}
	offAlts := []int{1, 0, 2, 3, 4, 7, 8, 9, 16, 255}
	off := offAlts[c.Choose(len(offAlts))]

	var data []byte
	var ends []int
	for _, rc := range cells {
		data = append(data, rc.d1, rc.d2)
		data = append(data, rc.data...)
		for _, rf := range rc.refs {
			data = append(data, put(uint64(rf), size)...)
		}
		ends = append(ends, len(data))
	}

	flagsB := 0
	var hasIdx, hasCRC, hasCache bool
	if generic {
		fa := c.Choose(32) // upper five bits: idx, crc, cache, flags(2)
		flagsB = fa << 3
		hasIdx, hasCRC, hasCache = flagsB&0x80 != 0, flagsB&0x40 != 0, flagsB&0x20 != 0
	} else {
		hasIdx, hasCRC = true, magicI == 2
	}
	maxv := func(n int) uint64 {
		if n <= 0 {
			return 0
		}
		if n >= 8 {
			return 1<<63 - 1
		}
		return 1<<(8*uint(n)) - 1
	}
	cntAlts := []uint64{uint64(ncells), 0, 1, 2, 4, 255, maxv(size), maxv(size) / 2}
	cellsCount := cntAlts[c.Choose(len(cntAlts))]
	rootAlts := []uint64{1, 0, 2, 3, 255, maxv(size)}
	rootsCount := rootAlts[c.Choose(len(rootAlts))]
	absAlts := []uint64{0, 1, 255}
	absent := absAlts[c.Choose(len(absAlts))]
	totAlts := []uint64{uint64(len(data)), 0, uint64(len(data)) - 1, uint64(len(data)) + 1, maxv(off), maxv(off) / 2}
	tot := totAlts[c.Choose(len(totAlts))]
	rootIdxAlts := []uint64{0, 1, uint64(ncells) - 1, uint64(ncells), 255, maxv(size)}
	rootIdx := rootIdxAlts[c.Choose(len(rootIdxAlts))]

	var b []byte
	b = append(b, magic...)
	if generic {
		b = append(b, byte(flagsB)|byte(sizeField&7))
	} else {
		b = append(b, byte(sizeField))
	}
	b = append(b, byte(off))
	b = append(b, put(cellsCount, size)...)
	b = append(b, put(rootsCount, size)...)
	b = append(b, put(absent, size)...)
	b = append(b, put(tot, off)...)
	if generic {
		nr := int(rootsCount)
		if nr > 4 {
			nr = 4 // only a few are physically present when the count lies
		}
		for i := 0; i < nr; i++ {
			b = append(b, put(rootIdx, size)...)
		}
	}
	if hasIdx {
		idxAlts := 3
		iv := c.Choose(idxAlts) // 0: correct index, 1: zeros, 2: missing
		for i := 0; i < ncells && iv != 2; i++ {
			e := uint64(ends[i])
			if hasCache {
				e *= 2
			}
			if iv == 1 {
				e = 0
			}
			b = append(b, put(e, off)...)
		}
	}
	b = append(b, data...)
	if hasCRC {
		var x [4]byte
		sum := crc32.Checksum(b, crc32.MakeTable(crc32.Castagnoli))
		if c.Choose(2) == 1 {
			sum ^= 1
		}
		binary.LittleEndian.PutUint32(x[:], sum)
		b = append(b, x[:]...)
	}
	switch c.Choose(4) {
	case 1:
		b = append(b, 0)
	case 2:
		if len(b) > 0 {
			b = b[:len(b)-1]
		}
	case 3:
		if len(b) > 9 {
			b = b[:9]
		}
	}
	c.Case(b, true)
	c.Sample(map[string]any{"input": hex.EncodeToString(b)})
	c.Label("input %x", b)
	c.Outcome(probe(c, b, "adv", len(b)%3 == 0))
}

func put(v uint64, n int) []byte {
	if n <= 0 {
		return nil
	}
	if n > 16 {
		n = 16
	}
	out := make([]byte, n)
	for i := n - 1; i >= 0; i-- {
		out[i] = byte(v)
		v >>= 8
	}
	return out
}
