// Package c08: TL-B and TL decoders are total on untrusted input.
package c08

import (
	"bytes"
	"encoding/binary"
	"fmt"
	"reflect"
	"runtime/metrics"

	"github.com/tonkeeper/tongo/abi"
	tb "github.com/tonkeeper/tongo/boc"
	"github.com/tonkeeper/tongo/code"
	"github.com/tonkeeper/tongo/liteapi"
	"github.com/tonkeeper/tongo/liteclient"
	"github.com/tonkeeper/tongo/tl"
	"github.com/tonkeeper/tongo/tlb"
	"github.com/tonkeeper/tongo/ton"

	"verif/fw"
	"verif/gen"
	"verif/gen/registry"
	"verif/harness/c03"
	"verif/harness/c10"
	"verif/mc/enum"
	"verif/realdata"
	"verif/ref/bits"
	rboc "verif/ref/boc"
	"verif/ref/cell"
	rtl "verif/ref/tl"
)

func init() {
	fw.Register(&fw.Property{
		ID: "C08",
		Rule: "TL-B: every exported target type (list generated from the source tree) x (a) every cell with up to N data bits and 0..2 references into a pool of 6 cells (ordinary, empty, pruned branch, library, Merkle proof, deep chain), " +
			"(b) for each constructively generated valid encoding every bit truncation, dropped / added / replaced reference and flipped leading bit; TL: every declaration and request of lite_api.tl x valid encodings with every truncation, " +
			"every length / count / flags prefix replaced by {0,1,253,254,255,2^24-1,2^31,2^32-1} and every constructor id replaced by every other known id; helpers on network data: ADNL length prefixes (all inputs up to 4 bytes over 9 byte values), " +
			"query-answer framing, request decoder, ABI message decoders, account-state / block-header proof decoders, contract-method parser and VM stack TL decoder on the BOC corpus of C07 (incl. zero-root bags) and on mutated real proofs; " +
			"all in crash-isolating workers; distinct = (target, input); non-trivial = always",
		Assume: []string{
			"allocation bound: 64 bytes per byte of input (for cells: of the unfolded tree, capped) + 1 MiB per decode, measured with runtime/metrics in single-threaded workers",
			"worker processes: RLIMIT_AS 12 GiB, 96 MiB stacks, 120 s without progress = hang",
			"liteapi.Client.GetTransactions is not driven end-to-end (needs a pooled network client); its decoding steps are covered through the underlying decoders",
		},
		Harnesses: harnesses,
	})
}

var allocSample = []metrics.Sample{{Name: "/gc/heap/allocs:bytes"}}

func allocBytes() uint64 {
	metrics.Read(allocSample)
	return allocSample[0].Value.Uint64()
}

// guarded runs f, reporting panics and disproportionate allocation.
func guarded(c *enum.Ctx, key string, inputBytes int, f func()) {
	before := allocBytes()
	c.Try("panic:"+key, f)
	if d := allocBytes() - before; d > uint64(64*inputBytes+1<<20) {
		c.Fail("alloc:"+key, "%s allocated %d bytes for an input of %d bytes", key, d, inputBytes)
	}
}

func poolCells(c *enum.Ctx, seed int) []*tb.Cell {
	leaf := cell.MustNew([]byte{0xAB, 0xCD}, 16, nil, false)
	pr, _ := cell.NewPruned(leaf, 1)
	mp, _ := cell.NewMerkleProof(cell.MustNew([]byte{0x07}, 8, []*cell.Cell{pr}, false))
	var chain *cell.Cell = leaf
	for i := 0; i < 40; i++ {
		chain = cell.MustNew([]byte{byte(i)}, 8, []*cell.Cell{chain}, false)
	}
	refs := []*cell.Cell{
		leaf,
		cell.MustNew(nil, 0, nil, false),
		pr,
		cell.NewLibrary([32]byte{1}),
		mp,
		chain,
	}
	var out []*tb.Cell
	for _, r := range refs {
		b, _ := rboc.Serialize([]*cell.Cell{r}, rboc.Options{})
		roots, err := tb.DeserializeBoc(b)
		if err != nil {
			c.Fail("setup", "%v", err)
			return nil
		}
		out = append(out, roots[0])
	}
	return out
}

func unfoldedBytes(c *tb.Cell, budget *int) int {
	if *budget <= 0 {
		return 0
	}
	*budget--
	n := 2 + (c.BitSize()+7)/8
	for _, r := range c.Refs() {
		n += unfoldedBytes(r, budget)
	}
	return n
}

func decodeInto(c *enum.Ctx, e registry.Entry, cellv *tb.Cell, caching bool) {
	budget := 100000
	size := unfoldedBytes(cellv, &budget)
	p := reflect.New(e.Type)
	guarded(c, "Unmarshal:"+e.Name, size, func() {
		if caching {
			_ = tlb.NewDecoder().Unmarshal(cellv, p.Interface())
		} else {
			_ = tlb.Unmarshal(cellv, p.Interface())
		}
	})
	// the decoder's options are other entrances to the same codec: a decoder that records the path it is on (WithDebug)
	// is total on the same input, also when it is used again after an error
	cellv.ResetCounters()
	dbg := tlb.NewDecoder().WithDebug()
	c.Try("panic:Decoder(debug).Unmarshal:"+e.Name, func() {
		_ = dbg.Unmarshal(cellv, reflect.New(e.Type).Interface())
		cellv.ResetCounters()
		_ = dbg.Unmarshal(cellv, reflect.New(e.Type).Interface())
	})
}

func harnesses(r *fw.Run) []fw.HarnessSpec {
	seed := int(r.Seed)
	var hs []fw.HarnessSpec
	add := func(name string, bound, shards int, f func(c *enum.Ctx)) {
		hs = append(hs, fw.HarnessSpec{Harness: enum.Harness{Name: name, Bound: bound, Run: f, MaxViolations: 200}, Isolated: true, Shards: shards})
	}
	types := c03.TypesUnderTest()
	// generic instantiations that only occur as fields are reached through their holders; add a few roots explicitly
	types = append(types,
		registry.Entry{Name: "tlb.HashmapE[Uint32,Uint8]", Type: reflect.TypeOf(tlb.HashmapE[tlb.Uint32, tlb.Uint8]{})},
		registry.Entry{Name: "tlb.Hashmap[Uint16,Any]", Type: reflect.TypeOf(tlb.Hashmap[tlb.Uint16, tlb.Any]{})},
		registry.Entry{Name: "tlb.HashmapAugE[Bits256,Uint8,Uint8]", Type: reflect.TypeOf(tlb.HashmapAugE[tlb.Bits256, tlb.Uint8, tlb.Uint8]{})},
		registry.Entry{Name: "tlb.MerkleProof[BlockHeader]", Type: reflect.TypeOf(tlb.MerkleProof[tlb.BlockHeader]{})},
		registry.Entry{Name: "tlb.MerkleUpdate[ShardState]", Type: reflect.TypeOf(tlb.MerkleUpdate[tlb.ShardState]{})},
		registry.Entry{Name: "tlb.BinTree[ShardDesc]", Type: reflect.TypeOf(tlb.BinTree[tlb.ShardDesc]{})},
		registry.Entry{Name: "tlb.Maybe[Ref[Message]]", Type: reflect.TypeOf(tlb.Maybe[tlb.Ref[tlb.Message]]{})},
	)
	maxBits := r.Pick(7, 10)

	add("tlb-all-small-cells", 0, 32, func(c *enum.Ctx) {
		e := types[c.ChooseFree(len(types))]
		n := c.ChooseFree(maxBits + 1)
		// reference lists: none, one pool cell, the same cell twice, two different cells
		rl := c.ChooseFree(1 + 6 + 6 + 5)
		c.Case([]byte(fmt.Sprintf("%s/%d/%d", e.Name, n, rl)), true)
		c.Sample(map[string]any{"type": e.Name, "data_bits": n, "ref_list": rl, "cells_in_this_case": 1 << uint(n)})
		c.Label("type %s, all cells of %d bits, ref list %d", e.Name, n, rl)
		if c.Dry() {
			return
		}
		pool := poolCells(c, seed)
		if pool == nil {
			return
		}
		var refs []*tb.Cell
		switch {
		case rl == 0:
		case rl <= 6:
			refs = []*tb.Cell{pool[rl-1]}
		case rl <= 12:
			refs = []*tb.Cell{pool[rl-7], pool[rl-7]}
		default:
			refs = []*tb.Cell{pool[0], pool[rl-12]}
		}
		for v := 0; v < 1<<uint(n); v++ {
			cl := tb.NewCell()
			_ = cl.WriteUint(uint64(v), n)
			for _, rf := range refs {
				_ = cl.AddRef(rf)
			}
			decodeInto(c, e, cl, v%2 == 1)
			if c.Failed() {
				c.Label("failing cell: %d bits value %b", n, v)
				return
			}
		}
	})

	add("tlb-mutated-encodings", 1, 32, func(c *enum.Ctx) {
		e := types[c.ChooseFree(len(types))]
		g := &gen.G{C: c, Seed: seed, Enums: registry.Enums}
		var v reflect.Value
		if c.Try("panic:generator:"+e.Name, func() { v = g.Make(e.Type, "") }) {
			return
		}
		c.Case([]byte(fmt.Sprintf("%s/%+v", e.Name, trunc(fmt.Sprintf("%+v", v.Interface())))), true)
		c.Label("type %s", e.Name)
		if c.Dry() {
			return
		}
		enc := tb.NewCell()
		ok := true
		func() {
			defer func() {
				if recover() != nil {
					ok = false
				}
			}()
			if err := tlb.Marshal(enc, v.Interface()); err != nil {
				ok = false
			}
		}()
		if !ok {
			c.Outcome("no-valid-encoding")
			return
		}
		c.Outcome("mutated")
		pool := poolCells(c, seed)
		bs := enc.RawBitString()
		all := bits.FromBytes(bs.Buffer(), bs.GetWriteCursor())
		refs := enc.Refs()
		mk := func(b bits.Bits, rs []*tb.Cell) *tb.Cell {
			cl := tb.NewCell()
			for _, x := range b {
				_ = cl.WriteBit(x)
			}
			for _, rf := range rs {
				_ = cl.AddRef(rf)
			}
			return cl
		}
		n := 0
		try := func(cl *tb.Cell) bool {
			n++
			decodeInto(c, e, cl, n%2 == 0)
			return !c.Failed()
		}
		for k := 0; k < len(all); k++ { // every truncation
			if !try(mk(all[:k], refs)) {
				return
			}
		}
		for k := 0; k < len(all); k++ { // every single flipped bit (flag bits of Maybe / Either fields sit anywhere in the cell)
			f := append(bits.Bits{}, all...)
			f[k] = !f[k]
			if !try(mk(f, refs)) {
				return
			}
		}
		for k := 0; k <= len(refs); k++ { // dropped refs
			if !try(mk(all, refs[:k])) {
				return
			}
		}
		if len(refs) < 4 {
			for _, pc := range pool {
				if !try(mk(all, append(append([]*tb.Cell{}, refs...), pc))) {
					return
				}
			}
		}
		for i := range refs {
			for _, pc := range pool {
				rs := append([]*tb.Cell{}, refs...)
				rs[i] = pc
				if !try(mk(all, rs)) {
					return
				}
			}
			// truncations of the referenced cell
			rb := refs[i].RawBitString()
			rall := bits.FromBytes(rb.Buffer(), rb.GetWriteCursor())
			for k := 0; k < len(rall); k += 1 + len(rall)/64 {
				rs := append([]*tb.Cell{}, refs...)
				rs[i] = mk(rall[:k], refs[i].Refs())
				if !try(mk(all, rs)) {
					return
				}
			}
		}
		c.Sample(map[string]any{"type": e.Name, "encoding_bits": len(all), "refs": len(refs), "mutations": n})
	})

	env, envErr := c10.LoadEnv(seed)
	var knownIDs []uint32
	if envErr == nil {
		for _, d := range env.Decls() {
			knownIDs = append(knownIDs, d.ID)
		}
	}
	add("tl-mutations", 1, 16, func(c *enum.Ctx) {
		if envErr != nil {
			c.Fail("schema", "%v", envErr)
			return
		}
		ds := env.Decls()
		d := ds[c.ChooseFree(len(ds))]
		encd, err := env.Encode(c, d)
		if err != nil {
			c.Skip() // declarations without a Go binding of their own (constructors of sum types, adnl framing)
			return
		}
		c.Case(append([]byte(d.Name+"/"), encd.Bytes...), true)
		c.Label("declaration %s (%d bytes)", d.Name, len(encd.Bytes))
		if c.Dry() {
			return
		}
		n := 0
		try := func(b []byte) bool {
			n++
			p := reflect.New(encd.GoType)
			guarded(c, "tl.Unmarshal:"+d.Name, len(b), func() { _ = tl.Unmarshal(bytes.NewReader(b), p.Interface()) })
			if d.Func {
				full := append(rtl.U32(d.ID), b...)
				guarded(c, "LiteapiRequestDecoder:"+d.Name, len(full), func() { _, _, _, _ = liteclient.LiteapiRequestDecoder(full) })
			}
			return !c.Failed()
		}
		body := encd.Bytes
		if len(body) < 3000 {
			for k := 0; k <= len(body); k++ {
				if !try(body[:k]) {
					c.Label("truncated to %d bytes", k)
					return
				}
			}
		}
		vals := []uint32{0, 1, 253, 254, 255, 1<<24 - 1, 1 << 31, 1<<32 - 1}
		for _, m := range encd.Marks {
			if m.Kind == "tag" {
				for _, id := range knownIDs {
					b := append([]byte{}, body...)
					binary.LittleEndian.PutUint32(b[m.Off:], id)
					if !try(b) {
						c.Label("tag at %d replaced by %08x", m.Off, id)
						return
					}
				}
				continue
			}
			for _, x := range vals {
				b := append([]byte{}, body...)
				if m.Len == 1 {
					if x > 255 {
						continue
					}
					b[m.Off] = byte(x)
				} else if m.Kind == "bytes-len" {
					b[m.Off] = 0xfe
					b[m.Off+1], b[m.Off+2], b[m.Off+3] = byte(x), byte(x>>8), byte(x>>16)
				} else {
					binary.LittleEndian.PutUint32(b[m.Off:], x)
				}
				if !try(b) {
					c.Label("%s at %d replaced by %d", m.Kind, m.Off, x)
					return
				}
				if m.Kind == "bytes-len" && m.Len == 1 && x >= 254 {
					// the short prefix turned into the long form: the three following bytes become the length
					continue
				}
			}
		}
		c.Sample(map[string]any{"declaration": d.Name, "bytes": len(body), "prefixes": len(encd.Marks), "mutations": n})
	})

	add("adnl-length-prefix", 0, 4, func(c *enum.Ctx) {
		alpha := []byte{0, 1, 2, 4, 0x7f, 0x80, 253, 254, 255}
		n := c.ChooseFree(5)
		in := make([]byte, n)
		for i := range in {
			in[i] = alpha[c.ChooseFree(len(alpha))]
		}
		c.Case(append([]byte("len/"), in...), n > 0)
		c.Sample(map[string]any{"input": fmt.Sprintf("%x", in)})
		c.Label("decodeLength(%x)", in)
		if c.Dry() {
			return
		}
		orig := append([]byte{}, in...)
		guarded(c, "decodeLength", len(in), func() {
			l, rest, err := liteclient.VerifDecodeLength(in)
			if err == nil {
				if l < 0 || len(rest) > len(in) {
					c.Fail("decodeLength-result", "decodeLength(%x) = %d, %d bytes rest", orig, l, len(rest))
				}
				// reference
				want := int(orig[0])
				if orig[0] == 254 {
					want = int(orig[1]) | int(orig[2])<<8 | int(orig[3])<<16
				}
				if l != want {
					c.Fail("decodeLength-value", "decodeLength(%x) = %d want %d", orig, l, want)
				}
			}
		})
		if !bytes.Equal(in, orig) {
			c.Fail("decodeLength-mutates", "decodeLength modified its input %x -> %x", orig, in)
		}
	})

	add("query-answer-framing", 0, 8, func(c *enum.Ctx) {
		total := c.ChooseFree(60)
		prefix := []int{-1, 0, 1, 3, 4, 253, 254, 255}[c.ChooseFree(8)]
		known := c.ChooseFree(2) == 1
		c.Case([]byte(fmt.Sprintf("qa/%d/%d/%v", total, prefix, known)), true)
		c.Sample(map[string]any{"payload_bytes": total, "length_prefix": prefix, "known_query_id": known})
		c.Label("answer payload of %d bytes, prefix %d, known id %v", total, prefix, known)
		if c.Dry() {
			return
		}
		client, _ := liteclient.VerifNewSyncClient(0)
		var id [32]byte
		id[0] = 7
		ch := client.VerifRegisterQuery(id)
		p := make([]byte, total)
		if total >= 4 {
			binary.LittleEndian.PutUint32(p, 0x0fac8416)
		}
		if known && total >= 36 {
			copy(p[4:36], id[:])
		}
		if prefix >= 0 && total > 36 {
			p[36] = byte(prefix)
		}
		for i := 37; i < total; i++ {
			p[i] = byte(i)
		}
		guarded(c, "processQueryAnswer", total, func() {
			err := client.VerifProcessQueryAnswer(p)
			select {
			case b := <-ch:
				if err != nil {
					c.Fail("answer-delivered-with-error", "answer delivered although an error was returned")
				}
				if len(b) > total {
					c.Fail("answer-longer-than-payload", "delivered %d bytes from a %d byte payload", len(b), total)
				}
			default:
			}
		})
	})

	// helpers that sit on BOC bytes
	var bocs [][]byte
	mkBocs := func() [][]byte {
		if bocs != nil {
			return bocs
		}
		leaf := cell.MustNew([]byte{0xAB}, 8, nil, false)
		one := cell.MustNew([]byte{0x01}, 8, []*cell.Cell{leaf}, false)
		for _, rc := range []*cell.Cell{leaf, one, cell.MustNew(nil, 0, nil, false)} {
			for _, o := range []rboc.Options{{}, {Index: true, CRC: true}} {
				b, _ := rboc.Serialize([]*cell.Cell{rc}, o)
				bocs = append(bocs, b)
			}
		}
		two, _ := rboc.Serialize([]*cell.Cell{leaf, one}, rboc.Options{})
		bocs = append(bocs, two)
		// zero roots / zero cells
		bocs = append(bocs, []byte{0xb5, 0xee, 0x9c, 0x72, 0x01, 0x01, 0x00, 0x00, 0x00, 0x00}, []byte{0xb5, 0xee, 0x9c, 0x72, 0x01, 0x01, 0x01, 0x00, 0x00, 0x02, 0x00, 0x00}, []byte{}, []byte{0xb5})
		for _, it := range realdata.BOCs() {
			if len(it.Data) < 6000 && len(bocs) < 60 {
				bocs = append(bocs, it.Data)
			}
		}
		return bocs
	}
	add("boc-consumers", 0, 8, func(c *enum.Ctx) {
		bs := mkBocs()
		b := bs[c.ChooseFree(len(bs))]
		mut := c.ChooseFree(r.Pick(24, 80))
		in := append([]byte{}, b...)
		if mut > 0 && len(in) > 0 {
			// deterministic single-byte substitutions / truncations spread over the input
			pos := (mut * 7919) % len(in)
			if mut%3 == 0 {
				in = in[:pos]
			} else {
				in[pos] ^= byte(1 << uint(mut%8))
			}
		}
		c.Case(append([]byte("boc/"), in...), true)
		c.Sample(map[string]any{"bytes": len(in), "mutation": mut})
		c.Label("BOC consumer input %x", truncB(in))
		if c.Dry() {
			return
		}
		guarded(c, "code.ParseContractMethods", len(in), func() { _, _ = code.ParseContractMethods(in) })
		guarded(c, "VmStack.UnmarshalTL", len(in), func() {
			var s tlb.VmStack
			_ = s.UnmarshalTL(bytes.NewReader(rtl.Bytes(in)))
		})
		guarded(c, "decodeAccountDataFromProof", len(in), func() { _, _, _ = liteapi.VerifDecodeAccountDataFromProof(in, ton.AccountID{}) })
		guarded(c, "decodeBlockHeader", len(in), func() {
			_, _, _ = liteapi.VerifDecodeBlockHeader(liteclient.LiteServerBlockHeaderC{HeaderProof: in})
		})
		if roots, err := tb.DeserializeBoc(in); err == nil {
			for _, rt := range roots {
				rt := rt
				guarded(c, "abi.InternalMessageDecoder", len(in), func() { _, _, _, _ = abi.InternalMessageDecoder(rt, nil) })
				rt.ResetCounters()
				guarded(c, "abi.ExtInMessageDecoder", len(in), func() { _, _, _, _ = abi.ExtInMessageDecoder(rt, nil) })
				rt.ResetCounters()
				guarded(c, "abi.ExtOutMessageDecoder", len(in), func() { _, _, _, _ = abi.ExtOutMessageDecoder(rt, nil, tlb.MsgAddress{SumType: "AddrNone"}) })
			}
		}
	})
	return hs
}

func trunc(s string) string {
	if len(s) > 300 {
		return s[:300]
	}
	return s
}

func truncB(b []byte) []byte {
	if len(b) > 64 {
		return b[:64]
	}
	return b
}
