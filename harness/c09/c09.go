// Package c09: schema compilers emit Go code that implements the schema.
package c09

import (
	"bytes"
	"context"
	"encoding/json"
	"fmt"
	"math/big"
	"reflect"
	"regexp"
	"strings"

	tb "github.com/tonkeeper/tongo/boc"
	"github.com/tonkeeper/tongo/tlb"

	"verif/c09pkgs/all"
	"verif/c09s"
	"verif/conv"
	"verif/fw"
	"verif/gen"
	"verif/harness/c10"
	"verif/harness/tlbx"
	"verif/mc/enum"
	"verif/ref/bits"
	"verif/ref/cell"
	"verif/ref/dict"
	rtl "verif/ref/tl"
	te "verif/ref/tlbenc"
)

func init() {
	fw.Register(&fw.Property{
		ID: "C09",
		Rule: "the schemas of verif/c09s (a systematic enumeration of the supported TL and TL-B constructs: every field kind alone / between other fields / under every flag bit 0..31, vectors, nested and multi-constructor types with 2..5 constructors, functions; every fixed-width TL-B type of the tier, every constructor prefix form, Maybe / Either / ^ / HashmapE over leaf and declared types) are compiled by the real tl/parser and tlb/parser of the working tree at check time, " +
			"the output is compiled by the Go compiler, and for every declaration every value within the deviation bound is encoded by the generated code (TL: generated MarshalTL/UnmarshalTL and request methods; TL-B: generated structs through tlb.Marshal/Unmarshal) and compared byte- resp. bit-exactly with a schema interpreter written from the TL / TL-B definitions (ref/tl, ref/tlbenc, ref/dict); generation is repeated 3 times in different orders and must be identical; distinct = (declaration, reference encoding); non-trivial = always",
		Assume: []string{
			"supported subset as stated in the property: types are declared before use; single-constructor types are referenced bare (by constructor name), multi-constructor types boxed; constructor ids are explicit 8-digit hex; the generated file header is the one liteclient/generator.go writes",
			"TL-B: fixed-width types are those tlb/integers.go provides; #xx_ prefixes (not used by abi/schemas) are outside the subset; an inline Cell is the last field",
			"the integer/bits type templates of tlb/parser/builtin_generator.go are covered by C10 (generator-artifacts: re-generation equals the checked-in tlb/integers.go) together with C03 (behaviour of every generated integer type)",
		},
		Harnesses: harnesses,
	})
}

var lineCol = regexp.MustCompile(`\S+\.go:\d+:\d+: `)

func harnesses(r *fw.Run) []fw.HarnessSpec {
	seed := int(r.Seed)
	var hs []fw.HarnessSpec
	var stages []struct{ Schema, Kind, Detail string }
	json.Unmarshal([]byte(all.Stages), &stages)
	hs = append(hs, fw.HarnessSpec{Harness: enum.Harness{Name: "generate-and-compile", Bound: 0, MaxViolations: 100, Run: func(c *enum.Ctx) {
		n := len(all.Pkgs) + len(stages)
		k := c.ChooseFree(n)
		if k < len(all.Pkgs) {
			p := all.Pkgs[k]
			c.Label("schema %s (%s): generated, identical on regeneration, compiled; %d struct types", p.Name, p.Kind, len(p.Types))
			c.Case([]byte("ok/"+p.Name), true)
			c.Outcome("compiled")
			return
		}
		st := stages[k-len(all.Pkgs)]
		c.Case([]byte("stage/"+st.Schema+"/"+st.Kind), true)
		first := strings.SplitN(lineCol.ReplaceAllString(st.Detail, ""), "\n", 2)[0]
		if len(first) > 120 {
			first = first[:120]
		}
		c.Outcome(st.Kind)
		c.Fail(st.Kind+":"+st.Schema+":"+first, "schema %s: %s: %s", st.Schema, st.Kind, st.Detail)
	}}})

	// the schema set is the one cmd/c09gen generated for this build (the run script passes the same tier to both);
	// the value bounds follow the tier of this run
	thorough := all.Thorough
	byName := map[string]all.Pkg{}
	for _, p := range all.Pkgs {
		byName[p.Name] = p
	}
	// ---- TL ---------------------------------------------------------------------------------------------------
	type tlEnv struct {
		s   c09s.TLSchema
		p   all.Pkg
		env *c10.Env
		err error
	}
	var tls []*tlEnv
	for _, s := range c09s.TLSchemas(thorough) {
		p, ok := byName[s.Name]
		if !ok {
			continue // reported by generate-and-compile
		}
		e := &tlEnv{s: s, p: p}
		e.env, e.err = c10.NewEnvFrom(s.Text, p.Types, seed)
		tls = append(tls, e)
	}
	hs = append(hs, fw.HarnessSpec{Harness: enum.Harness{Name: "tl-declarations-codec", Bound: r.Pick(1, 2), MaxViolations: 60, Run: func(c *enum.Ctx) {
		if len(tls) == 0 {
			c.Skip()
			return
		}
		e := tls[c.ChooseFree(len(tls))]
		if e.err != nil {
			c.Fail("schema:"+e.s.Name, "the reference TL parser rejects the schema: %v", e.err)
			return
		}
		ds := e.env.Decls()
		d := ds[c.ChooseFree(len(ds))]
		c.Label("schema %s declaration %s", e.s.Name, d.Name)
		var want []byte
		c.Try("panic:tl-codec:"+d.Name, func() {
			_, want, _ = e.env.Codec(c, d, -1)
		})
		c.Case(append([]byte(d.Name+"/"), want...), true)
	}}})
	hs = append(hs, fw.HarnessSpec{Harness: enum.Harness{Name: "tl-request-methods", Bound: r.Pick(1, 2), MaxViolations: 60, Run: func(c *enum.Ctx) {
		if len(tls) == 0 {
			c.Skip()
			return
		}
		e := tls[c.ChooseFree(len(tls))]
		if e.err != nil {
			c.Skip()
			return
		}
		var funcs []*rtl.Decl
		for _, d := range e.env.Decls() {
			if d.Func {
				funcs = append(funcs, d)
			}
		}
		if len(funcs) == 0 {
			c.Skip()
			return
		}
		d := funcs[c.ChooseFree(len(funcs))]
		kind := c.ChooseFree(4)
		c.Label("schema %s function %s answer kind %d", e.s.Name, d.Name, kind)
		c.Try("panic:tl-request:"+d.Name, func() { requestCase(c, e.env, e.p, d, kind) })
	}}})
	// ---- TL-B -------------------------------------------------------------------------------------------------
	type tlbEnv struct {
		s c09s.TLBSchema
		p all.Pkg
	}
	var tlbs []*tlbEnv
	for _, s := range c09s.TLBSchemas(thorough) {
		if p, ok := byName[s.Name]; ok {
			tlbs = append(tlbs, &tlbEnv{s, p})
		}
	}
	hs = append(hs, fw.HarnessSpec{Harness: enum.Harness{Name: "tlb-declarations-codec", Bound: r.Pick(1, 2), MaxViolations: 60, Run: func(c *enum.Ctx) {
		if len(tlbs) == 0 {
			c.Skip()
			return
		}
		e := tlbs[c.ChooseFree(len(tlbs))]
		combs := e.s.Combinators()
		name := combs[c.ChooseFree(len(combs))]
		c.Label("schema %s type %s", e.s.Name, name)
		c.Try("panic:tlb-codec:"+e.s.Name+"."+name, func() { tlbCase(c, e.s, e.p, name, seed) })
	}}})
	return hs
}

func methodByKey(t reflect.Type, name string) string {
	k := rtl.CamelKey(name)
	for i := 0; i < t.NumMethod(); i++ {
		if rtl.CamelKey(t.Method(i).Name) == k {
			return t.Method(i).Name
		}
	}
	return ""
}

func requestCase(c *enum.Ctx, env *c10.Env, p all.Pkg, d *rtl.Decl, kind int) {
	client := reflect.ValueOf(p.NewClient())
	mname := methodByKey(client.Type(), d.Name)
	if mname == "" {
		c.Fail("no-method:"+d.Name, "function %s has no generated method", d.Name)
		return
	}
	m := client.MethodByName(mname)
	args := []reflect.Value{reflect.ValueOf(context.Background())}
	var wantReq []byte
	if m.Type().NumIn() == 2 {
		rv := reflect.New(m.Type().In(1)).Elem()
		body, err := env.BuildDecl(c, d, rv)
		if err != nil {
			c.Fail("binding-shape:"+d.Name, "%v", err)
			return
		}
		wantReq = append(rtl.U32(d.ID), body...)
		args = append(args, rv)
	} else {
		if len(d.Fields) != 0 {
			c.Fail("binding-shape:"+d.Name, "method %s takes no request but the schema has %d fields", mname, len(d.Fields))
			return
		}
		wantReq = rtl.U32(d.ID)
	}
	resDecls := env.Schema().Boxed(d.Result)
	if len(resDecls) == 0 {
		c.Fail("schema", "no constructor for result %s", d.Result)
		return
	}
	rd := resDecls[0]
	if len(resDecls) > 1 {
		rd = resDecls[c.Choose(len(resDecls))]
	}
	resT := m.Type().Out(0)
	wantRes := reflect.New(resT).Elem()
	var resBody []byte
	var err error
	if _, isSum := resT.FieldByName("SumType"); isSum {
		fv, ok := c10.FieldByKey(wantRes, rd.Name)
		if !ok {
			c.Fail("binding-shape:"+d.Name, "result sum type lacks %s", rd.Name)
			return
		}
		wantRes.FieldByName("SumType").SetString(c10.FieldNameByKey(resT, rd.Name))
		resBody, err = env.BuildDecl(c, rd, fv)
	} else {
		resBody, err = env.BuildDecl(c, rd, wantRes)
	}
	if err != nil {
		c.Fail("binding-shape:"+d.Result, "%v", err)
		return
	}
	var answer []byte
	switch kind {
	case 0:
		answer = append(rtl.U32(rd.ID), resBody...)
	case 1:
		answer = append(rtl.U32(0xbba9e148), append(rtl.U32(651), rtl.Bytes([]byte("block is not applied"))...)...)
	case 2:
		answer = append(rtl.U32(0x12345678), resBody...)
	case 3:
		answer = []byte{1, 2}
	}
	client.Elem().FieldByName("Reply").Set(reflect.ValueOf(func(q []byte) ([]byte, error) { return answer, nil }))
	c.Case(append([]byte(fmt.Sprintf("%s/%d/", d.Name, kind)), append(wantReq, answer...)...), true)
	rets := m.Call(args)
	var rerr error
	if !rets[1].IsNil() {
		rerr = rets[1].Interface().(error)
	}
	sent := client.Elem().FieldByName("Sent").Interface().([][]byte)
	if len(sent) != 1 {
		c.Fail("request-count:"+d.Name, "%d payloads handed to the transport for one call (error %v)", len(sent), rerr)
		return
	}
	if !bytes.Equal(sent[0], wantReq) {
		c.Fail("request-bytes:"+d.Name, "payload handed to the transport: %s, schema prescribes %s", c10.Short(sent[0]), c10.Short(wantReq))
		return
	}
	switch kind {
	case 0:
		if rerr != nil {
			c.Fail("answer-rejected:"+d.Name, "valid answer rejected: %v", rerr)
		} else if diff := gen.Equal(wantRes, c10.Addressable(rets[0])); diff != "" {
			c.Fail("answer-value:"+d.Name, "parsed answer differs at %s", diff)
		}
	case 1:
		ok := rerr != nil && strings.Contains(rerr.Error(), "651") && strings.Contains(rerr.Error(), "block is not applied")
		if !ok {
			c.Fail("error-answer:"+d.Name, "liteServer.error answer gives %T %v", rerr, rerr)
		}
	default:
		if rerr == nil {
			c.Fail("bad-answer-accepted:"+d.Name, "answer kind %d accepted", kind)
		}
	}
	if kind == 0 && p.Decode != nil {
		tag, name, decoded, err := p.Decode(wantReq)
		if err != nil || tag != d.ID || name == nil || *name != d.Name {
			c.Fail("request-decoder:"+d.Name, "request decoder table: tag %x name %v err %v", tag, name, err)
		} else if len(args) == 2 {
			if decoded == nil {
				c.Fail("request-decoder:"+d.Name, "request decoder returned no body")
			} else if diff := gen.Equal(c10.Addressable(args[1]), c10.Addressable(reflect.ValueOf(decoded))); diff != "" {
				c.Fail("request-decoder-value:"+d.Name, "decoded request differs at %s", diff)
			}
		}
	}
	c.Outcome(fmt.Sprintf("kind%d", kind))
}

// ---- TL-B builder: Go value and reference bits in one pass ----------------------------------------------------------

type tbuild struct {
	c     *enum.Ctx
	s     c09s.TLBSchema
	p     all.Pkg
	seed  int
	dicts map[*cell.Cell]int // dictionary roots of the reference encoding -> key width
}

// sameModuloLabels compares the encoded cell with the reference cell bit for bit, except that below a dictionary root
// (whose edge labels may legitimately use any of the three label forms) the key -> value mappings are compared.
func sameModuloLabels(got, want *cell.Cell, dicts map[*cell.Cell]int) string {
	if n, ok := dicts[want]; ok {
		raw := func(rest bits.Bits, refs []*cell.Cell) (dict.Value, error) {
			return dict.Value{Bits: rest, Refs: refs}, nil
		}
		ge, err := dict.Parse(got, n, raw)
		if err != nil {
			return "the encoded dictionary is malformed: " + err.Error()
		}
		we, err := dict.Parse(want, n, raw)
		if err != nil {
			return "reference dictionary: " + err.Error()
		}
		if len(ge) != len(we) {
			return fmt.Sprintf("dictionary with %d entries, want %d", len(ge), len(we))
		}
		for k := range we {
			if !ge[k].Key.Equal(we[k].Key) || !ge[k].Value.Bits.Equal(we[k].Value.Bits) || len(ge[k].Value.Refs) != len(we[k].Value.Refs) {
				return fmt.Sprintf("dictionary entry %d is %s -> %s, want %s -> %s", k, ge[k].Key, ge[k].Value.Bits, we[k].Key, we[k].Value.Bits)
			}
			for j := range we[k].Value.Refs {
				if d := sameModuloLabels(ge[k].Value.Refs[j], we[k].Value.Refs[j], dicts); d != "" {
					return d
				}
			}
		}
		return ""
	}
	if got.BitLen != want.BitLen || !bytes.Equal(got.PaddedData(), want.PaddedData()) || got.Special != want.Special {
		return fmt.Sprintf("cell %s, want %s", got.Describe(), want.Describe())
	}
	if len(got.Refs) != len(want.Refs) {
		return fmt.Sprintf("cell with %d references, want %d", len(got.Refs), len(want.Refs))
	}
	for k := range want.Refs {
		if d := sameModuloLabels(got.Refs[k], want.Refs[k], dicts); d != "" {
			return d
		}
	}
	return ""
}

func pick(c *enum.Ctx, vals []*big.Int) *big.Int { return vals[c.Choose(len(vals))] }

func uintVals(n, seed int) []*big.Int {
	if n <= 3 {
		var out []*big.Int
		for v := 0; v < 1<<uint(n); v++ {
			out = append(out, big.NewInt(int64((v+1)%(1<<uint(n)))))
		}
		return out
	}
	return gen.UintAlphabet(n, seed)
}

func intVals(n, seed int) []*big.Int {
	if n <= 3 {
		var out []*big.Int
		for v := -(1 << uint(n-1)); v < 1<<uint(n-1); v++ {
			out = append(out, big.NewInt(int64(v)))
		}
		return out
	}
	return gen.IntAlphabet(n, seed)
}

// parsePrefix returns the bits of a constructor prefix.
func parsePrefix(p string) (bits.Bits, uint64) {
	if p == "" || p == "#_" || p == "$_" {
		return nil, 0
	}
	var out bits.Bits
	var val uint64
	if p[0] == '$' {
		for _, ch := range p[1:] {
			out = append(out, ch == '1')
			val = val<<1 | uint64(ch-'0')
		}
		return out, val
	}
	for _, ch := range p[1:] {
		var d uint64
		if ch >= '0' && ch <= '9' {
			d = uint64(ch - '0')
		} else {
			d = uint64(ch-'a') + 10
		}
		val = val<<4 | d
		for k := 3; k >= 0; k-- {
			out = append(out, d>>uint(k)&1 == 1)
		}
	}
	return out, val
}

func (b *tbuild) fieldOf(v reflect.Value, name string) (reflect.Value, error) {
	fv, ok := c10.FieldByKey(v, name)
	if !ok {
		return reflect.Value{}, fmt.Errorf("Go type %v has no field for %q", v.Type(), name)
	}
	return fv, nil
}

// decl builds the fields of one constructor into struct value v.
func (b *tbuild) decl(d *c09s.Decl, v reflect.Value, w *te.B, withMagic bool) error {
	if v.Kind() != reflect.Struct {
		return fmt.Errorf("%s: Go type %v is not a struct", d.Constructor, v.Type())
	}
	pfx, val := parsePrefix(d.Prefix)
	seen := map[string]bool{}
	if withMagic {
		w.Raw(pfx)
		if len(pfx) > 0 {
			mv := v.FieldByName("Magic")
			if !mv.IsValid() || mv.Kind() != reflect.Uint32 {
				return fmt.Errorf("%s: constructor prefix %s but the Go struct has no Magic field", d.Constructor, d.Prefix)
			}
			mv.SetUint(val)
			seen["magic"] = true
		}
	}
	for _, f := range d.Fields {
		fv, err := b.fieldOf(v, f.Name)
		if err != nil {
			return fmt.Errorf("%s: %v", d.Constructor, err)
		}
		seen[rtl.CamelKey(f.Name)] = true
		if err := b.value(f.T, fv, w); err != nil {
			return fmt.Errorf("%s.%s: %v", d.Constructor, f.Name, err)
		}
	}
	for k := 0; k < v.NumField(); k++ {
		if !seen[rtl.CamelKey(v.Type().Field(k).Name)] {
			return fmt.Errorf("%s: Go field %s has no counterpart in the declaration", d.Constructor, v.Type().Field(k).Name)
		}
	}
	return nil
}

// named builds a value of a declared type (simple or sum).
func (b *tbuild) named(name string, v reflect.Value, w *te.B) error {
	ds := b.s.ByCombinator(name)
	if len(ds) == 0 {
		return fmt.Errorf("type %s is not declared", name)
	}
	if len(ds) == 1 {
		return b.decl(ds[0], v, w, true)
	}
	st := v.FieldByName("SumType")
	if !st.IsValid() {
		return fmt.Errorf("%s has %d constructors but Go type %v is not a sum type", name, len(ds), v.Type())
	}
	d := ds[b.c.Choose(len(ds))]
	fname := c10.FieldNameByKey(v.Type(), d.Constructor)
	if fname == "" {
		return fmt.Errorf("sum type %v has no field for constructor %s", v.Type(), d.Constructor)
	}
	sf, _ := v.Type().FieldByName(fname)
	if got := sf.Tag.Get("tlbSumType"); got != d.Prefix {
		// the tag text is what the reflection codec encodes; judged through the bits below, reported here for clarity only if it differs
		_ = got
	}
	st.SetString(fname)
	pfx, _ := parsePrefix(d.Prefix)
	w.Raw(pfx)
	return b.decl(d, v.FieldByName(fname), w, false)
}

func (b *tbuild) setBig(v reflect.Value, kind string, n int, x *big.Int) error {
	ok := true
	func() {
		defer func() {
			if r := recover(); r != nil {
				ok = false
			}
		}()
		tlbx.SetInt(v, tlbx.IntKind{Kind: kind, N: n}, x)
	}()
	if !ok {
		return fmt.Errorf("cannot store a %s%d value into Go type %v", kind, n, v.Type())
	}
	return nil
}

func wantGoKind(v reflect.Value, n int, signed bool) error {
	native := n == 8 || n == 16 || n == 32 || n == 64
	t := v.Type()
	want := ""
	switch {
	case native && signed:
		want = fmt.Sprintf("int%d", n)
	case native:
		want = fmt.Sprintf("uint%d", n)
	case signed:
		want = fmt.Sprintf("tlb.Int%d", n)
	default:
		want = fmt.Sprintf("tlb.Uint%d", n)
	}
	if t.String() != want {
		return fmt.Errorf("a %d-bit field is generated as Go type %v (want %s)", n, t, want)
	}
	return nil
}

func (b *tbuild) value(t *c09s.T, v reflect.Value, w *te.B) error {
	c := b.c
	switch t.K {
	case "uint", "nat":
		if err := wantGoKind(v, t.N, false); err != nil {
			return err
		}
		x := pick(c, uintVals(t.N, b.seed))
		w.Raw(bits.FromUint(x, t.N))
		return b.setBig(v, "uint", t.N, x)
	case "int":
		if err := wantGoKind(v, t.N, true); err != nil {
			return err
		}
		x := pick(c, intVals(t.N, b.seed))
		w.Raw(bits.FromInt(x, t.N))
		return b.setBig(v, "int", t.N, x)
	case "bits":
		if v.Type().String() != fmt.Sprintf("tlb.Bits%d", t.N) {
			return fmt.Errorf("bits%d is generated as Go type %v", t.N, v.Type())
		}
		vals := []*big.Int{bits.Pattern(b.seed, t.N).Uint(), big.NewInt(0), new(big.Int).Sub(new(big.Int).Lsh(big.NewInt(1), uint(t.N)), big.NewInt(1)), big.NewInt(1)}
		x := pick(c, vals)
		w.Raw(bits.FromUint(x, t.N))
		return b.setBig(v, "bits", t.N, x)
	case "#":
		if v.Kind() != reflect.Uint32 {
			return fmt.Errorf("# is generated as Go type %v", v.Type())
		}
		x := pick(c, uintVals(32, b.seed))
		w.Raw(bits.FromUint(x, 32))
		v.SetUint(x.Uint64())
		return nil
	case "Bool":
		if v.Kind() != reflect.Bool {
			return fmt.Errorf("Bool is generated as Go type %v", v.Type())
		}
		x := c.Choose(2) == 0
		w.Bit(x)
		v.SetBool(x)
		return nil
	case "Coins":
		if v.Type() != reflect.TypeOf(tlb.Grams(0)) {
			return fmt.Errorf("Coins is generated as Go type %v", v.Type())
		}
		x := []uint64{1_000_000_000, 0, 1, 255, 256, 1 << 63, 1<<64 - 1}[c.Choose(7)]
		w.Grams(x)
		v.SetUint(x)
		return nil
	case "VarUInteger":
		if v.Type().String() != fmt.Sprintf("tlb.VarUInteger%d", t.N) {
			return fmt.Errorf("VarUInteger %d is generated as Go type %v", t.N, v.Type())
		}
		x := pick(c, append([]*big.Int{big.NewInt(77)}, gen.VarUintAlphabet(t.N)...))
		w.VarUint(x, t.N)
		return b.setBig(v, "var", t.N, x)
	case "MsgAddress":
		if v.Type() != reflect.TypeOf(tlb.MsgAddress{}) {
			return fmt.Errorf("MsgAddress is generated as Go type %v", v.Type())
		}
		var a tlb.MsgAddress
		switch c.Choose(3) {
		case 0:
			a.SumType = "AddrStd"
			a.AddrStd.WorkchainId = -1
			for k := range a.AddrStd.Address {
				a.AddrStd.Address[k] = byte(k*3 + b.seed)
			}
			w.Uint(2, 2).Bit(false).Int(-1, 8).Raw(bits.FromBytes(a.AddrStd.Address[:], 256))
		case 1:
			a.SumType = "AddrNone"
			w.Uint(0, 2)
		case 2:
			a.SumType = "AddrStd"
			w.Uint(2, 2).Bit(false).Int(0, 8).Raw(bits.FromBytes(a.AddrStd.Address[:], 256))
		}
		v.Set(reflect.ValueOf(a))
		return nil
	case "Cell":
		if v.Type() != reflect.TypeOf(tlb.Any{}) {
			return fmt.Errorf("Cell is generated as Go type %v", v.Type())
		}
		leaf := cell.MustNew([]byte{0xAB}, 8, nil, false)
		pool := []*cell.Cell{cell.MustNew([]byte{0xC0, 0xFF, 0xEE}, 24, []*cell.Cell{leaf}, false), cell.MustNew(nil, 0, nil, false), leaf, cell.MustNew([]byte{0xA0}, 3, nil, false)}
		rc := pool[c.Choose(len(pool))]
		tc, err := conv.ToTongo(rc, true)
		if err != nil {
			return err
		}
		w.Append(rc)
		v.Set(reflect.ValueOf(tlb.Any(*tc)))
		return nil
	case "Maybe", "MaybeRef":
		if v.Kind() != reflect.Pointer {
			return fmt.Errorf("%s is generated as Go type %v (want a pointer)", t, v.Type())
		}
		if c.Choose(2) == 1 {
			w.Bit(false)
			return nil
		}
		w.Bit(true)
		pv := reflect.New(v.Type().Elem())
		v.Set(pv)
		if t.K == "Maybe" {
			return b.value(t.A, pv.Elem(), w)
		}
		nw := &te.B{}
		if err := b.value(t.A, pv.Elem(), nw); err != nil {
			return err
		}
		rc, err := nw.Cell()
		if err != nil {
			return err
		}
		w.Ref(rc)
		return nil
	case "Ref":
		if strings.HasPrefix(v.Type().String(), "tlb.Ref[") && v.Kind() == reflect.Struct {
			v = v.FieldByName("Value") // ^X as a type argument is generated as tlb.Ref[X]
		}
		nw := &te.B{}
		if err := b.value(t.A, v, nw); err != nil {
			return err
		}
		rc, err := nw.Cell()
		if err != nil {
			return err
		}
		w.Ref(rc)
		return nil
	case "Either":
		if v.Kind() != reflect.Struct || !v.FieldByName("IsRight").IsValid() || !v.FieldByName("Left").IsValid() {
			return fmt.Errorf("%s is generated as Go type %v (want tlb.Either)", t, v.Type())
		}
		right := c.Choose(2) == 1
		w.Bit(right)
		v.FieldByName("IsRight").SetBool(right)
		if right {
			return b.value(t.B, v.FieldByName("Right"), w)
		}
		return b.value(t.A, v.FieldByName("Left"), w)
	case "EitherRef":
		if v.Kind() != reflect.Struct || !v.FieldByName("IsRight").IsValid() || !v.FieldByName("Value").IsValid() {
			return fmt.Errorf("%s is generated as Go type %v (want tlb.EitherRef)", t, v.Type())
		}
		right := c.Choose(2) == 1
		w.Bit(right)
		v.FieldByName("IsRight").SetBool(right)
		if !right {
			return b.value(t.A, v.FieldByName("Value"), w)
		}
		nw := &te.B{}
		if err := b.value(t.A, v.FieldByName("Value"), nw); err != nil {
			return err
		}
		rc, err := nw.Cell()
		if err != nil {
			return err
		}
		w.Ref(rc)
		return nil
	case "HashmapE", "HashmapERef":
		put := v.Addr().MethodByName("Put")
		if !put.IsValid() {
			return fmt.Errorf("%s is generated as Go type %v (no Put method)", t, v.Type())
		}
		kt, vt := put.Type().In(0), put.Type().In(1)
		wantK := fmt.Sprintf("tlb.Uint%d", t.N)
		kkind := "uint"
		if t.N > 64 {
			wantK, kkind = fmt.Sprintf("tlb.Bits%d", t.N), "bits"
		}
		if kt.String() != wantK {
			return fmt.Errorf("the %d-bit keys of %s are generated as Go type %v (want %s)", t.N, t, kt, wantK)
		}
		count := []int{1, 0, 2, 3}[c.Choose(4)]
		if t.N == 1 && count > 2 {
			count = 2
		}
		keys := []*big.Int{big.NewInt(1), big.NewInt(0), new(big.Int).Sub(new(big.Int).Lsh(big.NewInt(1), uint(t.N)), big.NewInt(1))}
		var es []dict.Entry
		for k := 0; k < count; k++ {
			kv := reflect.New(kt).Elem()
			if err := b.setBig(kv, kkind, t.N, keys[k]); err != nil {
				return err
			}
			vv := reflect.New(vt).Elem()
			lw := &te.B{}
			if t.K == "HashmapERef" {
				if vv.Kind() != reflect.Struct || !vv.FieldByName("Value").IsValid() {
					return fmt.Errorf("the ^values of %s are generated as Go type %v (want tlb.Ref)", t, vt)
				}
				nw := &te.B{}
				if err := b.value(t.A, vv.FieldByName("Value"), nw); err != nil {
					return err
				}
				rc, err := nw.Cell()
				if err != nil {
					return err
				}
				lw.Ref(rc)
			} else if err := b.value(t.A, vv, lw); err != nil {
				return err
			}
			put.Call([]reflect.Value{kv, vv})
			es = append(es, dict.Entry{Key: bits.FromUint(keys[k], t.N), Value: dict.Value{Bits: lw.Bits, Refs: lw.Refs}})
		}
		if count == 0 {
			w.Bit(false)
			return nil
		}
		dict.Sort(es)
		root, err := dict.Build(es, t.N, func(int, bits.Bits, int) dict.Form { return dict.Shortest })
		if err != nil {
			return err
		}
		b.dicts[root] = t.N
		w.Bit(true).Ref(root)
		return nil
	case "Named":
		return b.named(t.Name, v, w)
	}
	return fmt.Errorf("unknown type kind %q", t.K)
}

func tlbCase(c *enum.Ctx, s c09s.TLBSchema, p all.Pkg, name string, seed int) {
	gt, ok := p.Types[name]
	if !ok {
		c.Fail("no-go-type:"+s.Name+"."+name, "declared type %s has no generated Go struct", name)
		return
	}
	b := &tbuild{c: c, s: s, p: p, seed: seed, dicts: map[*cell.Cell]int{}}
	v := reflect.New(gt).Elem()
	w := &te.B{}
	if err := b.named(name, v, w); err != nil {
		c.Fail("binding-shape:"+s.Name+"."+name, "%v", err)
		return
	}
	want, err := w.Cell()
	if err != nil {
		c.Fail("setup", "reference cell: %v", err)
		return
	}
	c.Case([]byte(s.Name+"."+name+"/"+want.Describe()), true)
	got := tb.NewCell()
	if err := tlb.Marshal(got, v.Interface()); err != nil {
		c.Fail("marshal-error:"+s.Name+"."+name, "tlb.Marshal of the generated type: %v", err)
		return
	}
	rg, err := conv.FromTongo(got)
	if err != nil {
		c.Fail("marshal-error:"+s.Name+"."+name, "encoded cell is malformed: %v", err)
		return
	}
	if rg.ReprHash() != want.ReprHash() {
		if diff := sameModuloLabels(rg, want, b.dicts); diff != "" {
			c.Fail("marshal-bits:"+s.Name+"."+name, "tlb.Marshal gives %s, the declaration prescribes %s (%s)", rg.Describe(), want.Describe(), diff)
			return
		}
	}
	tc, err := conv.ToTongo(want, true)
	if err != nil {
		c.Fail("setup", "%v", err)
		return
	}
	back := reflect.New(gt)
	if err := tlb.Unmarshal(tc, back.Interface()); err != nil {
		c.Fail("unmarshal-error:"+s.Name+"."+name, "tlb.Unmarshal of the prescribed encoding: %v", err)
		return
	}
	if diff := gen.Equal(v, back.Elem()); diff != "" {
		c.Fail("unmarshal-value:"+s.Name+"."+name, "decoded value differs at %s", diff)
		return
	}
	c.Outcome("ok")
}
