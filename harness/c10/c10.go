// Package c10: lite-server API bindings speak exactly the wire format of lite_api.tl.
package c10

import (
	"bytes"
	"context"
	"encoding/binary"
	"fmt"
	"go/format"
	"io"
	"os"
	"os/exec"
	"path/filepath"
	"reflect"
	"strings"
	"testing/iotest"
	"time"

	"github.com/tonkeeper/tongo/liteclient"
	"github.com/tonkeeper/tongo/tl"
	"github.com/tonkeeper/tongo/ton"

	"verif/fw"
	"verif/gen"
	"verif/gen/registry"
	"verif/mc/enum"
	"verif/realdata"
	rtl "verif/ref/tl"
)

func init() {
	fw.Register(&fw.Property{
		ID: "C10",
		Rule: "liteclient/lite_api.tl is parsed by an independent line-based schema parser; every constructor and function is matched to its Go type by name; per type: all combinations of the mode bits the schema uses x per-field alphabets " +
			"(ints {0,1,2^31,max}; byte strings of every length 0..1100 for one field and {0..4,253..257,65535,65536,2^24-1} elsewhere; vectors of length 0..3; every constructor of boxed types) with at most D deviating fields; " +
			"MarshalTL bytes and UnmarshalTL of the reference bytes are compared; every (*Client).LiteServer* method is called over a synchronous capturing transport and the bytes handed to the connection and the parsing of {answer, liteServer.error, wrong tag, short answer} are checked; " +
			"the request decoder table is checked for every function; the repository's generators are re-run on a scratch copy and compared with the checked-in artifacts; distinct = (declaration, value); non-trivial = always",
		Assume: []string{
			"reference TL primitives and schema parser in /verif/ref/tl",
			"the client is built in-package (file added through the build overlay) over a connection whose cipher is the identity and whose socket answers synchronously; no goroutines",
			"generator determinism is exercised by repetition only",
		},
		Harnesses: harnesses,
	})
}

type env struct {
	schema *rtl.Schema
	goType map[string]reflect.Type // CamelKey(go type name) -> type
	seed   int
}

func loadEnv(seed int) (*env, error) {
	b, err := os.ReadFile(filepath.Join(realdata.Repo, "liteclient", "lite_api.tl"))
	if err != nil {
		return nil, err
	}
	s, err := rtl.Parse(string(b))
	if err != nil {
		return nil, err
	}
	e := &env{schema: s, goType: map[string]reflect.Type{}, seed: seed}
	for _, r := range registry.ByPackage("liteclient.") {
		e.goType[rtl.CamelKey(strings.TrimPrefix(r.Name, "liteclient."))] = r.Type
	}
	return e, nil
}

func (e *env) typeOfConstructor(d *rtl.Decl) reflect.Type {
	if d.Func {
		return e.goType[rtl.CamelKey(d.Name)+"request"]
	}
	return e.goType[rtl.CamelKey(d.Name)+"c"]
}

var bytesLens = []int{5, 0, 1, 2, 3, 4, 253, 254, 255, 256, 257, 65535, 65536}

// Mark is the position of a length / count prefix or a constructor id inside a reference encoding.
type Mark struct {
	Off, Len int
	Kind     string // "bytes-len", "vector-count", "tag", "flags"
}

type builder struct {
	marks    []Mark
	base     int
	e        *env
	c        *enum.Ctx
	longLen  int // >=0: the first bytes field takes exactly this length (every length 0..1100)
	usedLong bool
}

func (b *builder) pattern(n int) []byte {
	out := make([]byte, n)
	for i := range out {
		out[i] = byte(i*31 + b.e.seed + 7)
	}
	return out
}

func fieldByKey(v reflect.Value, name string) (reflect.Value, bool) {
	t := v.Type()
	k := rtl.CamelKey(name)
	for i := 0; i < t.NumField(); i++ {
		if rtl.CamelKey(t.Field(i).Name) == k {
			return v.Field(i), true
		}
	}
	return reflect.Value{}, false
}

// value builds a value of schema type typ into Go value v (addressable) and returns the reference encoding.
func (b *builder) value(typ string, v reflect.Value) ([]byte, error) {
	if v.IsValid() && v.Kind() == reflect.Pointer {
		p := reflect.New(v.Type().Elem())
		out, err := b.value(typ, p.Elem())
		v.Set(p)
		return out, err
	}
	c := b.c
	switch {
	case typ == "int" || typ == "#":
		x := []uint32{7, 0, 1, 1 << 31, 1<<32 - 1}[c.Choose(5)]
		switch v.Kind() {
		case reflect.Uint32:
			v.SetUint(uint64(x))
		case reflect.Int32:
			v.SetInt(int64(int32(x)))
		default:
			return nil, fmt.Errorf("schema int but Go kind %v", v.Kind())
		}
		return rtl.U32(x), nil
	case typ == "long":
		x := []uint64{9, 0, 1, 1 << 63, 1<<64 - 1}[c.Choose(5)]
		switch v.Kind() {
		case reflect.Uint64:
			v.SetUint(x)
		case reflect.Int64:
			v.SetInt(int64(x))
		default:
			return nil, fmt.Errorf("schema long but Go kind %v", v.Kind())
		}
		return rtl.U64(x), nil
	case typ == "int256":
		d := b.pattern(32)
		if c.Choose(2) == 1 {
			d = make([]byte, 32)
		}
		if v.Kind() != reflect.Array || v.Len() != 32 {
			return nil, fmt.Errorf("schema int256 but Go type %v", v.Type())
		}
		reflect.Copy(v, reflect.ValueOf(d))
		return d, nil
	case typ == "bytes" || typ == "string":
		n := 0
		isNil := false
		if b.longLen >= 0 && !b.usedLong {
			b.usedLong = true
			n = b.longLen
		} else {
			k := c.Choose(len(bytesLens) + 1)
			if k == len(bytesLens) {
				isNil = true // the empty byte string as Go programs usually hold it: a nil slice
			} else {
				n = bytesLens[k]
			}
		}
		d := b.pattern(n)
		switch v.Kind() {
		case reflect.Slice:
			v.SetBytes(append([]byte{}, d...))
			if isNil {
				v.Set(reflect.Zero(v.Type()))
			}
		case reflect.String:
			v.SetString(string(d))
		default:
			return nil, fmt.Errorf("schema %s but Go type %v", typ, v.Type())
		}
		return rtl.Bytes(d), nil
	case typ == "Bool":
		x := c.Choose(2) == 1
		if v.Kind() != reflect.Bool {
			return nil, fmt.Errorf("schema Bool but Go type %v", v.Type())
		}
		v.SetBool(x)
		return rtl.Bool(x), nil
	case strings.HasPrefix(typ, "vector "):
		el := strings.TrimSpace(strings.TrimPrefix(typ, "vector "))
		n := []int{1, 0, 2, 3, -1}[c.Choose(5)]
		isNil := n < 0 // the empty vector as a nil slice
		if isNil {
			n = 0
		}
		if v.Kind() != reflect.Slice {
			return nil, fmt.Errorf("schema vector but Go type %v", v.Type())
		}
		s := reflect.MakeSlice(v.Type(), n, n)
		out := rtl.U32(uint32(n))
		for i := 0; i < n; i++ {
			eb, err := b.value(el, s.Index(i))
			if err != nil {
				return nil, err
			}
			out = append(out, eb...)
		}
		v.Set(s)
		if isNil {
			v.Set(reflect.Zero(v.Type()))
		}
		return out, nil
	}
	if d := b.e.schema.Constructor(typ); d != nil && !d.Func {
		return b.decl(d, v) // bare
	}
	if ds := b.e.schema.Boxed(typ); len(ds) > 0 {
		k := 0
		if len(ds) > 1 {
			k = c.Choose(len(ds))
		}
		d := ds[k]
		out := rtl.U32(d.ID)
		if _, ok := v.Type().FieldByName("SumType"); ok {
			fv, ok := fieldByKey(v, d.Name)
			if !ok {
				return nil, fmt.Errorf("Go sum type %v has no field for constructor %s", v.Type(), d.Name)
			}
			ft, _ := v.Type().FieldByName(fieldNameByKey(v.Type(), d.Name))
			v.FieldByName("SumType").SetString(ft.Name)
			body, err := b.decl(d, fv)
			return append(out, body...), err
		}
		body, err := b.decl(d, v)
		return append(out, body...), err
	}
	return nil, fmt.Errorf("unknown schema type %q", typ)
}

func fieldNameByKey(t reflect.Type, name string) string {
	k := rtl.CamelKey(name)
	for i := 0; i < t.NumField(); i++ {
		if rtl.CamelKey(t.Field(i).Name) == k {
			return t.Field(i).Name
		}
	}
	return ""
}

// decl builds the fields of one combinator (without constructor id).
func (b *builder) decl(d *rtl.Decl, v reflect.Value) ([]byte, error) {
	if v.Kind() != reflect.Struct {
		return nil, fmt.Errorf("%s: Go type %v is not a struct", d.Name, v.Type())
	}
	// which flag bits does the schema use?
	used := map[string][]int{}
	for _, f := range d.Fields {
		if f.Flag != "" {
			dup := false
			for _, x := range used[f.Flag] {
				if x == f.Bit {
					dup = true
				}
			}
			if !dup {
				used[f.Flag] = append(used[f.Flag], f.Bit)
			}
		}
	}
	flags := map[string]uint32{}
	var out []byte
	seenFields := map[string]bool{}
	for _, f := range d.Fields {
		if f.Type == "#" {
			if bits, ok := used[f.Name]; ok {
				// every combination of the bits in use
				comb := b.c.ChooseFree(1 << uint(len(bits)))
				var m uint32
				for i, bit := range bits {
					if comb>>uint(i)&1 == 1 {
						m |= 1 << uint(bit)
					}
				}
				flags[f.Name] = m
				fv, ok := fieldByKey(v, f.Name)
				if !ok || fv.Kind() != reflect.Uint32 {
					return nil, fmt.Errorf("%s: no uint32 Go field for flags field %s", d.Name, f.Name)
				}
				fv.SetUint(uint64(m))
				seenFields[rtl.CamelKey(f.Name)] = true
				out = append(out, rtl.U32(m)...)
				continue
			}
		}
		present := true
		if f.Flag != "" {
			present = flags[f.Flag]>>uint(f.Bit)&1 == 1
		}
		if f.Type == "true" {
			continue // zero bytes on the wire, no Go field
		}
		fv, ok := fieldByKey(v, f.Name)
		if !ok {
			return nil, fmt.Errorf("%s: Go type %v has no field for %s", d.Name, v.Type(), f.Name)
		}
		seenFields[rtl.CamelKey(f.Name)] = true
		if !present {
			continue
		}
		fb, err := b.value(f.Type, fv)
		if err != nil {
			return nil, fmt.Errorf("%s.%s: %v", d.Name, f.Name, err)
		}
		out = append(out, fb...)
	}
	for i := 0; i < v.NumField(); i++ {
		if !seenFields[rtl.CamelKey(v.Type().Field(i).Name)] {
			return nil, fmt.Errorf("%s: Go field %s has no counterpart in the schema", d.Name, v.Type().Field(i).Name)
		}
	}
	return out, nil
}

// Codec builds one value of declaration d (choices from c), compares MarshalTL with the schema's byte layout and
// decodes the reference bytes back. longLen >= 0 forces the length of the first byte string.
func (e *env) Codec(c *enum.Ctx, d *rtl.Decl, longLen int) (reflect.Value, []byte, bool) {
	t := e.typeOfConstructor(d)
	boxed := false
	if t == nil {
		// a constructor of a multi-constructor type: the Go binding is the boxed sum type
		if st := e.goType[rtl.CamelKey(d.Result)]; st != nil && !d.Func {
			t, boxed = st, true
		} else if strings.HasPrefix(d.Name, "adnl.message.") {
			c.Skip() // framed by hand in client.go; checked through the request methods
			return reflect.Value{}, nil, false
		} else {
			c.Fail("no-go-type:"+d.Name, "schema declaration %s has no Go type", d.Name)
			return reflect.Value{}, nil, false
		}
	}
	v := reflect.New(t).Elem()
	b := &builder{e: e, c: c, longLen: longLen}
	var want []byte
	var err error
	if boxed {
		fv, ok := fieldByKey(v, d.Name)
		if !ok {
			c.Fail("binding-shape:"+d.Name, "sum type %v has no field for %s", t, d.Name)
			return v, nil, false
		}
		v.FieldByName("SumType").SetString(fieldNameByKey(t, d.Name))
		want, err = b.decl(d, fv)
		want = append(rtl.U32(d.ID), want...)
	} else {
		want, err = b.decl(d, v)
	}
	if err != nil {
		c.Fail("binding-shape:"+d.Name, "%v", err)
		return v, nil, false
	}
	if c.Dry() {
		return v, want, false
	}
	got, err := marshalTL(v)
	if err != nil {
		c.Fail("marshal-error:"+d.Name, "MarshalTL: %v", err)
		return v, want, false
	}
	if !bytes.Equal(got, want) {
		c.Fail("marshal-bytes:"+d.Name, "MarshalTL of %s gives %s, schema prescribes %s", d.Name, short(got), short(want))
		return v, want, false
	}
	back := reflect.New(t)
	rd := bytes.NewReader(want)
	if err := tl.Unmarshal(rd, back.Interface()); err != nil {
		c.Fail("unmarshal-error:"+d.Name, "UnmarshalTL of the schema encoding fails: %v", err)
		return v, want, false
	}
	if rd.Len() != 0 {
		c.Fail("unmarshal-leftover:"+d.Name, "UnmarshalTL left %d bytes unread", rd.Len())
	}
	if diff := gen.Equal(v, back.Elem()); diff != "" {
		c.Fail("unmarshal-value:"+d.Name, "UnmarshalTL(schema bytes) differs from the value at %s", diff)
		return v, want, false
	}
	// "optional fields present exactly when their mode bit is set" also when the destination was used before: the value
	// is decoded into a destination that first received an encoding of the same declaration with every flag bit set
	if prev, prevBytes, ok := e.allFlagsValue(d, t); ok && !boxedOnly(boxed) {
		dst := reflect.New(t)
		if tl.Unmarshal(bytes.NewReader(prevBytes), dst.Interface()) == nil {
			_ = prev
			if err := tl.Unmarshal(bytes.NewReader(want), dst.Interface()); err != nil {
				c.Fail("unmarshal-into-used-destination:"+d.Name, "UnmarshalTL into a destination used before fails: %v", err)
				return v, want, false
			}
			if diff := gen.Equal(v, dst.Elem()); diff != "" {
				c.Fail("unmarshal-into-used-destination:"+d.Name, "decoding into a destination that held a value with all optional fields present differs from the value at %s", diff)
				return v, want, false
			}
		}
	}
	// the same bytes arriving in pieces (one byte per Read; the last piece together with io.EOF)
	for name, rd2 := range map[string]io.Reader{"one byte at a time": iotest.OneByteReader(bytes.NewReader(want)), "data together with EOF": iotest.DataErrReader(bytes.NewReader(want))} {
		b2 := reflect.New(t)
		if err := tl.Unmarshal(rd2, b2.Interface()); err != nil {
			c.Fail("unmarshal-chunked:"+d.Name, "UnmarshalTL through a reader delivering %s fails: %v", name, err)
			return v, want, false
		}
		if diff := gen.Equal(v, b2.Elem()); diff != "" {
			c.Fail("unmarshal-chunked:"+d.Name, "UnmarshalTL through a reader delivering %s differs from the value at %s", name, diff)
			return v, want, false
		}
	}
	// the reader may be a bytes.Buffer the caller goes on using: what was decoded stays what it was when the buffer is
	// reset and refilled (a connection's receive buffer), and the bytes behind the message stay unread
	{
		raw := append(append([]byte{}, want...), 0xEE, 0xEE, 0xEE, 0xEE)
		buf := bytes.NewBuffer(raw)
		b3 := reflect.New(t)
		if err := tl.Unmarshal(buf, b3.Interface()); err != nil {
			c.Fail("unmarshal-buffer:"+d.Name, "UnmarshalTL from a bytes.Buffer fails: %v", err)
			return v, want, false
		}
		if rest := buf.Bytes(); len(rest) != 4 || rest[0] != 0xEE {
			c.Fail("unmarshal-buffer:"+d.Name, "UnmarshalTL from a bytes.Buffer left %d bytes unread (4 follow the message)", len(rest))
			return v, want, false
		}
		buf.Reset()
		for i := 0; i < len(raw); i++ {
			buf.WriteByte(0x5A)
		}
		if diff := gen.Equal(v, b3.Elem()); diff != "" {
			c.Fail("unmarshal-buffer-aliased:"+d.Name, "a value decoded from a bytes.Buffer changes when the buffer is reused: differs at %s", diff)
			return v, want, false
		}
	}
	return v, want, true
}

func marshalTL(v reflect.Value) ([]byte, error) {
	if m, ok := v.Interface().(tl.MarshalerTL); ok {
		return m.MarshalTL()
	}
	return tl.Marshal(v.Interface())
}

func harnesses(r *fw.Run) []fw.HarnessSpec {
	seed := int(r.Seed)
	var hs []fw.HarnessSpec
	// the decoders under test may die on a mis-sized length prefix (allocation of the announced size):
	// every harness runs in crash-isolating worker processes so that such a death is attributed to its case
	add := func(name string, bound int, f func(c *enum.Ctx)) {
		shards := 8
		if name == "generator-artifacts" || name == "hand-written-types" {
			shards = 1
		}
		hs = append(hs, fw.HarnessSpec{Harness: enum.Harness{Name: name, Bound: bound, Run: func(c *enum.Ctx) {
			if name != "generator-artifacts" && name != "hand-written-types" {
				f(c)
				return
			}
			if !c.Dry() {
				f(c)
			}
		}}, Isolated: true, Shards: shards})
	}
	e, envErr := loadEnv(seed)

	codec := e.Codec

	add("declarations-codec", r.Pick(1, 2), func(c *enum.Ctx) {
		if envErr != nil {
			c.Fail("schema", "%v", envErr)
			return
		}
		d := e.schema.Decls[c.ChooseFree(len(e.schema.Decls))]
		c.Label("declaration %s", d.Name)
		v, want, _ := codec(c, d, -1)
		c.Case(append([]byte(d.Name+"/"), want...), true)
		if v.IsValid() {
			c.Sample(map[string]any{"declaration": d.Name, "wire_bytes": len(want)})
		}
	})

	add("byte-string-every-length", 0, func(c *enum.Ctx) {
		if envErr != nil {
			c.Fail("schema", "%v", envErr)
			return
		}
		// declarations with a bytes/string field: one per "shape" is enough for the length sweep, but all are cheap
		var ds []*rtl.Decl
		for _, d := range e.schema.Decls {
			for _, f := range d.Fields {
				if (f.Type == "bytes" || f.Type == "string") && f.Flag == "" {
					ds = append(ds, d)
					break
				}
			}
		}
		pick := []string{"liteServer.blockData", "liteServer.error", "liteServer.sendMessage", "liteServer.accountState", "liteServer.libraryEntry"}
		d := e.schema.Constructor(pick[c.ChooseFree(len(pick))])
		if d == nil {
			d = ds[0]
		}
		n := c.ChooseFree(1101 + 3)
		if n > 1100 {
			n = []int{65535, 65536, 1<<24 - 1}[n-1101]
		}
		c.Case([]byte(fmt.Sprintf("%s/%d", d.Name, n)), true)
		c.Sample(map[string]any{"declaration": d.Name, "byte_string_length": n})
		c.Label("%s with a %d-byte string", d.Name, n)
		codec(c, d, n)
	})

	add("request-methods", r.Pick(1, 2), func(c *enum.Ctx) {
		if envErr != nil {
			c.Fail("schema", "%v", envErr)
			return
		}
		var funcs []*rtl.Decl
		for _, d := range e.schema.Decls {
			if d.Func {
				funcs = append(funcs, d)
			}
		}
		d := funcs[c.ChooseFree(len(funcs))]
		answerKind := c.ChooseFree(4) // 0 expected answer, 1 liteServer.error, 2 wrong tag, 3 short answer
		c.Label("function %s answer kind %d", d.Name, answerKind)
		c.Try("panic:request:"+d.Name, func() {
			client, conn := liteclient.VerifNewSyncClient(200 * time.Millisecond)
			mname := fieldNameOfMethod(reflect.TypeOf(client), d.Name)
			if mname == "" {
				c.Fail("no-method:"+d.Name, "function %s has no (*Client) method", d.Name)
				return
			}
			m := reflect.ValueOf(client).MethodByName(mname)
			args := []reflect.Value{reflect.ValueOf(context.Background())}
			var wantReq []byte
			if m.Type().NumIn() == 2 {
				rt := m.Type().In(1)
				rv := reflect.New(rt).Elem()
				b := &builder{e: e, c: c, longLen: -1}
				body, err := b.decl(d, rv)
				if err != nil {
					c.Fail("binding-shape:"+d.Name, "%v", err)
					return
				}
				wantReq = append(rtl.U32(d.ID), body...)
				args = append(args, rv)
			} else {
				if len(d.Fields) != 0 {
					c.Fail("binding-shape:"+d.Name, "method %s takes no request but the schema has %d fields", mname, len(d.Fields))
					return
				}
				wantReq = rtl.U32(d.ID)
			}
			// the answer
			resDecls := e.schema.Boxed(d.Result)
			if len(resDecls) == 0 {
				c.Fail("schema", "no constructor for result %s", d.Result)
				return
			}
			rd := resDecls[0]
			if len(resDecls) > 1 {
				rd = resDecls[c.Choose(len(resDecls))]
			}
			resT := m.Type().Out(0)
			wantRes := reflect.New(resT).Elem()
			rb := &builder{e: e, c: c, longLen: -1}
			var resBody []byte
			var err error
			if _, isSum := resT.FieldByName("SumType"); isSum {
				fv, ok := fieldByKey(wantRes, rd.Name)
				if !ok {
					c.Fail("binding-shape:"+d.Name, "result sum type lacks %s", rd.Name)
					return
				}
				wantRes.FieldByName("SumType").SetString(fieldNameByKey(resT, rd.Name))
				resBody, err = rb.decl(rd, fv)
			} else {
				resBody, err = rb.decl(rd, wantRes)
			}
			if err != nil {
				c.Fail("binding-shape:"+d.Result, "%v", err)
				return
			}
			var answer []byte
			switch answerKind {
			case 0:
				answer = append(rtl.U32(rd.ID), resBody...)
			case 1:
				answer = append(rtl.U32(0xbba9e148), append(rtl.U32(651), rtl.Bytes([]byte("block is not applied"))...)...)
			case 2:
				answer = append(rtl.U32(0x12345678), resBody...)
			case 3:
				answer = []byte{1, 2}
			}
			var gotQuery []byte
			var frameErr string
			conn.Handler = func(p []byte) []byte {
				// adnl.message.query#b48bf97a query_id:int256 query:bytes
				if len(p) < 40 || binary.LittleEndian.Uint32(p) != 0xb48bf97a {
					frameErr = "frame is not adnl.message.query"
					return nil
				}
				id := p[4:36]
				q, rest, ok := readBytes(p[36:])
				if !ok || len(rest) != 0 {
					frameErr = "adnl.message.query: malformed bytes field"
					return nil
				}
				// liteServer.query#798c06df data:bytes
				if len(q) < 4 || binary.LittleEndian.Uint32(q) != 0x798c06df {
					frameErr = "query is not liteServer.query"
					return nil
				}
				data, rest, ok := readBytes(q[4:])
				if !ok || len(rest) != 0 {
					frameErr = "liteServer.query: malformed bytes field"
					return nil
				}
				gotQuery = data
				out := append(rtl.U32(0x0fac8416), id...)
				return append(out, rtl.Bytes(answer)...)
			}
			if c.Dry() {
				return
			}
			rets := m.Call(args)
			var rerr error
			if !rets[1].IsNil() {
				rerr = rets[1].Interface().(error)
			}
			c.Case(append([]byte(fmt.Sprintf("%s/%d/", d.Name, answerKind)), append(wantReq, answer...)...), true)
			c.Sample(map[string]any{"function": d.Name, "request_bytes": len(wantReq), "answer_kind": []string{"answer", "liteServer.error", "wrong tag", "short"}[answerKind]})
			if frameErr != "" {
				c.Fail("request-framing:"+d.Name, "%s", frameErr)
				return
			}
			if len(conn.Frames) != 1 {
				c.Fail("request-frames:"+d.Name, "%d frames written for one request", len(conn.Frames))
				return
			}
			if !bytes.Equal(gotQuery, wantReq) {
				c.Fail("request-bytes:"+d.Name, "bytes handed to the connection: %s, schema prescribes %s", short(gotQuery), short(wantReq))
				return
			}
			switch answerKind {
			case 0:
				if rerr != nil {
					c.Fail("answer-rejected:"+d.Name, "valid answer rejected: %v", rerr)
				} else if diff := gen.Equal(wantRes, addressable(rets[0])); diff != "" {
					c.Fail("answer-value:"+d.Name, "parsed answer differs at %s", diff)
				}
			case 1:
				le, ok := rerr.(liteclient.LiteServerErrorC)
				if !ok || le.Code != 651 || le.Message != "block is not applied" {
					c.Fail("error-answer:"+d.Name, "liteServer.error answer gives %T %v", rerr, rerr)
				}
			default:
				if rerr == nil {
					c.Fail("bad-answer-accepted:"+d.Name, "answer kind %d accepted", answerKind)
				}
			}
			// the request decoder table
			if answerKind == 0 {
				tag, name, decoded, err := liteclient.LiteapiRequestDecoder(wantReq)
				if err != nil || tag != d.ID || name == nil || *name != d.Name {
					c.Fail("request-decoder:"+d.Name, "LiteapiRequestDecoder: tag %x name %v err %v", tag, name, err)
				} else if len(args) == 2 {
					if decoded == nil {
						c.Fail("request-decoder:"+d.Name, "LiteapiRequestDecoder returned no body")
					} else if diff := gen.Equal(addressable(args[1]), addressable(reflect.ValueOf(decoded))); diff != "" {
						c.Fail("request-decoder-value:"+d.Name, "decoded request differs at %s", diff)
					}
				}
			}
		})
	})

	add("hand-written-types", 0, func(c *enum.Ctx) {
		k := c.ChooseFree(12)
		c.Case([]byte(fmt.Sprintf("hand/%d", k)), true)
		c.Sample(map[string]any{"case": k})
		c.Try("panic:hand", func() {
			wc := []int32{0, -1, 1<<31 - 1, -(1 << 31)}[k%4]
			var addr [32]byte
			for i := range addr {
				addr[i] = byte(i*k + 1)
			}
			id := ton.AccountID{Workchain: wc, Address: addr}
			b, err := tl.Marshal(id)
			want := append(rtl.U32(uint32(wc)), addr[:]...)
			if err != nil || !bytes.Equal(b, want) {
				c.Fail("AccountID-TL", "%x want %x (%v)", b, want, err)
			}
			var back ton.AccountID
			if err := tl.Unmarshal(bytes.NewReader(want), &back); err != nil || back != id {
				c.Fail("AccountID-TL-decode", "%v %v", back, err)
			}
			be := ton.BlockIDExt{BlockID: ton.BlockID{Workchain: wc, Shard: uint64(k) << 60, Seqno: uint32(k * 1000003)}, RootHash: ton.Bits256(addr), FileHash: ton.Bits256{9}}
			bb, err := be.MarshalTL()
			wantB := append(append(append(rtl.U32(uint32(wc)), rtl.U64(be.Shard)...), rtl.U32(be.Seqno)...), append(addr[:], be.FileHash[:]...)...)
			if err != nil || !bytes.Equal(bb, wantB) {
				c.Fail("BlockIDExt-TL", "%x want %x", bb, wantB)
			}
			var be2 ton.BlockIDExt
			if err := be2.UnmarshalTL(wantB); err != nil || be2 != be {
				c.Fail("BlockIDExt-TL-decode", "%v %v", be2, err)
			}
			var i256 tl.Int256 = addr
			ib, _ := tl.Marshal(i256)
			if !bytes.Equal(ib, addr[:]) {
				c.Fail("Int256-TL", "%x", ib)
			}
			// struct embedding it in a vector
			type wrap struct {
				V []tl.Int256
				S string
			}
			w := wrap{V: []tl.Int256{i256, {}}, S: strings.Repeat("s", k*30)}
			wb, err := tl.Marshal(w)
			wantW := append(append(rtl.U32(2), append(addr[:], make([]byte, 32)...)...), rtl.Bytes([]byte(w.S))...)
			if err != nil || !bytes.Equal(wb, wantW) {
				c.Fail("vector-int256-TL", "%x want %x", wb, wantW)
			}
			var w2 wrap
			if err := tl.Unmarshal(bytes.NewReader(wantW), &w2); err != nil || !reflect.DeepEqual(w, w2) {
				c.Fail("vector-int256-TL-decode", "%v", err)
			}
		})
	})

	add("generator-artifacts", 0, func(c *enum.Ctx) {
		k := c.ChooseFree(2)
		pair := [][2]string{{"liteclient", "generated.go"}, {"tlb", "integers.go"}}[k]
		c.Case([]byte("artifact/"+pair[0]), true)
		c.Sample(map[string]any{"generator": pair[0] + "/generator.go", "artifact": pair[0] + "/" + pair[1]})
		scratch, err := os.MkdirTemp("", "c10gen")
		if err != nil {
			c.Fail("setup", "%v", err)
			return
		}
		defer os.RemoveAll(scratch)
		cp := exec.Command("sh", "-c", fmt.Sprintf("cd %s && tar --exclude=.git --exclude=lib -cf - . | (cd %s && tar xf -)", realdata.Repo, scratch))
		if out, err := cp.CombinedOutput(); err != nil {
			c.Fail("setup", "copy: %v %s", err, out)
			return
		}
		var outs [][]byte
		for rep := 0; rep < 2; rep++ {
			cmd := exec.Command("go", "run", "generator.go")
			cmd.Dir = filepath.Join(scratch, pair[0])
			cmd.Env = append(os.Environ(), "GOFLAGS=-mod=mod", "GOPROXY=off", "GOSUMDB=off", "GOTOOLCHAIN=local")
			if out, err := cmd.CombinedOutput(); err != nil {
				c.Fail("generator-run:"+pair[0], "go run generator.go: %v\n%s", err, tailStr(string(out)))
				return
			}
			b, err := os.ReadFile(filepath.Join(scratch, pair[0], pair[1]))
			if err != nil {
				c.Fail("generator-run:"+pair[0], "%v", err)
				return
			}
			outs = append(outs, b)
		}
		if !bytes.Equal(outs[0], outs[1]) {
			c.Fail("generator-nondeterministic:"+pair[0], "two runs of the generator differ")
		}
		checked, err := os.ReadFile(filepath.Join(realdata.Repo, pair[0], pair[1]))
		if err != nil {
			c.Fail("setup", "%v", err)
			return
		}
		f1, e1 := format.Source(outs[0])
		f2, e2 := format.Source(checked)
		if e1 != nil || e2 != nil {
			c.Fail("artifact-format:"+pair[0], "gofmt: %v %v", e1, e2)
			return
		}
		if !bytes.Equal(f1, f2) {
			c.Fail("artifact-differs:"+pair[0], "checked-in %s/%s is not what %s/generator.go produces (first difference at byte %d)", pair[0], pair[1], pair[0], firstDiff(f1, f2))
		}
	})
	return hs
}

func addressable(v reflect.Value) reflect.Value {
	p := reflect.New(v.Type())
	p.Elem().Set(v)
	return p.Elem()
}

func fieldNameOfMethod(t reflect.Type, fname string) string {
	k := rtl.CamelKey(fname)
	for i := 0; i < t.NumMethod(); i++ {
		if rtl.CamelKey(t.Method(i).Name) == k {
			return t.Method(i).Name
		}
	}
	return ""
}

func readBytes(b []byte) (data, rest []byte, ok bool) {
	if len(b) == 0 {
		return nil, nil, false
	}
	n, hdr := int(b[0]), 1
	if b[0] == 0xfe {
		if len(b) < 4 {
			return nil, nil, false
		}
		n, hdr = int(b[1])|int(b[2])<<8|int(b[3])<<16, 4
	} else if b[0] == 0xff {
		return nil, nil, false
	}
	total := hdr + n
	for total%4 != 0 {
		total++
	}
	if len(b) < total {
		return nil, nil, false
	}
	for _, z := range b[hdr+n : total] {
		if z != 0 {
			return nil, nil, false
		}
	}
	return b[hdr : hdr+n], b[total:], true
}

func short(b []byte) string {
	if len(b) > 48 {
		return fmt.Sprintf("%x…(%d bytes)", b[:48], len(b))
	}
	return fmt.Sprintf("%x", b)
}

func tailStr(s string) string {
	if len(s) > 600 {
		return s[len(s)-600:]
	}
	return s
}

func firstDiff(a, b []byte) int {
	for i := 0; i < len(a) && i < len(b); i++ {
		if a[i] != b[i] {
			return i
		}
	}
	return min(len(a), len(b))
}

// Encoded is one valid TL encoding with the positions of its prefixes (used by C08 for mutation).
type Encoded struct {
	Decl   *rtl.Decl
	GoType reflect.Type
	Bytes  []byte
	Marks  []Mark
}

// Env exposes the parsed schema and the Go bindings to other harnesses.
type Env = env

// LoadEnv parses lite_api.tl from the repository.
func LoadEnv(seed int) (*Env, error) { return loadEnv(seed) }

// Decls returns all declarations.
func (e *env) Decls() []*rtl.Decl { return e.schema.Decls }

// Encode builds one valid value of the declaration (choices from c) and returns its reference encoding.
func (e *env) Encode(c *enum.Ctx, d *rtl.Decl) (*Encoded, error) {
	t := e.typeOfConstructor(d)
	if t == nil {
		return nil, fmt.Errorf("no Go type for %s", d.Name)
	}
	v := reflect.New(t).Elem()
	b := &builder{e: e, c: c, longLen: -1}
	body, err := b.decl(d, v)
	if err != nil {
		return nil, err
	}
	return &Encoded{Decl: d, GoType: t, Bytes: body, Marks: scanMarks(e, d, body)}, nil
}

// scanMarks re-parses a reference encoding with the schema to find prefix positions.
func scanMarks(e *env, d *rtl.Decl, body []byte) []Mark {
	var marks []Mark
	pos := 0
	var walkDecl func(d *rtl.Decl) bool
	var walkType func(typ string) bool
	walkType = func(typ string) bool {
		switch {
		case typ == "int" || typ == "#":
			pos += 4
		case typ == "long":
			pos += 8
		case typ == "int256":
			pos += 32
		case typ == "Bool":
			marks = append(marks, Mark{pos, 4, "tag"})
			pos += 4
		case typ == "bytes" || typ == "string":
			if pos >= len(body) {
				return false
			}
			n, hdr := int(body[pos]), 1
			if body[pos] == 0xfe {
				if pos+4 > len(body) {
					return false
				}
				n, hdr = int(body[pos+1])|int(body[pos+2])<<8|int(body[pos+3])<<16, 4
			}
			marks = append(marks, Mark{pos, hdr, "bytes-len"})
			tot := hdr + n
			for tot%4 != 0 {
				tot++
			}
			pos += tot
		case strings.HasPrefix(typ, "vector "):
			if pos+4 > len(body) {
				return false
			}
			n := int(binary.LittleEndian.Uint32(body[pos:]))
			marks = append(marks, Mark{pos, 4, "vector-count"})
			pos += 4
			el := strings.TrimSpace(strings.TrimPrefix(typ, "vector "))
			for i := 0; i < n; i++ {
				if !walkType(el) {
					return false
				}
			}
		default:
			if dd := e.schema.Constructor(typ); dd != nil && !dd.Func {
				return walkDecl(dd)
			}
			if ds := e.schema.Boxed(typ); len(ds) > 0 {
				if pos+4 > len(body) {
					return false
				}
				id := binary.LittleEndian.Uint32(body[pos:])
				marks = append(marks, Mark{pos, 4, "tag"})
				pos += 4
				for _, dd := range ds {
					if dd.ID == id {
						return walkDecl(dd)
					}
				}
				return false
			}
			return false
		}
		return pos <= len(body)
	}
	walkDecl = func(d *rtl.Decl) bool {
		flags := map[string]uint32{}
		for _, f := range d.Fields {
			if f.Type == "#" {
				if pos+4 > len(body) {
					return false
				}
				flags[f.Name] = binary.LittleEndian.Uint32(body[pos:])
				marks = append(marks, Mark{pos, 4, "flags"})
				pos += 4
				continue
			}
			if f.Flag != "" && flags[f.Flag]>>uint(f.Bit)&1 == 0 {
				continue
			}
			if f.Type == "true" {
				continue
			}
			if !walkType(f.Type) {
				return false
			}
		}
		return true
	}
	walkDecl(d)
	return marks
}

// NewEnvFrom builds an environment from any schema text and Go bindings (Go type name -> type); used by C09 for generated code.
func NewEnvFrom(schema string, types map[string]reflect.Type, seed int) (*Env, error) {
	sc, err := rtl.Parse(schema)
	if err != nil {
		return nil, err
	}
	e := &env{schema: sc, goType: map[string]reflect.Type{}, seed: seed}
	for name, t := range types {
		e.goType[rtl.CamelKey(name)] = t
	}
	return e, nil
}

// Schema returns the parsed schema.
func (e *env) Schema() *rtl.Schema { return e.schema }

// BuildDecl fills v (a struct value of the declaration's Go type) with one value chosen through c and returns the
// reference encoding of its fields (without constructor id).
func (e *env) BuildDecl(c *enum.Ctx, d *rtl.Decl, v reflect.Value) ([]byte, error) {
	return (&builder{e: e, c: c, longLen: -1}).decl(d, v)
}

// FieldByKey / FieldNameByKey match schema names with Go field names.
func FieldByKey(v reflect.Value, name string) (reflect.Value, bool) { return fieldByKey(v, name) }
func FieldNameByKey(t reflect.Type, name string) string             { return fieldNameByKey(t, name) }
func Short(b []byte) string                                         { return short(b) }
func Addressable(v reflect.Value) reflect.Value                     { return addressable(v) }

func boxedOnly(boxed bool) bool { return false }

// allFlagsValue builds (without consuming choices) a value of declaration d with every flag bit in use set and default
// operands, and its reference encoding.
func (e *env) allFlagsValue(d *rtl.Decl, t reflect.Type) (reflect.Value, []byte, bool) {
	hasFlags := false
	for _, f := range d.Fields {
		if f.Flag != "" {
			hasFlags = true
		}
	}
	if !hasFlags {
		return reflect.Value{}, nil, false
	}
	fc := &fixedChooser{}
	c2 := enum.NewFixedCtx(fc.choose)
	v := reflect.New(t).Elem()
	b := &builder{e: e, c: c2, longLen: -1}
	target := v
	var prefix []byte
	if _, isSum := t.FieldByName("SumType"); isSum {
		fv, ok := fieldByKey(v, d.Name)
		if !ok {
			return reflect.Value{}, nil, false
		}
		v.FieldByName("SumType").SetString(fieldNameByKey(t, d.Name))
		target = fv
		prefix = rtl.U32(d.ID)
	}
	body, err := b.decl(d, target)
	if err != nil {
		return reflect.Value{}, nil, false
	}
	return v, append(prefix, body...), true
}

// fixedChooser answers every free choice with its last option (all flag bits set) and every costed choice with 0.
type fixedChooser struct{}

func (f *fixedChooser) choose(n int, free bool) int {
	if free {
		return n - 1
	}
	return 0
}
