// Package c11: ADNL transport frames and handshake interoperate and detect corruption.
package c11

import (
	"bufio"
	"bytes"
	"crypto/aes"
	"crypto/cipher"
	"fmt"
	"io"
	"os"
	"sort"
	"strings"
	"time"

	"github.com/tonkeeper/tongo/liteclient"

	"verif/fw"
	"verif/mc/enum"
	"verif/ref/adnl"
	"verif/shim/sched"
	"verif/shim/vcrand"
	"verif/shim/vctx"
	"verif/shim/vnet"
	"verif/shim/vsync"
	"verif/shim/vtimes"
)

func init() {
	fw.Register(&fw.Property{
		ID: "C11",
		Rule: "frame level: the real NewPacket/marshal and ParsePacket against the reference frame layout (len | nonce | payload | sha256) under continuous AES-CTR streams, for every payload size of the tier's range in chains of consecutive packets, every split of a multi-frame byte stream into TCP segments (all single and double boundaries, all uniform segment sizes 1..9) read directly and through bufio as the connection does, and every single-bit flip / byte substitution / truncation of such a stream; " +
			"connection level: the real liteclient.NewConnection / Connection.Send / Responses (source-instrumented, cooperative scheduler, virtual socket) against the reference server of ref/adnl (X25519 through crypto/ecdh + math/big) for a grid of server keys x client randomness, with server packets pipelined behind the handshake confirmation, packet sequences in both directions, every segment boundary and every single-bit corruption of the server's byte stream; distinct = cases by (stream, alteration); non-trivial = at least one frame delivered or rejected",
		Assume: []string{
			"randomness (session parameters, ephemeral key, packet nonces) is a deterministic stream reset per execution; the explored key pairs are those derived from the listed seeds",
			"a corruption is judged detected when the altered frame and everything behind it on the connection is not delivered; frames in front of it must be delivered unchanged",
			"the 8 MiB bound is exercised at frame length 8 MiB exactly (delivered) and 8 MiB + 1 (must not be delivered with a different payload)",
		},
		Harnesses: harnesses,
	})
}

func payloadOf(n int, salt byte) []byte {
	b := make([]byte, n)
	for i := range b {
		b[i] = byte(i*7+i>>8) ^ salt
	}
	return b
}

func ctrPair(seed byte) (enc, dec cipher.Stream) {
	key := bytes.Repeat([]byte{seed, 0x5a}, 16)
	iv := bytes.Repeat([]byte{0xa5, seed}, 8)
	b1, _ := aes.NewCipher(key)
	b2, _ := aes.NewCipher(key)
	return cipher.NewCTR(b1, iv), cipher.NewCTR(b2, iv)
}

// segReader delivers a byte stream in TCP-like segments: a Read never crosses the next boundary.
type segReader struct {
	data     []byte
	pos      int
	bounds   []int // sorted absolute offsets
	uniform  int   // every read returns at most this many bytes (0 = off)
	reads    int
	zeroOnce bool
}

func (r *segReader) Read(p []byte) (int, error) {
	r.reads++
	if r.pos >= len(r.data) {
		return 0, io.EOF
	}
	n := len(p)
	if n > len(r.data)-r.pos {
		n = len(r.data) - r.pos
	}
	for _, b := range r.bounds {
		if b > r.pos {
			if n > b-r.pos {
				n = b - r.pos
			}
			break
		}
	}
	if r.uniform > 0 && n > r.uniform {
		n = r.uniform
	}
	copy(p, r.data[r.pos:r.pos+n])
	r.pos += n
	return n, nil
}

// parseAll runs the real ParsePacket until it fails; returns the delivered payloads.
func parseAll(c *enum.Ctx, r io.Reader, dec cipher.Stream, max int) (out [][]byte, lastErr error) {
	for i := 0; i < max; i++ {
		var p liteclient.Packet
		var err error
		perr := c.Try("panic:ParsePacket", func() { p, err = liteclient.ParsePacket(r, dec) })
		if perr {
			return out, fmt.Errorf("panic")
		}
		if err != nil {
			return out, err
		}
		out = append(out, p.Payload)
	}
	return out, nil
}

type sizeRange struct{ lo, hi int }

func harnesses(r *fw.Run) []fw.HarnessSpec {
	var hs []fw.HarnessSpec
	only := os.Getenv("C11_H")
	add := func(h fw.HarnessSpec) {
		if only == "" || only == h.Harness.Name {
			hs = append(hs, h)
		}
	}
	// ---- frame level -----------------------------------------------------------------------------------------
	const chain = 32
	maxSize := r.Pick(4096+64, 65536+64)
	nblocks := (maxSize + chain) / chain
	add(fw.HarnessSpec{Harness: enum.Harness{Name: "frames/every-size-chained", Bound: 0, Run: func(c *enum.Ctx) {
		blk := c.ChooseFree(nblocks + 4)
		var sizes []int
		switch {
		case blk < nblocks:
			for i := 0; i < chain; i++ {
				sizes = append(sizes, blk*chain+i)
			}
		case blk == nblocks:
			sizes = []int{65535, 65536, 65537, 0, 1 << 17, 3}
		case blk == nblocks+1:
			sizes = []int{8<<20 - 64, 0, 5}
		case blk == nblocks+2:
			sizes = []int{1<<20 + 1, 1 << 22, 7}
		default:
			sizes = []int{0, 0, 1, 0, 2, 3, 0}
		}
		c.Label("chain of payload sizes %d..%d (%d packets)", sizes[0], sizes[len(sizes)-1], len(sizes))
		chainCase(c, sizes, byte(blk))
	}}})
	add(fw.HarnessSpec{Harness: enum.Harness{Name: "frames/length-limit", Bound: 0, Run: func(c *enum.Ctx) {
		// frame lengths around both bounds, written by the reference framer
		lens := []int{0, 1, 31, 32, 63, 64, 65, 8<<20 - 1, 8 << 20, 8<<20 + 1, 8<<20 + 64, 1 << 24, 1<<31 - 1, 1 << 31, 1<<32 - 1}
		L := lens[c.ChooseFree(len(lens))]
		c.Label("frame with length field %d", L)
		limitCase(c, L)
	}}})
	add(fw.HarnessSpec{Harness: enum.Harness{Name: "frames/stream-splits", Bound: 0, Run: func(c *enum.Ctx) {
		splitCase(c, r)
	}}})
	add(fw.HarnessSpec{Harness: enum.Harness{Name: "frames/corruptions", Bound: 0, MaxViolations: 50, Run: func(c *enum.Ctx) {
		corruptCase(c, r)
	}}})
	// ---- connection level (scheduler) ------------------------------------------------------------------------
	for _, h := range connHarnesses(r) {
		add(h)
	}
	return hs
}

func chainCase(c *enum.Ctx, sizes []int, salt byte) {
	vcrand.Reset(uint64(salt) + 1)
	enc, dec := ctrPair(salt)
	encRef, _ := ctrPair(salt)
	var stream, refStream []byte
	var sent [][]byte
	for i, n := range sizes {
		pl := payloadOf(n, salt+byte(i))
		var pk liteclient.Packet
		var err error
		var fr []byte
		if c.Try("panic:NewPacket/marshal", func() {
			pk, err = liteclient.NewPacket(pl)
			if err == nil {
				fr = liteclient.VerifMarshal(pk)
			}
		}) {
			return
		}
		if err != nil {
			c.Fail("new-packet-error", "NewPacket(%d bytes): %v", n, err)
			return
		}
		want := adnl.Frame(liteclient.VerifNonce(pk), pl)
		if !bytes.Equal(fr, want) {
			c.Fail("frame-layout", "marshal of a %d-byte payload differs from len|nonce|payload|sha256 at byte %d (len %d vs %d)", n, firstDiff(fr, want), len(fr), len(want))
			return
		}
		ct := make([]byte, len(fr))
		enc.XORKeyStream(ct, fr)
		stream = append(stream, ct...)
		rc := make([]byte, len(want))
		encRef.XORKeyStream(rc, want)
		refStream = append(refStream, rc...)
		sent = append(sent, pl)
	}
	c.Case([]byte(fmt.Sprintf("chain/%d/%d", sizes[0], len(sizes))), true)
	got, err := parseAll(c, bufio.NewReader(bytes.NewReader(refStream)), dec, len(sizes))
	if c.Failed() {
		return
	}
	if err != nil || len(got) != len(sent) {
		c.Fail("valid-frame-rejected", "chain of %d frames (sizes %d..): %d delivered, error %v", len(sent), sizes[0], len(got), err)
		return
	}
	for i := range sent {
		if !bytes.Equal(got[i], sent[i]) {
			c.Fail("payload-differs", "packet %d of the chain (size %d) was delivered with a different payload", i, len(sent[i]))
			return
		}
	}
	c.Outcome(fmt.Sprintf("delivered=%d", len(got)))
}

func firstDiff(a, b []byte) int {
	for i := 0; i < len(a) && i < len(b); i++ {
		if a[i] != b[i] {
			return i
		}
	}
	if len(a) != len(b) {
		if len(a) < len(b) {
			return len(a)
		}
		return len(b)
	}
	return -1
}

// lazyStream produces n bytes without holding them (for length fields announcing gigabytes).
type lazyStream struct {
	head []byte
	n    int64
	pos  int64
}

func (l *lazyStream) Read(p []byte) (int, error) {
	if l.pos >= l.n {
		return 0, io.EOF
	}
	k := int64(len(p))
	if k > l.n-l.pos {
		k = l.n - l.pos
	}
	for i := int64(0); i < k; i++ {
		if l.pos+i < int64(len(l.head)) {
			p[i] = l.head[l.pos+i]
		} else {
			p[i] = 0
		}
	}
	l.pos += k
	return int(k), nil
}

func limitCase(c *enum.Ctx, L int) {
	c.Case([]byte(fmt.Sprintf("limit/%d", L)), true)
	var nonce [32]byte
	nonce[0] = 9
	if L >= 64 && L <= 8<<20 {
		pl := payloadOf(L-64, 3)
		fr := adnl.Frame(nonce, pl)
		got, err := parseAll(c, bytes.NewReader(fr), nullStream{}, 1)
		if c.Failed() {
			return
		}
		if err != nil || len(got) != 1 || !bytes.Equal(got[0], pl) {
			c.Fail("valid-frame-rejected", "a well-formed frame of length %d (payload %d bytes) is not delivered: %v", L, L-64, err)
		}
		c.Outcome("delivered")
		return
	}
	// outside 64..8 MiB: whatever follows, nothing may be delivered as this frame unless it is the frame that was sent
	hdr := []byte{byte(L), byte(L >> 8), byte(L >> 16), byte(L >> 24)}
	src := &lazyStream{head: hdr, n: 4 + int64(L)}
	if L > 64<<20 {
		src.n = 4 + 64<<20 // the announced body never arrives in full
	}
	got, err := parseAll(c, src, nullStream{}, 1)
	if c.Failed() {
		return
	}
	if err == nil && len(got) > 0 {
		c.Fail("invalid-length-delivered", "a frame with length field %d was delivered as a valid packet (payload %d bytes)", L, len(got[0]))
	}
	c.Outcome("rejected")
}

type nullStream struct{}

func (nullStream) XORKeyStream(dst, src []byte) { copy(dst, src) }

// testStream builds an encrypted stream of frames with the given payload sizes; returns ciphertext, payloads and frame end offsets.
func testStream(sizes []int, salt byte) (ct []byte, sent [][]byte, ends []int, dec cipher.Stream) {
	enc, dec := ctrPair(salt)
	for i, n := range sizes {
		pl := payloadOf(n, salt+byte(3*i))
		var nonce [32]byte
		for j := range nonce {
			nonce[j] = byte(i*31 + j)
		}
		fr := adnl.Frame(nonce, pl)
		enc.XORKeyStream(fr, fr)
		ct = append(ct, fr...)
		sent = append(sent, pl)
		ends = append(ends, len(ct))
	}
	return
}

func splitCase(c *enum.Ctx, r *fw.Run) {
	sizes := [][]int{{0, 1, 37}, {5, 0, 0, 12}}[c.ChooseFree(2)]
	ct, sent, _, dec := testStream(sizes, 0x21)
	viaBufio := c.ChooseFree(2) == 1
	mode := c.ChooseFree(3)
	sr := &segReader{data: ct}
	switch mode {
	case 0:
		sr.uniform = 1 + c.ChooseFree(9)
		c.Label("every read returns at most %d bytes", sr.uniform)
	case 1:
		p := 1 + c.ChooseFree(len(ct)-1)
		sr.bounds = []int{p}
		c.Label("segment boundary at offset %d", p)
	case 2:
		lim := len(ct) - 1
		if r.Quick() && lim > 90 {
			lim = 90 // quick: both boundaries within the first frame and the head of the second
		}
		p := 1 + c.ChooseFree(lim)
		if p+1 > lim {
			c.Skip()
			return
		}
		q := p + 1 + c.ChooseFree(lim-p)
		sr.bounds = []int{p, q}
		c.Label("segment boundaries at offsets %d and %d", p, q)
	}
	c.Label("stream of frames with payload sizes %v, read %s", sizes, map[bool]string{true: "through bufio.Reader", false: "directly"}[viaBufio])
	c.Case([]byte(fmt.Sprintf("split/%v/%v/%d/%v/%d", sizes, viaBufio, mode, sr.bounds, sr.uniform)), true)
	var rd io.Reader = sr
	if viaBufio {
		rd = bufio.NewReader(sr)
	}
	got, err := parseAll(c, rd, dec, len(sent))
	if c.Failed() {
		return
	}
	if err != nil || len(got) != len(sent) {
		c.Fail("split-stream-rejected", "valid stream %v with %s: %d of %d packets delivered, then %v", sizes, describe(sr), len(got), len(sent), err)
		return
	}
	for i := range sent {
		if !bytes.Equal(got[i], sent[i]) {
			c.Fail("split-payload-differs", "valid stream %v with %s: packet %d delivered with a different payload", sizes, describe(sr), i)
			return
		}
	}
	c.Outcome("all-delivered")
}

func describe(sr *segReader) string {
	if sr.uniform > 0 {
		return fmt.Sprintf("reads of at most %d bytes", sr.uniform)
	}
	return fmt.Sprintf("segment boundaries %v", sr.bounds)
}

// frameOf returns the index of the frame containing stream offset off.
func frameOf(ends []int, off int) int {
	return sort.SearchInts(ends, off+1)
}

func corruptCase(c *enum.Ctx, r *fw.Run) {
	sizes := []int{0, 5, 33}
	ct, sent, ends, dec := testStream(sizes, 0x42)
	kind := c.ChooseFree(r.Pick(4, 5))
	data := append([]byte{}, ct...)
	var k int // first altered frame
	switch kind {
	case 0: // single bit
		bit := c.ChooseFree(len(ct) * 8)
		data[bit/8] ^= 1 << (bit % 8)
		k = frameOf(ends, bit/8)
		c.Label("bit %d of byte %d flipped (frame %d)", bit%8, bit/8, k)
	case 1: // byte substitution
		off := c.ChooseFree(len(ct))
		sub := []byte{0xff, 0x01, 0x80, 0x55}[c.ChooseFree(4)]
		data[off] ^= sub
		k = frameOf(ends, off)
		c.Label("byte %d xor %#x (frame %d)", off, sub, k)
	case 2: // truncation
		cut := c.ChooseFree(len(ct))
		data = data[:cut]
		k = frameOf(ends, cut)
		c.Label("stream truncated to %d bytes (frame %d incomplete)", cut, k)
	case 3: // one byte removed or inserted
		off := c.ChooseFree(len(ct))
		if c.ChooseFree(2) == 0 {
			data = append(data[:off:off], data[off+1:]...)
			c.Label("byte %d dropped", off)
		} else {
			data = append(data[:off:off], append([]byte{0x00}, data[off:]...)...)
			c.Label("a zero byte inserted at %d", off)
		}
		k = frameOf(ends, off)
	case 4: // two bit flips within the same frame (thorough)
		f := c.ChooseFree(len(ends))
		lo := 0
		if f > 0 {
			lo = ends[f-1]
		}
		nb := (ends[f] - lo) * 8
		a := c.ChooseFree(nb)
		if a+1 >= nb {
			c.Skip()
			return
		}
		b := a + 1 + c.ChooseFree(nb-a-1)
		data[lo+a/8] ^= 1 << (a % 8)
		data[lo+b/8] ^= 1 << (b % 8)
		k = f
		c.Label("bits %d and %d of frame %d flipped", a, b, f)
	}
	viaBufio := c.ChooseFree(2) == 1
	c.Case([]byte(fmt.Sprintf("corrupt/%d/%x/%v", kind, data, viaBufio)), true)
	var rd io.Reader = bytes.NewReader(data)
	if viaBufio {
		rd = bufio.NewReader(rd)
	}
	got, _ := parseAll(c, rd, dec, len(sent)+2)
	if c.Failed() {
		return
	}
	judgeDelivered(c, got, sent, k, "frames")
}

// judgeDelivered: exactly the frames in front of the altered one are delivered, unchanged.
func judgeDelivered(c *enum.Ctx, got, sent [][]byte, k int, where string) {
	for i := range got {
		if i >= k {
			c.Fail("altered-frame-delivered:"+where, "frame %d was altered in transit, yet packet #%d was delivered (payload %x)", k, i, got[i])
			return
		}
		if !bytes.Equal(got[i], sent[i]) {
			c.Fail("payload-differs:"+where, "packet %d in front of the altered frame was delivered with a different payload", i)
			return
		}
	}
	if len(got) < k {
		c.Fail("intact-frame-lost:"+where, "frame %d was altered; only %d of the %d intact frames in front of it were delivered", k, len(got), k)
		return
	}
	c.Outcome(fmt.Sprintf("delivered=%d", len(got)))
}

// ---- connection level ---------------------------------------------------------------------------------------------

type connCase struct {
	keySeed, randSeed int
	toClient          []int         // payload sizes the server pushes right behind the handshake confirmation
	toServer          []int         // payload sizes the client sends
	splitAt           []int         // segment boundaries of the server->client stream (absolute, 0 = start of the confirmation)
	flipBit           int           // -1 or bit offset into the server->client stream
	truncate          int           // -1 or number of bytes after which the server closes
	reply             bool          // the server sends one more packet after it has received all client packets
	senders           int           // >1: the client packets are sent by that many threads calling Connection.Send concurrently
	dialTimeout       time.Duration // >0: NewConnection is called with a context that carries this timeout (cancelled when it returns)
	replyDelay        time.Duration // the server waits that long before it sends its late reply
}

type connResult struct {
	connectErr error
	delivered  [][]byte
	serverGot  [][]byte
	serverErr  error
	sendErr    error
	s          *sched.S
}

func runConn(c *enum.Ctx, cc connCase) connResult {
	start := time.Unix(1_700_000_000, 0)
	vsync.ResetChannels()
	vcrand.Reset(uint64(cc.randSeed))
	s := sched.Start(c, start, 30*time.Second, 20000, os.Getenv("VERIF_TRACE") != "")
	key := adnl.NewServerKey(cc.keySeed)
	var res connResult
	res.s = s
	var toClientPayloads [][]byte
	for i, n := range cc.toClient {
		toClientPayloads = append(toClientPayloads, payloadOf(n, byte(0x10+i)))
	}
	serverDone := false
	vnet.Current = &vnet.Net{Accept: func(host string, conn *vnet.VConn) {
		defer func() { serverDone = true }()
		hs := make([]byte, 256)
		for n := 0; n < 256; {
			k, err := conn.Read(hs[n:])
			n += k
			if err != nil {
				res.serverErr = fmt.Errorf("handshake read: %v", err)
				return
			}
		}
		sess, err := key.Accept(hs)
		if err != nil {
			res.serverErr = fmt.Errorf("handshake rejected: %v", err)
			conn.Close()
			return
		}
		var nonce [32]byte
		next := func() [32]byte { nonce[0]++; nonce[5] = 0x33; return nonce }
		stream := sess.Seal(next(), nil)
		for _, pl := range toClientPayloads {
			stream = append(stream, sess.Seal(next(), pl)...)
		}
		if cc.flipBit >= 0 {
			stream[cc.flipBit/8] ^= 1 << (cc.flipBit % 8)
		}
		conn.Peer().SplitAt = cc.splitAt
		if cc.truncate >= 0 {
			if cc.truncate > 0 {
				conn.Write(stream[:cc.truncate])
			}
			conn.Close()
			return
		}
		if _, err := conn.Write(stream); err != nil {
			return
		}
		rd := sess.NewReader()
		buf := make([]byte, 1<<20)
		for len(res.serverGot) < len(cc.toServer) {
			n, err := conn.Read(buf)
			if err != nil {
				return
			}
			pls, err := rd.Feed(buf[:n])
			for _, p := range pls {
				if len(p) == 12 && p[0] == 0x9a && p[1] == 0x2b { // tcp.ping
					continue
				}
				res.serverGot = append(res.serverGot, p)
			}
			if err != nil {
				res.serverErr = err
				return
			}
		}
		if cc.reply {
			if cc.replyDelay > 0 {
				vtimes.Sleep(cc.replyDelay)
			}
			conn.Write(sess.Seal(next(), []byte("late reply")))
		}
		// keep the connection open
		for {
			if _, err := conn.Read(buf); err != nil {
				return
			}
		}
	}}
	expect := len(cc.toClient)
	if cc.reply {
		expect++
	}
	s.Run(func() {
		dialCtx := vctx.Background()
		cancelDial := func() {}
		if cc.dialTimeout > 0 {
			dialCtx, cancelDial = vctx.WithTimeout(dialCtx, cc.dialTimeout)
		}
		conn, err := liteclient.NewConnection(dialCtx, key.Pub, "server:1")
		cancelDial()
		if err != nil {
			res.connectErr = err
			return
		}
		// the client sends its packets, then collects what arrives until 2 s of silence
		if cc.senders > 1 {
			done := 0
			for t := 0; t < cc.senders; t++ {
				t := t
				s.GoClient(fmt.Sprintf("sender%d", t), func() {
					for i, n := range cc.toServer {
						if i%cc.senders != t {
							continue
						}
						p, err := liteclient.NewPacket(payloadOf(n, byte(0x60+i)))
						if err == nil {
							err = conn.Send(p)
						}
						if err != nil && res.sendErr == nil {
							res.sendErr = err
						}
					}
					done++
				})
			}
			s.Yield("join senders", func() bool { return done == cc.senders })
		} else {
			for i, n := range cc.toServer {
				p, err := liteclient.NewPacket(payloadOf(n, byte(0x60+i)))
				if err == nil {
					err = conn.Send(p)
				}
				if err != nil {
					res.sendErr = err
					break
				}
			}
		}
		for len(res.delivered) < expect+2 {
			sl := vsync.NewSel()
			rc := vsync.AddRecv(sl, (<-chan liteclient.Packet)(conn.Responses()))
			tc := vsync.AddRecv(sl, vtimes.After(2*time.Second+cc.replyDelay))
			_ = tc
			if sl.Wait(false) != 0 {
				break
			}
			p, _ := rc.Get()
			res.delivered = append(res.delivered, p.Payload)
		}
	})
	sched.G = nil
	if os.Getenv("VERIF_TRACE") != "" {
		for _, l := range s.Trace {
			c.Label("%s", l)
		}
	}
	_ = serverDone
	return res
}

// streamLen is the length of the server->client stream of a case (confirmation + pushed frames).
func streamLen(sizes []int) (total int, ends []int) {
	total = 68
	ends = []int{68}
	for _, n := range sizes {
		total += 68 + n
		ends = append(ends, total)
	}
	return
}

func judgeConn(c *enum.Ctx, cc connCase, res connResult, altered int) {
	s := res.s
	if s.StepCap {
		c.Outcome("step-cap")
		return
	}
	if s.Deadlock != "" && altered == 0 && !strings.HasPrefix(s.Deadlock, "PANIC") {
		// the altered confirmation announces more bytes than the server sent: the client keeps waiting for them, nothing is delivered
		c.Outcome("handshake-waits-for-announced-bytes")
		return
	}
	if s.Deadlock != "" {
		c.Fail("deadlock", "%s", s.Deadlock)
		return
	}
	if s.HorizonHit {
		c.Fail("never-returns", "the connection did not finish within 30 virtual seconds: %s", s.Blocked())
		return
	}
	if res.serverErr != nil && altered != 0 {
		c.Fail("server-rejects-client", "the reference server cannot process what the client sent: %v", res.serverErr)
		return
	}
	var sent [][]byte
	for i, n := range cc.toClient {
		sent = append(sent, payloadOf(n, byte(0x10+i)))
	}
	if cc.reply {
		sent = append(sent, []byte("late reply"))
	}
	if altered == 0 {
		// the confirmation itself was altered: the handshake must not complete
		if res.connectErr == nil {
			c.Fail("altered-confirmation-accepted", "the handshake confirmation was altered in transit, yet NewConnection succeeded")
			return
		}
		c.Outcome("handshake-refused")
		return
	}
	if res.connectErr != nil {
		c.Fail("handshake-failed", "NewConnection against the reference server (key seed %d, randomness seed %d): %v", cc.keySeed, cc.randSeed, res.connectErr)
		return
	}
	if altered < 0 {
		if res.sendErr != nil {
			c.Fail("send-failed", "Connection.Send: %v", res.sendErr)
			return
		}
		// client -> server: exactly the payloads sent, in order
		if len(res.serverGot) != len(cc.toServer) {
			c.Fail("client-packets-lost", "the server received %d of the %d packets the client sent", len(res.serverGot), len(cc.toServer))
			return
		}
		if cc.senders > 1 {
			// any order of arrival; every packet exactly once
			used := make([]bool, len(res.serverGot))
			for i, n := range cc.toServer {
				found := false
				for k := range res.serverGot {
					if !used[k] && bytes.Equal(res.serverGot[k], payloadOf(n, byte(0x60+i))) {
						used[k], found = true, true
						break
					}
				}
				if !found {
					c.Fail("client-payload-differs", "client packet %d (%d bytes, sent concurrently) did not arrive intact", i, n)
					return
				}
			}
		} else {
			for i, n := range cc.toServer {
				if !bytes.Equal(res.serverGot[i], payloadOf(n, byte(0x60+i))) {
					c.Fail("client-payload-differs", "client packet %d (%d bytes) arrived with a different payload", i, n)
					return
				}
			}
		}
		if len(res.delivered) != len(sent) {
			c.Fail("server-packets-lost", "%d of the %d packets the server sent were delivered on Responses() (sizes %v, segment boundaries %v)", len(res.delivered), len(sent), cc.toClient, cc.splitAt)
			return
		}
		for i := range sent {
			if !bytes.Equal(res.delivered[i], sent[i]) {
				c.Fail("server-payload-differs", "server packet %d was delivered with a different payload", i)
				return
			}
		}
		c.Outcome(fmt.Sprintf("ok to-client=%d to-server=%d", len(sent), len(cc.toServer)))
		return
	}
	judgeDelivered(c, res.delivered, sent, altered-1, "connection")
}

func connHarnesses(r *fw.Run) []fw.HarnessSpec {
	var hs []fw.HarnessSpec
	iso := func(name string, bound int, run func(c *enum.Ctx)) {
		hs = append(hs, fw.HarnessSpec{Isolated: true, Shards: 1, Harness: enum.Harness{Name: name, Bound: bound, Workers: 1, MaxViolations: 40, Run: run}})
	}
	nKeys, nRand := r.Pick(24, 128), r.Pick(4, 8)
	iso("connection/handshake-key-grid", 0, func(c *enum.Ctx) {
		cc := connCase{keySeed: 1 + c.ChooseFree(nKeys), randSeed: 1 + c.ChooseFree(nRand), toClient: []int{3, 0}, toServer: []int{7, 0, 300}, flipBit: -1, truncate: -1, reply: true}
		c.Label("server key seed %d, client randomness seed %d", cc.keySeed, cc.randSeed)
		c.Case([]byte(fmt.Sprintf("grid/%d/%d", cc.keySeed, cc.randSeed)), true)
		judgeConn(c, cc, runConn(c, cc), -1)
	})
	// every payload size in both directions through the real connection, 32 consecutive sizes per connection
	// (the stream ciphers carry across the packets of one connection)
	top := r.Pick(1152, 65536+32)
	nblk := top / 32
	iso("connection/every-size-both-directions", 0, func(c *enum.Ctx) {
		blk := c.ChooseFree(nblk + 2)
		cc := connCase{keySeed: 5, randSeed: 4, flipBit: -1, truncate: -1}
		switch {
		case blk < nblk:
			for i := 0; i < 32; i++ {
				cc.toClient = append(cc.toClient, blk*32+i)
				cc.toServer = append(cc.toServer, blk*32+31-i)
			}
		case blk == nblk:
			cc.toClient = []int{65535, 65536, 65537, 4095, 4096, 4097}
			cc.toServer = []int{4097, 4096, 4095, 65537, 65536, 65535}
		default:
			if r.Quick() {
				cc.toClient, cc.toServer = []int{1 << 20}, []int{1<<20 + 1}
			} else {
				cc.toClient, cc.toServer = []int{8<<20 - 64, 1}, []int{8<<20 - 64, 2}
			}
		}
		c.Label("payload sizes to client %d.., to server %d.. (%d packets each way)", cc.toClient[0], cc.toServer[0], len(cc.toClient))
		c.Case([]byte(fmt.Sprintf("sizes/%d/%d", cc.toClient[0], len(cc.toClient))), true)
		judgeConn(c, cc, runConn(c, cc), -1)
	})
	// two and three threads call Connection.Send at the same time: each frame must reach the server intact (the cipher
	// stream and the order of the bytes on the wire have to stay in step), in any order
	iso("connection/concurrent-senders", r.Pick(2, 3), func(c *enum.Ctx) {
		n := 2 + c.ChooseFree(2)
		cc := connCase{keySeed: 6, randSeed: 5, toClient: []int{1}, toServer: []int{3, 40, 0, 17, 300, 5}[:2*n], flipBit: -1, truncate: -1, reply: true, senders: n}
		c.Label("%d threads send %v concurrently", n, cc.toServer)
		c.Case([]byte(fmt.Sprintf("conc/%d", n)), true)
		judgeConn(c, cc, runConn(c, cc), -1)
	})
	alphabet := []int{0, 1, 15, 16, 17, 255, 4096, 65536}
	if r.Quick() {
		alphabet = []int{0, 1, 16, 17, 4096}
	}
	iso("connection/packet-sequences", r.Pick(0, 1), func(c *enum.Ctx) {
		cc := connCase{keySeed: 2, randSeed: 3, flipBit: -1, truncate: -1}
		nc, ns := c.ChooseFree(3), c.ChooseFree(3)
		for i := 0; i < nc; i++ {
			cc.toClient = append(cc.toClient, alphabet[c.ChooseFree(len(alphabet))])
		}
		for i := 0; i < ns; i++ {
			cc.toServer = append(cc.toServer, alphabet[c.ChooseFree(len(alphabet))])
		}
		cc.reply = c.ChooseFree(2) == 1
		c.Label("server pushes %v behind the confirmation, client sends %v, late reply %v", cc.toClient, cc.toServer, cc.reply)
		c.Case([]byte(fmt.Sprintf("seq/%v/%v/%v", cc.toClient, cc.toServer, cc.reply)), true)
		judgeConn(c, cc, runConn(c, cc), -1)
	})
	iso("connection/segment-boundaries", r.Pick(0, 1), func(c *enum.Ctx) {
		cc := connCase{keySeed: 3, randSeed: 1, toClient: []int{2, 0, 21}, toServer: []int{4}, flipBit: -1, truncate: -1, reply: true}
		total, _ := streamLen(cc.toClient)
		if c.ChooseFree(2) == 0 {
			p := c.ChooseFree(total) // 0 = one segment
			if p > 0 {
				cc.splitAt = []int{p}
			}
		} else {
			// two boundaries: the first inside the confirmation or the first pushed frame's head, the second anywhere behind it
			p := 1 + c.ChooseFree(75)
			q := p + 1 + c.ChooseFree(total-p-1)
			cc.splitAt = []int{p, q}
			if r.Quick() && q > 150 {
				c.Skip()
				return
			}
		}
		c.Label("segment boundaries of the server's stream at %v (confirmation = bytes 0..67)", cc.splitAt)
		c.Case([]byte(fmt.Sprintf("seg/%v", cc.splitAt)), true)
		judgeConn(c, cc, runConn(c, cc), -1)
	})
	// the context given to NewConnection bounds connecting, nothing else: a connection made under a deadline (how the
	// pool dials) carries traffic after that deadline has passed like any other
	iso("connection/dial-context-with-deadline", 0, func(c *enum.Ctx) {
		cc := connCase{keySeed: 2, randSeed: 2, toClient: []int{5}, toServer: []int{9}, flipBit: -1, truncate: -1, reply: true}
		cc.dialTimeout = []time.Duration{0, time.Second, 3 * time.Second}[c.ChooseFree(3)]
		cc.replyDelay = []time.Duration{0, 2 * time.Second, 6 * time.Second}[c.ChooseFree(3)]
		c.Label("NewConnection under a %v context deadline, the server's last packet comes %v after the client's", cc.dialTimeout, cc.replyDelay)
		c.Case([]byte(fmt.Sprintf("dialctx/%v/%v", cc.dialTimeout, cc.replyDelay)), true)
		judgeConn(c, cc, runConn(c, cc), -1)
	})
	iso("connection/corruptions", 0, func(c *enum.Ctx) {
		cc := connCase{keySeed: 4, randSeed: 2, toClient: []int{0, 6, 19}, toServer: nil, flipBit: -1, truncate: -1}
		total, ends := streamLen(cc.toClient)
		var altered int
		if c.ChooseFree(2) == 0 {
			cc.flipBit = c.ChooseFree(total * 8)
			altered = frameOf(ends, cc.flipBit/8)
			c.Label("bit %d of byte %d of the server's stream flipped (frame %d; 0 = confirmation)", cc.flipBit%8, cc.flipBit/8, altered)
		} else {
			cc.truncate = c.ChooseFree(total)
			altered = frameOf(ends, cc.truncate)
			c.Label("the server's stream ends after %d bytes (frame %d incomplete; 0 = confirmation)", cc.truncate, altered)
		}
		c.Case([]byte(fmt.Sprintf("corr/%d/%d", cc.flipBit, cc.truncate)), true)
		judgeConn(c, cc, runConn(c, cc), altered+0)
	})
	return hs
}
