// Package c12: concurrent lite-client requests each receive their own answer.
package c12

import (
	"bytes"
	"encoding/binary"
	"fmt"
	"os"
	"strings"
	"time"

	"github.com/tonkeeper/tongo/liteclient"

	"verif/fw"
	"verif/mc/enum"
	"verif/ref/adnl"
	rtl "verif/ref/tl"
	"verif/shim/sched"
	"verif/shim/vcrand"
	"verif/shim/vctx"
	"verif/shim/vnet"
	"verif/shim/vsync"
	"verif/shim/vtimes"
)

func init() {
	fw.Register(&fw.Property{
		ID: "C12",
		Rule: "closed system: the real liteclient.NewConnection + NewClient (source-instrumented) over a virtual socket, a reference ADNL server thread per accepted connection, 1..3 caller threads with distinct payloads and a 5 s client timeout; " +
			"the server's behaviour per received query is an explored environment choice with budgets (answer, withhold, answer later = permuted order, duplicate answer, answer with an unknown id first, unrelated packet first, close the connection, refuse re-dials); " +
			"every schedule of callers and library goroutines (client reader, connection reader, packet pump, ping, reconnect) with at most P preemptions is executed in virtual time; distinct = scheduler fingerprints; non-trivial = always",
		Assume: []string{
			"scheduling points: goroutine spawn/exit, mutex operations, channel operations, select, sleeps/timers, context deadlines, socket reads/writes/closes",
			"data races: every read/write of a struct field reached through a pointer, of a package-level variable, of a map and every use of a *rand.Rand is reported to a vector-clock happens-before detector fed by the shims' synchronisation edges (those of the Go memory model, plus socket write -> read as the runtime does under -race); a pair of conflicting accesses not ordered by them in an explored execution is a violation. Slice elements, local variables captured by closures and whole-struct copies are not tracked",
			"a write to a socket whose peer has closed fails immediately; bytes are delivered in order",
			"the reference server derives the session keys from the handshake packet with crypto/ecdh (every execution performs a real handshake)",
			"goroutine growth is judged by comparing the number of live threads after all calls returned with the number before the first call, in executions without a connection drop",
		},
		Harnesses: harnesses,
	})
}

const (
	magicQuery  = 0xb48bf97a
	magicAnswer = 0x0fac8416
	magicPing   = 0x4d082b9a
	magicPong   = 0xdc69fb03
)

type scenario struct {
	name    string
	callers int
	// environment budgets
	withhold, dup, unknownID, unrelated, closeConn, refuseDial, reorder bool
	fresh                                                               bool          // after everything, a fresh request must succeed (reconnect)
	idle                                                                time.Duration // the client idles (ping/pong traffic only) before the callers start
	slow                                                                bool          // the server may take 1.2 s to answer
	workers                                                             int           // connections per client (OptionWorkersPerConnection)
	idleDrop                                                            bool          // the server may close the idle connection (no request in flight)
	dropInHandshake                                                     bool          // after a drop, the server may close the next accepted connection before answering the handshake
	sequential                                                          int           // further requests issued one after another by caller 0
	callerDeadline                                                      time.Duration // callers pass a context with their own deadline (later than the client timeout)
	idleDrops                                                           int           // how many idle connections in a row the server may drop (default 1 when idleDrop is set)
	closeFirst                                                          bool          // the server closes the connection at the first query (the scenario's given, not an explored move)
}

type callResult struct {
	id         int
	payload    []byte
	res        []byte
	err        error
	start, end time.Time
}

type world struct {
	c        *enum.Ctx
	s        *sched.S
	sc       scenario
	key      adnl.ServerKey
	answered map[string]time.Time // payload -> when the server sent the (first) answer on a connection that was alive
	closedAt time.Time
	closes   int
	nonce    byte
	accepts  int
	hsDrops  int // connections the server closed before answering the handshake
	moves    []string
}

func answerFor(q []byte) []byte { return append([]byte("answer-to:"), q...) }

func (w *world) nextNonce() [32]byte {
	w.nonce++
	var n [32]byte
	n[0], n[31] = w.nonce, 0x77
	return n
}

// serve is the reference server for one accepted connection (a scheduler thread).
func (w *world) serve(host string, conn *vnet.VConn) {
	hs := make([]byte, 256)
	if _, err := readFull(conn, hs); err != nil {
		return
	}
	w.accepts++
	if w.sc.dropInHandshake && w.closes == 1 && w.accepts == 2 && w.c.Choose(2) == 1 {
		w.moves = append(w.moves, "drop-in-handshake")
		w.hsDrops++
		conn.Close()
		return
	}
	sess, err := w.key.Accept(hs)
	if err != nil {
		w.c.Fail("handshake-rejected", "the reference server cannot accept the client's handshake: %v", err)
		conn.Close()
		return
	}
	if _, err := conn.Write(sess.Seal(w.nextNonce(), nil)); err != nil {
		return
	}
	rd := sess.NewReader()
	type pending struct{ id, q []byte }
	var held []pending
	send := func(payload []byte) bool {
		_, err := conn.Write(sess.Seal(w.nextNonce(), payload))
		return err == nil
	}
	answer := func(p pending) {
		out := append(rtl.U32(magicAnswer), p.id...)
		out = append(out, rtl.Bytes(answerFor(p.q))...)
		// The answer counts as produced even when the write fails: unless the environment dropped the connection
		// (w.closes > 0, judged separately) only the client itself can have closed a connection on which the
		// server answers every ping at once, and the call must still get its answer.
		send(out)
		if _, ok := w.answered[string(p.q)]; !ok {
			w.answered[string(p.q)] = w.s.Now()
		}
	}
	maxDrops := 1
	if w.sc.idleDrops > 0 {
		maxDrops = w.sc.idleDrops
	}
	if w.sc.idleDrop && w.closes < maxDrops && w.c.Choose(2) == 1 {
		// the environment drops this connection while it is idle, 4 s after the handshake
		w.moves = append(w.moves, "idle-drop")
		w.closes++
		w.s.Go("server-idle-drop", func() {
			vtimes.Sleep(4 * time.Second)
			w.closedAt = w.s.Now()
			conn.Close()
		})
	}
	buf := make([]byte, 4096)
	for {
		n, err := conn.Read(buf)
		if err != nil {
			return
		}
		payloads, err := rd.Feed(buf[:n])
		if err != nil {
			w.c.Fail("client-frame-invalid", "the client sent a frame the reference server rejects: %v", err)
			conn.Close()
			return
		}
		for _, p := range payloads {
			if len(p) < 4 {
				continue
			}
			switch binary.LittleEndian.Uint32(p) {
			case magicPing:
				if len(p) == 12 {
					send(append(rtl.U32(magicPong), p[4:]...))
				}
			case magicQuery:
				if len(p) < 40 {
					w.c.Fail("client-query-invalid", "short adnl.message.query")
					continue
				}
				id := p[4:36]
				q, _, ok := readBytes(p[36:])
				if !ok {
					w.c.Fail("client-query-invalid", "malformed bytes in adnl.message.query")
					continue
				}
				pd := pending{append([]byte{}, id...), append([]byte{}, q...)}
				// the environment's move for this query (default 0 = answer at once)
				var moves []string
				moves = append(moves, "answer")
				if w.sc.withhold {
					moves = append(moves, "withhold")
				}
				if w.sc.reorder {
					moves = append(moves, "hold-until-next")
				}
				if w.sc.dup {
					moves = append(moves, "answer-twice", "answer-four-times")
				}
				if w.sc.unknownID {
					moves = append(moves, "unknown-id-first")
				}
				if w.sc.unrelated {
					moves = append(moves, "unrelated-first")
				}
				if w.sc.closeConn && w.closes == 0 {
					moves = append(moves, "close")
				}
				if w.sc.slow {
					moves = []string{"slow-answer", "answer"}
				}
				mv := ""
				if w.sc.closeFirst && w.closes == 0 {
					mv = "close" // this scenario's server drops the connection at the first query it sees: not a deviation
				} else {
					mv = moves[w.c.Choose(len(moves))]
				}
				w.moves = append(w.moves, mv)
				switch mv {
				case "answer":
					answer(pd)
				case "slow-answer":
					vtimes.Sleep(1200 * time.Millisecond)
					answer(pd)
				case "withhold":
				case "hold-until-next":
					held = append(held, pd)
					continue
				case "answer-twice":
					answer(pd)
					answer(pd)
				case "answer-four-times":
					// more copies than the caller's reply slot and the caller together can absorb
					answer(pd)
					answer(pd)
					answer(pd)
					answer(pd)
				case "unknown-id-first":
					bogus := pending{bytes.Repeat([]byte{0xEE}, 32), []byte("nobody asked")}
					answer(bogus)
					delete(w.answered, string(bogus.q))
					answer(pd)
				case "unrelated-first":
					send(append(rtl.U32(magicPong), 1, 2, 3, 4, 5, 6, 7, 8))
					send([]byte{1, 2, 3, 4, 5})
					answer(pd)
				case "close":
					w.closes++
					w.closedAt = w.s.Now()
					if w.sc.refuseDial {
						vnet.Current.RefuseDials = []int{1, 2, 5, 8}[w.c.Choose(4)] // the outage lasts for that many re-dial attempts (one per second)
					}
					conn.Close()
					return
				}
				// held queries are answered after a later one (reverse order)
				for i := len(held) - 1; i >= 0; i-- {
					answer(held[i])
				}
				held = nil
			}
		}
	}
}

func readFull(c *vnet.VConn, b []byte) (int, error) {
	n := 0
	for n < len(b) {
		k, err := c.Read(b[n:])
		n += k
		if err != nil {
			return n, err
		}
	}
	return n, nil
}

func readBytes(b []byte) (data, rest []byte, ok bool) {
	if len(b) == 0 {
		return nil, nil, false
	}
	n, hdr := int(b[0]), 1
	if b[0] == 0xfe {
		if len(b) < 4 {
			return nil, nil, false
		}
		n, hdr = int(b[1])|int(b[2])<<8|int(b[3])<<16, 4
	}
	tot := hdr + n
	for tot%4 != 0 {
		tot++
	}
	if len(b) < tot {
		return nil, nil, false
	}
	return b[hdr : hdr+n], b[tot:], true
}

func harnesses(r *fw.Run) []fw.HarnessSpec {
	var hs []fw.HarnessSpec
	scen := []scenario{
		{name: "one-caller-answered", callers: 1},
		{name: "two-callers-permuted", callers: 2, reorder: true},
		{name: "two-callers-noise", callers: 2, dup: true, unknownID: true, unrelated: true},
		{name: "withheld-answer-timeout", callers: 2, withhold: true},
		{name: "server-closes-then-reconnect", callers: 1, closeConn: true, fresh: true},
		{name: "server-closes-dial-refused", callers: 1, closeConn: true, refuseDial: true, fresh: true},
		{name: "three-callers", callers: 3, reorder: true},
		{name: "idle-then-slow-answer", callers: 2, idle: 9500 * time.Millisecond, slow: true},
		{name: "two-connections-two-callers", callers: 2, workers: 2, reorder: true, withhold: true},
		{name: "idle-drop-then-request", callers: 1, idle: 9 * time.Second, idleDrop: true, fresh: true},
		{name: "drop-during-reconnect", callers: 1, closeConn: true, dropInHandshake: true, fresh: true},
		{name: "one-caller-sequence", callers: 1, sequential: 2, reorder: true, dup: true},
		{name: "caller-context-with-later-deadline", callers: 2, withhold: true, callerDeadline: 20 * time.Second},
		{name: "three-callers-server-closes-at-once", callers: 3, closeConn: true, closeFirst: true, fresh: true},
		{name: "caller-context-with-earlier-deadline", callers: 2, withhold: true, callerDeadline: time.Second},
		{name: "two-idle-drops-then-request", callers: 1, idle: 20 * time.Second, idleDrop: true, idleDrops: 2, fresh: true},
	}
	bounds := map[string]int{"idle-then-slow-answer": 1}
	for _, sc := range scen {
		sc := sc
		if only := os.Getenv("C12_SCEN"); only != "" && only != sc.name {
			continue
		}
		bound := r.Pick(2, 3)
		if b, ok := bounds[sc.name]; ok {
			bound = b + r.Pick(0, 1)
		}
		hs = append(hs, fw.HarnessSpec{Isolated: true, Shards: 1, Harness: enum.Harness{Name: "requests/" + sc.name, Bound: bound, Workers: 1, MaxViolations: 40, Run: func(c *enum.Ctx) {
			c.Label("scenario %s", sc.name)
			runScenario(c, sc)
		}}})
	}
	return hs
}

func runScenario(c *enum.Ctx, sc scenario) {
	start := time.Unix(1_700_000_000, 0)
	vsync.ResetChannels()
	vcrand.Reset(7)
	s := sched.Start(c, start, 60*time.Second, 60000, os.Getenv("VERIF_TRACE") != "")
	s.RaceDetect = os.Getenv("C12_NORACE") == ""
	w := &world{c: c, s: s, sc: sc, key: adnl.NewServerKey(1), answered: map[string]time.Time{}}
	vnet.Current = &vnet.Net{Accept: w.serve}
	var results []callResult
	var setupErr error
	liveBefore, liveAfter, liveEnd := -1, -1, -1
	var freshErr error
	freshDone := false
	var okAfter bool
	timeout := 5 * time.Second
	s.Run(func() {
		conn, err := liteclient.NewConnection(vctx.Background(), w.key.Pub, "server:1")
		if err != nil {
			setupErr = err
			return
		}
		opts := []liteclient.Options{liteclient.OptionTimeout(timeout)}
		if sc.workers > 1 {
			opts = append(opts, liteclient.OptionWorkersPerConnection(sc.workers))
		}
		client := liteclient.NewClient(conn, opts...)
		if sc.idle > 0 {
			vtimes.Sleep(sc.idle)
		}
		liveBefore = s.LiveExcept("server")
		done := 0
		for i := 0; i < sc.callers; i++ {
			i := i
			payload := []byte(fmt.Sprintf("query-%d-%s", i, bytes.Repeat([]byte{'x'}, i*5)))
			s.GoClient(fmt.Sprintf("caller%d", i), func() {
				st := s.Now()
				ctx := vctx.Background()
				cancel := func() {}
				if sc.callerDeadline > 0 {
					ctx, cancel = vctx.WithTimeout(ctx, sc.callerDeadline)
				}
				res, err := client.Request(ctx, payload)
				end := s.Now()
				cancel() // (a scheduling point: before the caller is counted as done)
				results = append(results, callResult{i, payload, res, err, st, end})
				for k := 0; i == 0 && k < sc.sequential; k++ {
					p2 := []byte(fmt.Sprintf("query-0-seq-%d", k))
					st := s.Now()
					res, err := client.Request(vctx.Background(), p2)
					results = append(results, callResult{0, p2, res, err, st, s.Now()})
				}
				done++
			})
		}
		// the main thread waits for the callers (it is a client thread itself)
		s.Yield("join callers", func() bool { return done == sc.callers })
		s.AcquireFinished() // the join orders the callers' work before what follows (a WaitGroup in ordinary code)
		liveAfter = s.LiveExcept("server")
		if sc.fresh {
			// after a drop the client must reconnect by itself within a bounded time and serve a fresh request
			deadline := s.Now().Add(15 * time.Second)
			for !client.IsOK() && s.Now().Before(deadline) {
				s.SleepUntil(s.Now().Add(500*time.Millisecond), "wait for reconnect")
			}
			okAfter = client.IsOK()
			if okAfter {
				w.sc.closeConn = false // the environment's drop budget is spent
				res, err := client.Request(vctx.Background(), []byte("fresh"))
				freshDone = true
				freshErr = err
				if err == nil && !bytes.Equal(res, answerFor([]byte("fresh"))) {
					freshErr = fmt.Errorf("fresh request got %q", res)
				}
				// let the traces of the old connection die down before counting what is left
				s.SleepUntil(s.Now().Add(12*time.Second), "settle")
				liveEnd = s.LiveExcept("server")
			}
		}
	})
	sched.G = nil
	if os.Getenv("VERIF_TRACE") != "" {
		for _, l := range s.Trace {
			c.Label("%s", l)
		}
	}
	c.Case([]byte(fmt.Sprintf("%s/%d/%d/%d", sc.name, s.States(), s.Steps(), s.Preemptions)), true)
	c.Sample(map[string]any{"scenario": sc.name, "scheduling_points": s.Steps(), "distinct_scheduler_states": s.States(), "preemptions": s.Preemptions, "server_closes": w.closes})
	{
		rs := ""
		for _, cr := range results {
			switch {
			case cr.err == nil:
				rs += fmt.Sprintf(" %d:ok", cr.id)
			case strings.Contains(cr.err.Error(), "timeout"):
				rs += fmt.Sprintf(" %d:timeout", cr.id)
			default:
				rs += fmt.Sprintf(" %d:err", cr.id)
			}
		}
		c.Outcome(fmt.Sprintf("env=%s results=%s", strings.Join(w.moves, ","), rs))
	}
	if s.StepCap {
		c.Outcome("step-cap")
		return
	}
	if s.Race != nil {
		c.Fail("data-race:"+s.Race.Key, "data race in this execution: %s", s.Race.Detail)
	}
	if setupErr != nil {
		c.Fail("connect-failed", "NewConnection against the reference server failed: %v", setupErr)
		return
	}
	if s.Deadlock != "" {
		c.Fail("deadlock:"+sc.name, "%s", s.Deadlock)
		return
	}
	if s.HorizonHit {
		c.Fail("never-returns:"+sc.name, "a call did not return within 60 virtual seconds: %s", s.Blocked())
		return
	}
	// a call's deadline is the earlier of the client's timeout and the deadline of the context it was given
	// (the follow-up calls of caller 0 use a plain context)
	clientTimeout := timeout
	for _, cr := range results {
		timeout := clientTimeout
		if sc.callerDeadline > 0 && sc.callerDeadline < timeout && !bytes.Contains(cr.payload, []byte("-seq-")) {
			timeout = sc.callerDeadline
		}
		if cr.err == nil {
			// (1) own answer or nothing
			if !bytes.Equal(cr.res, answerFor(cr.payload)) {
				c.Fail("wrong-answer:"+sc.name, "caller %d (query %q) received %q", cr.id, cr.payload, cr.res)
			}
		} else {
			// (2) the server answered this id on a live connection before the deadline -> the call must have returned it
			if at, ok := w.answered[string(cr.payload)]; ok && at.Sub(cr.start) < timeout && w.closes == 0 {
				c.Fail("answer-lost:"+sc.name, "the server answered query %q at +%v but the call returned %v", cr.payload, at.Sub(cr.start), cr.err)
			}
			// (3) otherwise a timeout error by the deadline
			if cr.end.Sub(cr.start) > timeout {
				c.Fail("late-error:"+sc.name, "call returned an error after %v (timeout %v): %v", cr.end.Sub(cr.start), timeout, cr.err)
			}
		}
		if cr.end.Sub(cr.start) > timeout {
			c.Fail("late-return:"+sc.name, "call returned after %v (timeout %v)", cr.end.Sub(cr.start), timeout)
		}
		// (4b) "reconnects by itself within a bounded time and later calls succeed": a call issued 8 s or more after
		// the last drop of an idle connection (ping period 3 s, immediate re-dial) must find a working connection
		if cr.err != nil && sc.idleDrop && w.closes > 0 && !w.closedAt.IsZero() && cr.start.Sub(w.closedAt) >= 8*time.Second {
			c.Fail("call-fails-long-after-drop:"+sc.name, "a call issued %v after the server dropped the idle connection failed: %v", cr.start.Sub(w.closedAt), cr.err)
		}
	}
	// (6) goroutines do not accumulate with completed calls
	if w.closes == 0 && liveBefore >= 0 && liveAfter > liveBefore {
		c.Fail("goroutine-growth:"+sc.name, "%d live threads before the calls, %d after all %d calls returned", liveBefore, liveAfter, len(results))
	}
	// (7) the reconnected client runs the threads it ran before the drop: nothing of the dropped connection (or of a
	// redundant reconnect) stays behind. (The number of connections opened per drop is not judged: on the unchanged tree
	// two Sends that fail before the first reconnect goroutine runs lead to two reconnects in a row - wasteful, but the
	// statement only asks for a working connection and no growth.)
	if sc.fresh && w.closes > 0 && okAfter && freshDone && freshErr == nil {
		if w.accepts > 1+w.closes+w.hsDrops {
			c.Outcome("redundant-reconnect")
		}
		if liveBefore >= 0 && liveEnd > liveBefore {
			c.Fail("goroutine-growth-after-reconnect:"+sc.name, "%d live client threads before the drop, %d after reconnecting and 12 quiet seconds", liveBefore, liveEnd)
		}
	}
	// (4) reconnect
	if sc.fresh && w.closes > 0 {
		if !okAfter {
			c.Fail("no-reconnect:"+sc.name, "15 virtual seconds after the server closed the connection the client is still not connected")
		} else if freshDone && freshErr != nil {
			c.Fail("fresh-request-failed:"+sc.name, "after reconnecting a fresh request failed: %v", freshErr)
		}
	}
}
