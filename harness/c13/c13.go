// Package c13: connection pool picks a healthy, current server and its waits never hang.
package c13

import (
	"fmt"
	"os"
	"time"

	"github.com/tonkeeper/tongo/liteapi/pool"
	"github.com/tonkeeper/tongo/ton"

	"verif/fw"
	"verif/mc/enum"
	"verif/shim/sched"
	"verif/shim/vcrand"
	"verif/shim/vctx"
	"verif/shim/vsync"
	"verif/shim/vtimes"
)

func init() {
	fw.Register(&fw.Property{
		ID: "C13",
		Rule: "selection: pools of 1..N mock connections x alive x head seqno {0,1,2,3,1000} x round trip {1,2,3 ms} x previous best x both strategies (exhaustive grid), oracle = the statement in exact arithmetic; " +
			"waiting: the real ConnPool.Run, real connection.SetMasterHead and WaitMasterchainSeqno / BestMasterchainClient are source-instrumented and run under a cooperative scheduler; every interleaving of 1..2 updater threads, 1..2 waiters, " +
			"a canceller and a best-connection switch with at most P preemptions / timer-first deviations is executed (virtual time); distinct = scheduler state fingerprints; non-trivial = always",
		Assume: []string{
			"scheduling points are goroutine spawn/exit, mutex and RWMutex operations (writer preference), channel operations, select, sleeps, timers and context cancellation; data races are not judged by this check",
			"virtual time advances only when no thread is enabled (mode A) or, as a costed deviation, to the earliest pending timer while threads are enabled (mode B)",
			"real pool connections are built in-package with a socket-less client (file added through the build overlay)",
		},
		Harnesses: harnesses,
	})
}

var seqnos = []uint32{0, 1, 2, 3, 1000}
var rtts = []time.Duration{time.Millisecond, 2 * time.Millisecond, 3 * time.Millisecond}

func harnesses(r *fw.Run) []fw.HarnessSpec {
	var hs []fw.HarnessSpec

	// ---- selection grid (no scheduler: plain calls) ------------------------------------------------
	hs = append(hs, fw.HarnessSpec{Harness: enum.Harness{Name: "selection-grid", Bound: 0, Workers: 1, Run: func(c *enum.Ctx) {
		sched.G = nil
		n := 1 + c.ChooseFree(r.Pick(3, 4))
		strategy := []pool.Strategy{pool.BestPingStrategy, pool.FirstWorkingConnection}[c.ChooseFree(2)]
		mocks := make([]*pool.VerifMock, n)
		desc := ""
		for i := range mocks {
			mocks[i] = &pool.VerifMock{Id: i * 2, OK: c.ChooseFree(2) == 1, Seqno: seqnos[c.ChooseFree(len(seqnos))], RTT: rtts[c.ChooseFree(len(rtts))]}
			desc += fmt.Sprintf("(%v,%d,%v)", mocks[i].OK, mocks[i].Seqno, mocks[i].RTT)
		}
		prev := c.ChooseFree(n)
		c.Case([]byte(fmt.Sprintf("%s/%s/%d", strategy, desc, prev)), true)
		c.Sample(map[string]any{"strategy": string(strategy), "connections(alive,seqno,rtt)": desc, "previous_best": prev})
		c.Label("%s %s prev=%d", strategy, desc, prev)
		c.Try("panic:updateBest", func() {
			p := pool.VerifNewMockPool(strategy, mocks, prev)
			p.VerifUpdateBest()
			got := p.VerifBestID()
			var max uint32
			for _, m := range mocks {
				if m.Seqno > max {
					max = m.Seqno
				}
			}
			var eligible []*pool.VerifMock
			for _, m := range mocks {
				if m.OK && uint64(m.Seqno)+1 >= uint64(max) {
					eligible = append(eligible, m)
				}
			}
			if len(eligible) == 0 {
				if got != mocks[prev].Id {
					c.Fail("selection:previous-not-kept", "no connection is alive and current, previous best %d must be kept, got %d", mocks[prev].Id, got)
				}
				return
			}
			switch strategy {
			case pool.FirstWorkingConnection:
				if got != eligible[0].Id {
					c.Fail("selection:first-working", "first working connection is %d, pool chose %d", eligible[0].Id, got)
				}
			default:
				best := eligible[0].RTT
				for _, m := range eligible {
					if m.RTT < best {
						best = m.RTT
					}
				}
				ok := false
				for _, m := range eligible {
					if m.Id == got && m.RTT == best {
						ok = true
					}
				}
				if !ok {
					c.Fail("selection:best-ping", "pool chose %d which is not an alive, current connection with the lowest round trip %v", got, best)
				}
			}
		})
	}}})

	// ---- selection over several refreshes of one pool: connections die, fall behind and recover between refreshes; every
	// refresh must choose by the rule from the connections' state at that moment (the pool keeps its connection list)
	hs = append(hs, fw.HarnessSpec{Harness: enum.Harness{Name: "selection-sequences", Bound: 0, Workers: 1, Run: func(c *enum.Ctx) {
		sched.G = nil
		n := 3
		refreshes := r.Pick(2, 3)
		strategy := []pool.Strategy{pool.BestPingStrategy, pool.FirstWorkingConnection}[c.ChooseFree(2)]
		rttOrder := [][]time.Duration{{2 * time.Millisecond, time.Millisecond, 3 * time.Millisecond}, {time.Millisecond, 2 * time.Millisecond, 3 * time.Millisecond}, {3 * time.Millisecond, 2 * time.Millisecond, time.Millisecond}}[c.ChooseFree(3)]
		mocks := make([]*pool.VerifMock, n)
		for i := range mocks {
			mocks[i] = &pool.VerifMock{Id: i * 2, OK: true, Seqno: 5, RTT: rttOrder[i]}
		}
		// state of a connection at a refresh: 0 alive and current, 1 dead, 2 alive but two blocks behind
		states := make([][]int, refreshes)
		desc := ""
		for k := range states {
			states[k] = make([]int, n)
			for i := range states[k] {
				states[k][i] = c.ChooseFree(3)
				desc += fmt.Sprint(states[k][i])
			}
			desc += "/"
		}
		c.Case([]byte(fmt.Sprintf("seq/%s/%v/%s", strategy, rttOrder, desc)), true)
		c.Sample(map[string]any{"strategy": string(strategy), "rtts": fmt.Sprint(rttOrder), "states_per_refresh": desc})
		c.Label("%s rtts=%v states=%s", strategy, rttOrder, desc)
		c.Try("panic:updateBest", func() {
			p := pool.VerifNewMockPool(strategy, mocks, 0)
			prev := mocks[0].Id
			for k := 0; k < refreshes; k++ {
				for i, m := range mocks {
					m.OK, m.Seqno = states[k][i] != 1, 5
					if states[k][i] == 2 {
						m.Seqno = 3
					}
				}
				p.VerifUpdateBest()
				got := p.VerifBestID()
				var max uint32
				for _, m := range mocks {
					if m.Seqno > max {
						max = m.Seqno
					}
				}
				var eligible []*pool.VerifMock
				for _, m := range mocks {
					if m.OK && uint64(m.Seqno)+1 >= uint64(max) {
						eligible = append(eligible, m)
					}
				}
				want := prev
				if len(eligible) > 0 {
					want = eligible[0].Id
					if strategy != pool.FirstWorkingConnection {
						for _, m := range eligible {
							if m.RTT < mocks[want/2].RTT {
								want = m.Id
							}
						}
					}
				}
				if got != want {
					c.Fail("selection-sequence:"+string(strategy), "refresh %d of %d (states %s): the rule selects connection %d, the pool chose %d", k+1, refreshes, desc, want, got)
					return
				}
				if p.ConnectionsNumber() != n {
					c.Fail("selection-sequence:connections", "the pool reports %d connections after a refresh, it has %d", p.ConnectionsNumber(), n)
					return
				}
				prev = got
			}
		})
	}}})

	// ---- waiting under the scheduler ----------------------------------------------------------------
	type scenario struct {
		name        string
		updaters    [][]uint32 // per updater thread: the sequence of head seqnos it reports on the best connection
		gaps        time.Duration
		waiters     []uint32        // seqno each waiter waits for
		cancel      bool            // a canceller thread cancels waiter 0
		best0       bool            // a BestMasterchainClient caller on a head-0 connection
		sw          bool            // a thread switches the best connection to conn 1 and reports a head there
		delays      []time.Duration // waiter i starts after delays[i]
		timeouts    []time.Duration // per waiter: its timeout (default 1 s)
		updaterConn []int           // per updater: the connection it reports heads on (default 0, the best one)
	}
	scen := []scenario{
		{name: "one-waiter-reached", updaters: [][]uint32{{1, 2, 3}}, waiters: []uint32{2}},
		{name: "one-waiter-not-reached", updaters: [][]uint32{{1, 2}}, waiters: []uint32{9}},
		{name: "stale-heads-then-timeout", updaters: [][]uint32{{1, 2, 3, 4}}, waiters: []uint32{9}},
		{name: "paced-stale-heads", updaters: [][]uint32{{1, 2, 3}}, gaps: 600 * time.Millisecond, waiters: []uint32{9}},
		{name: "two-updaters-two-waiters", updaters: [][]uint32{{1, 3}, {2, 4}}, waiters: []uint32{3, 9}},
		{name: "waiter-cancelled", updaters: [][]uint32{{1, 2}}, waiters: []uint32{9}, cancel: true},
		{name: "best-client-on-head0", updaters: [][]uint32{{1}}, best0: true},
		{name: "best-switch", updaters: [][]uint32{{1, 2}}, waiters: []uint32{2}, sw: true},
	}
	scen = append(scen, scenario{name: "channel-filling", updaters: [][]uint32{{1, 2, 3, 4, 5, 6, 7, 8, 9, 10, 11, 12}}, waiters: []uint32{99}})
	// a caller whose seqno is already reached comes and goes while the pool's first waiter is still pending
	scen = append(scen, scenario{name: "satisfied-caller-next-to-pending-waiter", updaters: [][]uint32{{1, 5}}, gaps: 300 * time.Millisecond, waiters: []uint32{5, 1}, delays: []time.Duration{0, 400 * time.Millisecond}})
	// more heads than the update channel holds, the waiter wants the last one: no notification may be lost
	scen = append(scen, scenario{name: "channel-filling-last-head-wanted", updaters: [][]uint32{{1, 2, 3, 4, 5, 6, 7, 8, 9, 10, 11, 12}}, waiters: []uint32{12}})
	// a waiter gives up while another one is still waiting, then a newcomer registers: the one still waiting is woken by its head
	scen = append(scen, scenario{name: "waiter-leaves-newcomer-arrives", updaters: [][]uint32{{5}}, gaps: 800 * time.Millisecond, waiters: []uint32{9, 5, 9},
		delays: []time.Duration{0, 0, 500 * time.Millisecond}, timeouts: []time.Duration{300 * time.Millisecond, 2 * time.Second, time.Second}})
	// the best connection reports the wanted head while another connection reports a higher one
	scen = append(scen, scenario{name: "other-connection-ahead", updaters: [][]uint32{{5}, {9}}, updaterConn: []int{0, 1}, waiters: []uint32{5}})
	scen = append(scen, scenario{name: "other-connection-ahead-first", updaters: [][]uint32{{9, 10}, {4, 5}}, updaterConn: []int{1, 0}, waiters: []uint32{5}})
	if !r.Quick() {
		scen = append(scen, scenario{name: "two-waiters-timeout", updaters: [][]uint32{{1, 2, 3}}, waiters: []uint32{9, 8}})
	}
	// deviation bound (delay-bounded scheduling: every departure from the deterministic base scheduler,
	// every non-first ready select case and every timer-first deviation costs one)
	bounds := map[string]int{"two-updaters-two-waiters": 2, "channel-filling": 2, "channel-filling-last-head-wanted": 2, "two-waiters-timeout": 2, "satisfied-caller-next-to-pending-waiter": 2, "waiter-leaves-newcomer-arrives": 2, "other-connection-ahead": 2, "other-connection-ahead-first": 2}
	for _, modeB := range []bool{false, true} {
		for _, sc := range scen {
			modeB, sc := modeB, sc
			if only := os.Getenv("C13_SCEN"); only != "" && only != sc.name {
				continue
			}
			bound := r.Pick(3, 4)
			if b, ok := bounds[sc.name]; ok {
				bound = b + r.Pick(0, 1)
			}
			name := "waiting/" + sc.name + "/modeA"
			if modeB {
				name = "waiting/" + sc.name + "/modeB"
			}
			// one worker process per scenario and mode: the choice tree is the schedule tree of the real code,
			// which cannot be walked without executing it, so sharding is by scenario
			hs = append(hs, fw.HarnessSpec{Isolated: true, Shards: 1, Harness: enum.Harness{Name: name, Bound: bound, Workers: 1, MaxViolations: 40, Run: func(c *enum.Ctx) {
				c.Label("scenario %s modeB=%v", sc.name, modeB)
				runWaiting(c, sc.name, modeB, func(s *sched.S, p *pool.ConnPool, conns []*pool.VerifRealConn, rec *record) {
					for ui, seq := range sc.updaters {
						ui, seq := ui, seq
						s.GoClient(fmt.Sprintf("updater%d", ui), func() {
							for _, q := range seq {
								if sc.gaps > 0 {
									vtimes.Sleep(sc.gaps)
								}
								ci := 0
								if ui < len(sc.updaterConn) {
									ci = sc.updaterConn[ui]
								}
								conns[ci].SetMasterHead(ton.BlockIDExt{BlockID: ton.BlockID{Seqno: q}})
								rec.heads = append(rec.heads, headEvent{ci, q, s.Now()})
							}
						})
					}
					var cancels []func()
					for wi, want := range sc.waiters {
						wi, want := wi, want
						ctx, cancel := vctx.WithCancel(vctx.Background())
						cancels = append(cancels, cancel)
						s.GoClient(fmt.Sprintf("waiter%d", wi), func() {
							if wi < len(sc.delays) && sc.delays[wi] > 0 {
								vtimes.Sleep(sc.delays[wi])
							}
							start := s.Now()
							to := time.Second
							if wi < len(sc.timeouts) && sc.timeouts[wi] > 0 {
								to = sc.timeouts[wi]
							}
							err := p.WaitMasterchainSeqno(ctx, want, to)
							rec.waits = append(rec.waits, waitResult{wi, want, start, s.Now(), err, conns[0].MasterHead().Seqno, to})
						})
					}
					if sc.cancel {
						s.GoClient("canceller", func() {
							vtimes.Sleep(300 * time.Millisecond)
							rec.cancelAt = s.Now()
							cancels[0]()
						})
					}
					if sc.best0 {
						s.GoClient("best-client", func() {
							ctx, cancel := vctx.WithTimeout(vctx.Background(), 5*time.Second)
							defer cancel()
							_, head, err := p.BestMasterchainClient(ctx)
							rec.best = append(rec.best, bestResult{head.Seqno, err, s.Now()})
						})
					}
					if sc.sw {
						s.GoClient("switcher", func() {
							p.VerifSetBest(conns[1])
							conns[1].SetMasterHead(ton.BlockIDExt{BlockID: ton.BlockID{Seqno: 5}})
						})
					}
				})
			}}})
		}
	}
	return hs
}

type headEvent struct {
	conn  int
	seqno uint32
	at    time.Time
}
type waitResult struct {
	id         int
	want       uint32
	start, end time.Time
	err        error
	headAtEnd  uint32
	timeout    time.Duration
}
type bestResult struct {
	head uint32
	err  error
	at   time.Time
}
type record struct {
	heads    []headEvent
	waits    []waitResult
	best     []bestResult
	cancelAt time.Time
}

// runWaiting runs one execution of a waiting scenario under the scheduler and applies the oracles.
func runWaiting(c *enum.Ctx, name string, modeB bool, body func(s *sched.S, p *pool.ConnPool, conns []*pool.VerifRealConn, rec *record)) {
	start := time.Unix(1_700_000_000, 0)
	vsync.ResetChannels()
	vcrand.Reset(1)
	s := sched.Start(c, start, 120*time.Second, 40000, os.Getenv("VERIF_TRACE") != "")
	defer func() {
		if os.Getenv("VERIF_TRACE") != "" {
			for _, l := range s.Trace {
				c.Label("%s", l)
			}
		}
	}()
	s.ModeB = modeB
	// observation only (outcome data-race-observed:*): C13's statement does not speak about data races, but exploring at
	// synchronisation points only is complete for race-free executions
	s.RaceDetect = os.Getenv("C13_NORACE") == ""
	rec := &record{}
	var p *pool.ConnPool
	var conns []*pool.VerifRealConn
	s.Run(func() {
		p, conns = pool.VerifNewRealPool(pool.BestPingStrategy, 2)
		ctx, cancel := vctx.WithCancel(vctx.Background())
		_ = cancel
		vsync.Go("pool.Run", func() { p.Run(ctx) })
		body(s, p, conns, rec)
	})
	sched.G = nil
	c.Case([]byte(fmt.Sprintf("%s/%d/%d/%d", name, s.States(), s.Steps(), s.Preemptions)), true)
	c.Sample(map[string]any{"scenario": name, "mode_b": modeB, "scheduling_points": s.Steps(), "distinct_scheduler_states": s.States(), "preemptions": s.Preemptions, "time_jumps": s.TimeJumps})
	{
		errs := 0
		for _, w := range rec.waits {
			if w.err != nil {
				errs++
			}
		}
		c.Outcome(fmt.Sprintf("waits=%d errors=%d heads=%d", len(rec.waits), errs, len(rec.heads)))
	}
	if s.Race != nil {
		c.Outcome("data-race-observed:" + s.Race.Key)
		c.Label("observation (not judged by C13): %s", s.Race.Detail)
	}
	if s.StepCap {
		c.Outcome("step-cap")
		return
	}
	if s.Deadlock != "" {
		c.Fail("deadlock:"+name, "%s", s.Deadlock)
		return
	}
	if s.HorizonHit {
		c.Fail("never-returns:"+name, "a pool operation did not return within 120 virtual seconds: %s", s.Blocked())
		return
	}
	for _, w := range rec.waits {
		// (a) success only if the best connection reported a head >= seqno no later than the return
		if w.err == nil && w.headAtEnd < w.want {
			// the best connection may have been switched; check every recorded head
			reached := false
			for _, h := range rec.heads {
				if h.seqno >= w.want && !h.at.After(w.end) {
					reached = true
				}
			}
			if !reached && name != "best-switch" {
				c.Fail("wait-success-without-head:"+name, "WaitMasterchainSeqno(%d) returned success but the best connection's head is %d", w.want, w.headAtEnd)
			}
		}
		// (c) an error no later than start+timeout (mode A: return times are exact)
		if !modeB {
			if w.end.Sub(w.start) > w.timeout {
				c.Fail("wait-late:"+name, "WaitMasterchainSeqno(%d, timeout %v) returned after %v (err=%v)", w.want, w.timeout, w.end.Sub(w.start), w.err)
			}
			// (b) reached before the deadline (and not cancelled) -> success
			if w.err != nil && (rec.cancelAt.IsZero() || w.id != 0) {
				for _, h := range rec.heads {
					if h.conn == 0 && h.seqno >= w.want && h.at.Sub(w.start) < w.timeout && !h.at.Before(w.start) && name != "best-switch" {
						c.Fail("wait-missed-head:"+name, "the best connection reported head %d at +%v, before the deadline, but WaitMasterchainSeqno(%d) returned %v", h.seqno, h.at.Sub(w.start), w.want, w.err)
						break
					}
				}
			}
		}
	}
	for _, b := range rec.best {
		if b.err == nil && b.head == 0 {
			c.Fail("best-client-head0:"+name, "BestMasterchainClient returned head 0 without error")
		}
	}
}
