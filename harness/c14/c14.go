// Package c14: wallet-built messages carry the requested transfers under a valid signature.
package c14

import (
	"context"
	"crypto/ed25519"
	"fmt"
	"math/big"
	"strings"
	"time"

	tb "github.com/tonkeeper/tongo/boc"
	"github.com/tonkeeper/tongo/tlb"
	"github.com/tonkeeper/tongo/ton"
	"github.com/tonkeeper/tongo/wallet"

	"verif/conv"
	"verif/fw"
	"verif/mc/enum"
	"verif/ref/bits"
	rboc "verif/ref/boc"
	"verif/ref/cell"
	"verif/ref/dict"
)

func init() {
	fw.Register(&fw.Property{
		ID: "C14",
		Rule: "versions V3R1,V3R2,V4R1,V4R2,V5Beta,V5R1,HighLoadV2R2 x key seeds x seqno / valid-until in {0,1,2^31,2^32-1} x message count in {0,1,2,max-1,max,max+1} x per-message deviations (mode, bounce, amount, comment length, body with refs, state-init, workchain) " +
			"with at most D deviating choices, built through CreateMessageBody and RawSendV2 against a scripted blockchain; the captured payload is parsed by a reference parser written from the wallet contracts' message layouts and checked with crypto/ed25519; " +
			"tamper grid: every single bit of the signed body cell and of its first referenced cell flipped; distinct = (version, parameters); non-trivial = always",
		Assume: []string{
			"key pairs are represented by 4 fixed seeds; verification is tried against the 3 other keys",
			"wallet.VerifySignature does not support V5Beta: for it only the reference signature check is applied",
			"the order of W5 actions is compared as encoded (outermost action first), which is what the library's own decoder reports",
			"highload query id: only the upper 32 bits (expiry) are compared, the lower 32 bits are random by design",
		},
		Harnesses: harnesses,
	})
}

var versions = []wallet.Version{wallet.V3R1, wallet.V3R2, wallet.V4R1, wallet.V4R2, wallet.V5Beta, wallet.V5R1, wallet.HighLoadV2R2}

func maxMsgs(v wallet.Version) int {
	switch v {
	case wallet.V3R1, wallet.V3R2, wallet.V4R1, wallet.V4R2:
		return 4
	case wallet.V5R1:
		return 255
	default:
		return 254
	}
}

func key(seed int) ed25519.PrivateKey {
	var s [32]byte
	for i := range s {
		s[i] = byte(seed*31 + i*7 + 1)
	}
	return ed25519.NewKeyFromSeed(s[:])
}

type chain struct {
	payloads [][]byte
	state    tlb.ShardAccount
	seqno    uint32
}

func (b *chain) GetSeqno(ctx context.Context, a ton.AccountID) (uint32, error) { return b.seqno, nil }
func (b *chain) SendMessage(ctx context.Context, p []byte) (uint32, error) {
	b.payloads = append(b.payloads, p)
	return 0, nil
}
func (b *chain) GetAccountState(ctx context.Context, a ton.AccountID) (tlb.ShardAccount, error) {
	return b.state, nil
}

// ---- reference parsing ---------------------------------------------------------------------------

type cur struct {
	b    bits.Bits
	p    int
	refs []*cell.Cell
	r    int
	err  error
}

func newCur(c *cell.Cell) *cur { return &cur{b: bits.FromBytes(c.Data, c.BitLen), refs: c.Refs} }
func (c *cur) take(n int) bits.Bits {
	if c.err != nil || c.p+n > len(c.b) {
		if c.err == nil {
			c.err = fmt.Errorf("need %d bits at %d of %d", n, c.p, len(c.b))
		}
		return make(bits.Bits, n)
	}
	out := c.b[c.p : c.p+n]
	c.p += n
	return out
}
func (c *cur) u(n int) uint64 { return c.take(n).Uint().Uint64() }
func (c *cur) ref() *cell.Cell {
	if c.err != nil || c.r >= len(c.refs) {
		if c.err == nil {
			c.err = fmt.Errorf("need ref %d of %d", c.r, len(c.refs))
		}
		return cell.MustNew(nil, 0, nil, false)
	}
	c.r++
	return c.refs[c.r-1]
}

type parsedBody struct {
	sig        []byte
	signedHash [32]byte
	walletID   bits.Bits // sub-wallet id (32) or wallet id (32 / 80)
	validUntil uint32
	seqno      uint32
	hasSeqno   bool
	msgs       []rawMsg
}
type rawMsg struct {
	mode byte
	hash [32]byte
}

func hashWithout(c *cell.Cell, from, to int) [32]byte {
	b := bits.FromBytes(c.Data, c.BitLen)
	nb := append(append(bits.Bits{}, b[:from]...), b[to:]...)
	x := cell.MustNew(nb.Bytes(), len(nb), c.Refs, false)
	return x.ReprHash()
}

func parseBody(ver wallet.Version, body *cell.Cell) (*parsedBody, error) {
	c := newCur(body)
	p := &parsedBody{}
	readList := func(n int) {
		for i := 0; i < n; i++ {
			m := byte(c.u(8))
			r := c.ref()
			p.msgs = append(p.msgs, rawMsg{m, r.ReprHash()})
		}
	}
	switch ver {
	case wallet.V3R1, wallet.V3R2, wallet.V4R1, wallet.V4R2:
		p.sig = c.take(512).Bytes()
		p.signedHash = hashWithout(body, 0, 512)
		p.walletID = c.take(32)
		p.validUntil = uint32(c.u(32))
		p.seqno, p.hasSeqno = uint32(c.u(32)), true
		if ver == wallet.V4R1 || ver == wallet.V4R2 {
			if op := c.u(8); op != 0 {
				return nil, fmt.Errorf("v4 op = %d, want 0 (simple send)", op)
			}
		}
		readList(len(body.Refs))
		if c.p != len(c.b) {
			return nil, fmt.Errorf("%d unexpected trailing bits", len(c.b)-c.p)
		}
	case wallet.HighLoadV2R2:
		p.sig = c.take(512).Bytes()
		p.signedHash = hashWithout(body, 0, 512)
		p.walletID = c.take(32)
		q := c.u(64)
		p.validUntil = uint32(q >> 32)
		if c.u(1) == 1 {
			root := c.ref()
			es, err := dict.Parse(root, 16, nil)
			if err != nil {
				return nil, fmt.Errorf("message dictionary: %v", err)
			}
			for i, e := range es {
				if int(e.Key.Uint().Int64()) != i {
					return nil, fmt.Errorf("dictionary keys are not 0..n-1: key %d at position %d", e.Key.Uint().Int64(), i)
				}
				if len(e.Value.Bits) != 8 || len(e.Value.Refs) != 1 {
					return nil, fmt.Errorf("dictionary value has %d bits %d refs", len(e.Value.Bits), len(e.Value.Refs))
				}
				p.msgs = append(p.msgs, rawMsg{byte(e.Value.Bits.Uint().Uint64()), e.Value.Refs[0].ReprHash()})
			}
		}
		if c.p != len(c.b) {
			return nil, fmt.Errorf("%d unexpected trailing bits", len(c.b)-c.p)
		}
	case wallet.V5R1, wallet.V5Beta:
		if op := c.u(32); op != 0x7369676e {
			return nil, fmt.Errorf("opcode %x, want signed external 7369676e", op)
		}
		if ver == wallet.V5R1 {
			p.walletID = c.take(32)
		} else {
			p.walletID = c.take(80)
		}
		p.validUntil = uint32(c.u(32))
		p.seqno, p.hasSeqno = uint32(c.u(32)), true
		var list *cell.Cell
		if ver == wallet.V5R1 {
			if c.u(1) == 1 {
				list = c.ref()
			}
			if c.u(1) == 1 {
				return nil, fmt.Errorf("unexpected extended actions")
			}
		} else {
			if c.u(1) != 0 {
				return nil, fmt.Errorf("v5beta op bit set")
			}
			list = c.ref()
		}
		p.sig = c.take(512).Bytes()
		if c.p != len(c.b) {
			return nil, fmt.Errorf("%d unexpected trailing bits", len(c.b)-c.p)
		}
		p.signedHash = hashWithout(body, len(c.b)-512, len(c.b))
		for list != nil && list.BitLen > 0 {
			lc := newCur(list)
			if tag := lc.u(32); tag != 0x0ec3c86d {
				return nil, fmt.Errorf("action tag %x", tag)
			}
			mode := byte(lc.u(8))
			prev := lc.ref()
			msg := lc.ref()
			if lc.err != nil || lc.p != len(lc.b) {
				return nil, fmt.Errorf("malformed action cell: %v", lc.err)
			}
			p.msgs = append(p.msgs, rawMsg{mode, msg.ReprHash()})
			list = prev
		}
	}
	return p, c.err
}

// parseExternal reads the external-in envelope: returns destination, optional init cell and the body cell.
func parseExternal(m *cell.Cell) (wc int8, addr [32]byte, init *cell.Cell, body *cell.Cell, err error) {
	c := newCur(m)
	if c.u(2) != 2 {
		return 0, addr, nil, nil, fmt.Errorf("not ext_in_msg_info")
	}
	if c.u(2) != 0 {
		return 0, addr, nil, nil, fmt.Errorf("src is not addr_none")
	}
	if c.u(2) != 2 || c.u(1) != 0 {
		return 0, addr, nil, nil, fmt.Errorf("dest is not addr_std without anycast")
	}
	wc = int8(c.u(8))
	copy(addr[:], c.take(256).Bytes())
	if c.u(4) != 0 {
		return 0, addr, nil, nil, fmt.Errorf("import fee not zero")
	}
	// init:(Maybe (Either StateInit ^StateInit)) body:(Either X ^X): both layouts of either field are valid messages
	if c.u(1) == 1 {
		if c.u(1) == 1 {
			init = c.ref()
		} else {
			// inline StateInit: split_depth:(Maybe (## 5)) special:(Maybe TickTock) code:(Maybe ^Cell) data:(Maybe ^Cell) library:(HashmapE 256 SimpleLib)
			var ib bits.Bits
			var irefs []*cell.Cell
			bit := func() bool { b := c.take(1); ib = append(ib, b...); return len(b) == 1 && b[0] }
			if bit() {
				ib = append(ib, c.take(5)...)
			}
			if bit() {
				ib = append(ib, c.take(2)...)
			}
			for k := 0; k < 3; k++ {
				if bit() {
					irefs = append(irefs, c.ref())
				}
			}
			if c.err == nil {
				init, c.err = cell.New(ib.Bytes(), len(ib), irefs, false)
			}
		}
	}
	if c.u(1) == 1 {
		body = c.ref()
		if c.err == nil && c.p != len(c.b) {
			c.err = fmt.Errorf("trailing bits in the envelope")
		}
	} else if c.err == nil {
		rest := c.b[c.p:]
		body, c.err = cell.New(rest.Bytes(), len(rest), c.refs[c.r:], false)
	}
	return wc, addr, init, body, c.err
}

func toTongo(rc *cell.Cell) (*tb.Cell, error) {
	b, err := rboc.Serialize([]*cell.Cell{rc}, rboc.Options{})
	if err != nil {
		return nil, err
	}
	roots, err := tb.DeserializeBoc(b)
	if err != nil {
		return nil, err
	}
	return roots[0], nil
}

// ---- case construction -----------------------------------------------------------------------------

type spec struct {
	ver        wallet.Version
	keySeed    int
	seqno      uint32
	validUntil uint32
	msgs       []wallet.Sendable
	workchain  int
	subWallet  *uint32
	network    *int32
	desc       string
}

func buildSpec(c *enum.Ctx, seed int) spec {
	var s spec
	s.ver = versions[c.ChooseFree(len(versions))]
	s.keySeed = c.Choose(4) + seed*4
	s.seqno = []uint32{7, 0, 1, 1 << 31, 1<<32 - 1}[c.Choose(5)]
	s.validUntil = []uint32{1_700_000_000, 0, 1, 1 << 31, 1<<32 - 1}[c.Choose(5)]
	s.workchain = []int{0, -1}[c.Choose(2)]
	if c.Choose(2) == 1 {
		v := uint32(0xFFFFFFFF)
		s.subWallet = &v
	}
	if c.Choose(2) == 1 {
		v := int32(wallet.TestnetGlobalID)
		s.network = &v
	}
	mx := maxMsgs(s.ver)
	n := []int{1, 0, 2, mx - 1, mx, mx + 1}[c.Choose(6)]
	var dest ton.AccountID
	dest.Address[0], dest.Address[31] = 0xDE, 0xAD
	for i := 0; i < n; i++ {
		var m wallet.Sendable
		if i == 0 {
			// the first message carries the per-message deviations
			mode := []uint8{3, 0, 1, 128, 255}[c.Choose(5)]
			amount := []tlb.Grams{1_000_000_000, 0, 1, 1<<63 - 1, 1 << 63, 1<<64 - 1}[c.Choose(6)]
			bounce := c.Choose(2) == 1
			d := dest
			d.Workchain = []int32{0, -1}[c.Choose(2)]
			switch c.Choose(4) {
			case 0:
				m = wallet.Message{Amount: amount, Address: d, Bounce: bounce, Mode: mode}
			case 1:
				cl := []int{5, 1, 122, 123, 124, 1000}[c.Choose(6)]
				st := wallet.SimpleTransfer{Amount: amount, Address: d, Comment: strings.Repeat("c", cl), Bounceable: bounce}
				if c.Choose(2) == 1 {
					st.ExtraCurrency = map[int32]tlb.VarUInteger32{7: tlb.VarUInteger32(*big.NewInt(100))}
				}
				m = st
			case 2:
				body := tb.NewCell()
				body.WriteUint(0xF00D, 16)
				leaf := tb.NewCell()
				leaf.WriteUint(1, 1)
				body.AddRef(leaf)
				m = wallet.Message{Amount: amount, Address: d, Body: body, Bounce: bounce, Mode: mode}
			case 3:
				code, data := tb.NewCell(), tb.NewCell()
				code.WriteUint(0xC0DE, 16)
				data.WriteUint(0xDA7A, 16)
				m = wallet.Message{Amount: amount, Address: d, Code: code, Data: data, Bounce: bounce, Mode: mode}
			}
		} else {
			d := dest
			d.Address[1] = byte(i)
			d.Address[2] = byte(i >> 8)
			m = wallet.Message{Amount: tlb.Grams(i), Address: d, Mode: uint8(i)}
		}
		s.msgs = append(s.msgs, m)
	}
	first := ""
	if n > 0 {
		first = fmt.Sprintf("%+v", s.msgs[0])
		if len(first) > 160 {
			first = first[:160]
		}
	}
	s.desc = fmt.Sprintf("ver=%v key=%d seqno=%d until=%d wc=%d sub=%v net=%v msgs=%d first=%s", s.ver.ToString(), s.keySeed, s.seqno, s.validUntil, s.workchain, s.subWallet != nil, s.network != nil, n, first)
	return s
}

func (s spec) options() []wallet.Option {
	opts := []wallet.Option{wallet.WithWorkchain(s.workchain)}
	if s.subWallet != nil {
		opts = append(opts, wallet.WithSubWalletID(*s.subWallet))
	}
	if s.network != nil {
		opts = append(opts, wallet.WithNetworkGlobalID(*s.network))
	}
	return opts
}

func expectedRaw(c *enum.Ctx, msgs []wallet.Sendable) ([]rawMsg, []wallet.RawMessage, bool) {
	var out []rawMsg
	var raw []wallet.RawMessage
	// every request is converted first and judged afterwards: a converted message is a value of its own, it keeps the
	// fields of its request whatever is converted next, and carries nothing of the requests converted before it
	ims := make([]tlb.Message, len(msgs))
	modes := make([]uint8, len(msgs))
	for i, m := range msgs {
		im, mode, err := m.ToInternal()
		if err != nil {
			return nil, nil, false
		}
		ims[i], modes[i] = im, mode
	}
	for i, m := range msgs {
		if why := internalDiffers(ims[i], modes[i], m); why != "" {
			c.Fail("internal-message-fields", "request %d of %d (%T) converted to an internal message with %s", i, len(msgs), m, why)
			return nil, nil, false
		}
	}
	for i := range msgs {
		im, mode := ims[i], modes[i]
		cl := tb.NewCell()
		if err := tlb.Marshal(cl, im); err != nil {
			return nil, nil, false
		}
		rc, err := conv.FromTongo(cl)
		if err != nil {
			return nil, nil, false
		}
		out = append(out, rawMsg{mode, rc.ReprHash()})
		raw = append(raw, wallet.RawMessage{Message: cl, Mode: mode})
	}
	return out, raw, true
}

// internalDiffers compares the header of a converted internal message with its request, field by field.
func internalDiffers(im tlb.Message, mode uint8, req wallet.Sendable) string {
	var dest ton.AccountID
	var amount tlb.Grams
	var bounce bool
	wantMode := uint8(wallet.DefaultMessageMode)
	extra := map[int32]tlb.VarUInteger32{}
	switch r := req.(type) {
	case wallet.Message:
		dest, amount, bounce, wantMode = r.Address, r.Amount, r.Bounce, r.Mode
	case wallet.SimpleTransfer:
		dest, amount, bounce = r.Address, r.Amount, r.Bounceable
		for k, v := range r.ExtraCurrency {
			extra[k] = v
		}
	default:
		return ""
	}
	if im.Info.SumType != "IntMsgInfo" || im.Info.IntMsgInfo == nil {
		return "a header that is not int_msg_info"
	}
	h := im.Info.IntMsgInfo
	if mode != wantMode {
		return fmt.Sprintf("mode %d, requested %d", mode, wantMode)
	}
	if h.Bounce != bounce || h.Bounced || !h.IhrDisabled {
		return fmt.Sprintf("flags ihr_disabled=%v bounce=%v bounced=%v, requested bounce=%v", h.IhrDisabled, h.Bounce, h.Bounced, bounce)
	}
	if h.Src.SumType != "AddrNone" {
		return "a source address"
	}
	if h.Dest.SumType != "AddrStd" || int32(h.Dest.AddrStd.WorkchainId) != dest.Workchain || [32]byte(h.Dest.AddrStd.Address) != dest.Address || h.Dest.AddrStd.Anycast.Exists {
		return fmt.Sprintf("destination %+v, requested %s", h.Dest, dest.ToRaw())
	}
	if h.Value.Grams != amount {
		return fmt.Sprintf("amount %d, requested %d", h.Value.Grams, amount)
	}
	if h.IhrFee != 0 || h.FwdFee != 0 || h.CreatedLt != 0 || h.CreatedAt != 0 {
		return "non-zero fee / creation fields"
	}
	keys := h.Value.Other.Dict.Keys()
	if len(keys) != len(extra) {
		return fmt.Sprintf("%d extra currencies, requested %d", len(keys), len(extra))
	}
	for _, k := range keys {
		v, ok := h.Value.Other.Dict.Get(k)
		w, ok2 := extra[int32(k)]
		if !ok || !ok2 || (*big.Int)(&v).Cmp((*big.Int)(&w)) != 0 {
			return fmt.Sprintf("extra currency %d not as requested", k)
		}
	}
	return ""
}

// checkMessage applies every oracle to one external message cell (reference form).
func checkMessage(c *enum.Ctx, s spec, w *wallet.Wallet, msgCell *cell.Cell, want []rawMsg, expectInit bool) {
	tag := s.ver.ToString()
	wc, addr, init, body, err := parseExternal(msgCell)
	if err != nil {
		c.Fail("envelope:"+tag, "payload is not the expected external-in message: %v", err)
		return
	}
	if int32(wc) != w.GetAddress().Workchain || addr != w.GetAddress().Address {
		c.Fail("envelope-dest:"+tag, "message addressed to %d:%x, wallet is %s", wc, addr, w.GetAddress().ToRaw())
	}
	if (init != nil) != expectInit {
		c.Fail("envelope-init:"+tag, "init present=%v want %v", init != nil, expectInit)
	} else if init != nil && init.ReprHash() != w.GetAddress().Address {
		c.Fail("envelope-init-hash:"+tag, "the attached state-init hashes to %x, the wallet address is %x", init.ReprHash(), w.GetAddress().Address)
	}
	p, err := parseBody(s.ver, body)
	if err != nil {
		c.Fail("body-layout:"+tag, "signed body does not follow the %s layout: %v", tag, err)
		return
	}
	pub := key(s.keySeed).Public().(ed25519.PublicKey)
	if !ed25519.Verify(pub, p.signedHash[:], p.sig) {
		c.Fail("signature-invalid:"+tag, "reference check: the signature does not verify against the wallet key")
	}
	for o := 1; o <= 3; o++ {
		if ed25519.Verify(key(s.keySeed+o).Public().(ed25519.PublicKey), p.signedHash[:], p.sig) {
			c.Fail("signature-other-key:"+tag, "signature verifies against another key")
		}
	}
	if p.validUntil != s.validUntil {
		c.Fail("valid-until:"+tag, "encoded expiry %d, requested %d", p.validUntil, s.validUntil)
	}
	if p.hasSeqno && p.seqno != s.seqno {
		c.Fail("seqno:"+tag, "encoded seqno %d, requested %d", p.seqno, s.seqno)
	}
	if len(p.msgs) != len(want) {
		c.Fail("message-count:"+tag, "encoded %d messages, requested %d", len(p.msgs), len(want))
	} else {
		for i := range want {
			if p.msgs[i] != want[i] {
				c.Fail("message-content:"+tag, "message %d: mode %d hash %x, requested mode %d hash %x", i, p.msgs[i].mode, p.msgs[i].hash[:6], want[i].mode, want[i].hash[:6])
				break
			}
		}
	}
	// the library's own verification and decoders on the same payload
	t, err := toTongo(msgCell)
	if err != nil {
		c.Fail("setup", "%v", err)
		return
	}
	if s.ver != wallet.V5Beta {
		t.ResetCounters()
		if err := wallet.VerifySignature(s.ver, t, pub); err != nil {
			c.Fail("VerifySignature-rejects:"+tag, "VerifySignature fails for the wallet key: %v", err)
		}
		for o := 1; o <= 3; o++ {
			t.ResetCounters()
			if err := wallet.VerifySignature(s.ver, t, key(s.keySeed+o).Public().(ed25519.PublicKey)); err == nil {
				c.Fail("VerifySignature-other-key:"+tag, "VerifySignature accepts another key")
			}
		}
	}
	t.ResetCounters()
	raws, err := wallet.ExtractRawMessages(s.ver, t)
	if err != nil {
		c.Fail(fmt.Sprintf("ExtractRawMessages-error:%s:n=%d", tag, min(len(want), 3)), "ExtractRawMessages: %v", err)
	} else if len(raws) != len(want) {
		c.Fail("ExtractRawMessages-count:"+tag, "ExtractRawMessages returned %d messages, requested %d", len(raws), len(want))
	} else {
		for i := range raws {
			rc, err := conv.FromTongo(raws[i].Message)
			if err != nil || rc.ReprHash() != want[i].hash || raws[i].Mode != want[i].mode {
				c.Fail("ExtractRawMessages-content:"+tag, "ExtractRawMessages message %d differs from the requested one (mode %d want %d)", i, raws[i].Mode, want[i].mode)
				break
			}
		}
	}
	// the very same message cell decoded once more (a consumer that verifies, extracts and later decodes the same
	// parsed cell): the answer must not depend on what was read from the cell tree before
	if raws2, err2 := wallet.ExtractRawMessages(s.ver, t); err == nil {
		if err2 != nil {
			c.Fail("ExtractRawMessages-second-call:"+tag, "a second ExtractRawMessages on the same cell fails: %v", err2)
		} else if len(raws2) != len(raws) {
			c.Fail("ExtractRawMessages-second-call:"+tag, "a second ExtractRawMessages on the same cell returns %d messages, the first returned %d", len(raws2), len(raws))
		} else {
			for i := range raws2 {
				rc, err := conv.FromTongo(raws2[i].Message)
				if err != nil || rc.ReprHash() != want[i].hash || raws2[i].Mode != want[i].mode {
					c.Fail("ExtractRawMessages-second-call:"+tag, "a second ExtractRawMessages on the same cell returns a different message %d", i)
					break
				}
			}
		}
	}
	t.ResetCounters()
	var gotID bits.Bits
	var gotUntil, gotSeqno uint32
	var derr error
	switch s.ver {
	case wallet.V3R1, wallet.V3R2:
		m, e := wallet.DecodeMessageV3(t)
		derr = e
		if e == nil {
			gotID, gotUntil, gotSeqno = u32bits(m.SubWalletId), m.ValidUntil, m.Seqno
		}
	case wallet.V4R1, wallet.V4R2:
		m, e := wallet.DecodeMessageV4(t)
		derr = e
		if e == nil {
			gotID, gotUntil, gotSeqno = u32bits(m.SubWalletId), m.ValidUntil, m.Seqno
		}
	case wallet.V5R1:
		m, e := wallet.DecodeMessageV5(t)
		derr = e
		if e == nil && (m.SumType != "SignedExternal" || m.SignedExternal == nil) {
			derr = fmt.Errorf("decoded as %s", m.SumType)
		} else if e == nil {
			gotID, gotUntil, gotSeqno = u32bits(m.SignedExternal.WalletId), m.SignedExternal.ValidUntil, m.SignedExternal.Seqno
		}
	case wallet.V5Beta:
		m, e := wallet.DecodeMessageV5Beta(t)
		derr = e
		if e == nil && m.SumType != "SignedExternal" {
			derr = fmt.Errorf("decoded as %s", m.SumType)
		} else if e == nil {
			gotID, gotUntil, gotSeqno = bits.FromBytes(m.SignedExternal.WalletId[:], 80), m.SignedExternal.ValidUntil, m.SignedExternal.Seqno
		}
	case wallet.HighLoadV2R2:
		m, e := wallet.DecodeHighloadV2Message(t)
		derr = e
		if e == nil {
			gotID, gotUntil, gotSeqno = u32bits(m.SubWalletId), uint32(m.BoundedQueryID>>32), s.seqno
		}
	}
	if derr != nil {
		c.Fail(fmt.Sprintf("Decode-error:%s:n=%d", tag, min(len(want), 3)), "the library's decoder rejects the wallet's own message: %v", derr)
		return
	}
	if !gotID.Equal(p.walletID) || gotUntil != s.validUntil || gotSeqno != s.seqno {
		c.Fail("Decode-fields:"+tag, "decoder returns id %s until %d seqno %d; encoded id %s, requested until %d seqno %d", gotID, gotUntil, gotSeqno, p.walletID, s.validUntil, s.seqno)
	}
	// the wallet id follows the options
	wantID := expectedWalletID(s)
	if wantID != nil && !wantID.Equal(p.walletID) {
		c.Fail("wallet-id:"+tag, "encoded wallet id %s, expected %s from the options", p.walletID, wantID)
	}
}

func u32bits(v uint32) bits.Bits {
	return bits.FromBytes([]byte{byte(v >> 24), byte(v >> 16), byte(v >> 8), byte(v)}, 32)
}

func expectedWalletID(s spec) bits.Bits {
	switch s.ver {
	case wallet.V3R1, wallet.V3R2, wallet.V4R1, wallet.V4R2, wallet.HighLoadV2R2:
		id := uint32(wallet.DefaultSubWallet + s.workchain)
		if s.subWallet != nil {
			id = *s.subWallet
		}
		return u32bits(id)
	case wallet.V5R1:
		net := int32(wallet.MainnetGlobalID)
		if s.network != nil {
			net = *s.network
		}
		ctx := uint32(1)<<31 | uint32(uint8(s.workchain))<<23
		return u32bits(ctx ^ uint32(net))
	case wallet.V5Beta:
		net := int32(wallet.MainnetGlobalID)
		if s.network != nil {
			net = *s.network
		}
		sub := uint32(0)
		if s.subWallet != nil {
			sub = *s.subWallet
		}
		b := u32bits(uint32(net))
		b = append(b, bits.FromBytes([]byte{uint8(s.workchain), 0}, 16)...)
		return append(b, u32bits(sub)...)
	}
	return nil
}

func harnesses(r *fw.Run) []fw.HarnessSpec {
	seed := int(r.Seed)
	var hs []fw.HarnessSpec
	add := func(name string, bound int, f func(c *enum.Ctx)) {
		hs = append(hs, fw.HarnessSpec{Harness: enum.Harness{Name: name, Bound: bound, Run: f}})
	}

	// wallet v5 requests come in two signed layouts: the external one (checked below through the reference parser) and
	// the one carried inside an internal message. Both are built by CreateMessageBody; the library's decoders must give
	// back exactly the requested messages from either.
	add("v5-signed-internal-and-external", 0, func(c *enum.Ctx) {
		ver := []wallet.Version{wallet.V5Beta, wallet.V5R1}[c.ChooseFree(2)]
		mt := []wallet.V5MsgType{wallet.V5MsgTypeSignedInternal, wallet.V5MsgTypeSignedExternal}[c.ChooseFree(2)]
		n := []int{1, 2, 3, 10}[c.ChooseFree(4)]
		c.Case([]byte(fmt.Sprintf("v5layouts/%d/%v/%d", ver, mt, n)), true)
		c.Label("%s, message type %v, %d messages", ver.ToString(), mt, n)
		c.Try("panic:v5-layouts", func() {
			w, err := wallet.New(key(1), ver, &chain{})
			if err != nil {
				c.Fail("wallet.New", "%v", err)
				return
			}
			var msgs []wallet.Sendable
			for i := 0; i < n; i++ {
				var d ton.AccountID
				d.Address[0], d.Address[5] = 0xD0, byte(i)
				if i%2 == 0 {
					msgs = append(msgs, wallet.SimpleTransfer{Amount: tlb.Grams(1000 + i), Address: d, Comment: fmt.Sprintf("m%d", i)})
				} else {
					msgs = append(msgs, wallet.Message{Amount: tlb.Grams(i), Address: d, Mode: uint8(i), Bounce: true})
				}
			}
			want, _, ok := expectedRaw(c, msgs)
			if !ok {
				c.Fail("setup", "cannot convert the requests")
				return
			}
			body, err := w.CreateMessageBody(wallet.MessageConfig{Seqno: 3, ValidUntil: time.Unix(1_700_000_000, 0), V5MsgType: mt}, msgs...)
			if err != nil {
				c.Fail("CreateMessageBody-error:"+ver.ToString(), "%v", err)
				return
			}
			// the carrier: an internal message to the wallet (signed-internal) or an external one (signed-external)
			carrier := tb.NewCell()
			if mt == wallet.V5MsgTypeSignedInternal {
				im, _, err := wallet.Message{Amount: 1, Address: w.GetAddress(), Body: body}.ToInternal()
				if err == nil {
					err = tlb.Marshal(carrier, im)
				}
				if err != nil {
					c.Fail("setup", "%v", err)
					return
				}
			} else {
				em, err := ton.CreateExternalMessage(w.GetAddress(), body, nil, tlb.VarUInteger16{})
				if err == nil {
					err = tlb.Marshal(carrier, em)
				}
				if err != nil {
					c.Fail("setup", "%v", err)
					return
				}
			}
			raws, err := wallet.ExtractRawMessages(ver, carrier)
			if err != nil {
				c.Fail("ExtractRawMessages-error:v5-layouts:"+ver.ToString(), "%v", err)
				return
			}
			if len(raws) != len(want) {
				c.Fail("ExtractRawMessages-count:v5-layouts:"+ver.ToString(), "message type %v: %d messages extracted, %d requested", mt, len(raws), len(want))
				return
			}
			for i := range raws {
				rc, err := conv.FromTongo(raws[i].Message)
				if err != nil || rc.ReprHash() != want[i].hash || raws[i].Mode != want[i].mode {
					c.Fail("ExtractRawMessages-content:v5-layouts:"+ver.ToString(), "message type %v: extracted message %d differs from the requested one", mt, i)
					return
				}
			}
			if ver == wallet.V5R1 {
				body.ResetCounters()
				if err := wallet.MessageV5VerifySignature(*body, key(1).Public().(ed25519.PublicKey)); err != nil {
					c.Fail("VerifySignature-rejects:v5-layouts", "message type %v: %v", mt, err)
				}
			}
		})
	})

	add("build-and-parse", r.Pick(2, 3), func(c *enum.Ctx) {
		s := buildSpec(c, seed)
		path := c.ChooseFree(2)          // 0: CreateMessageBody + envelope, 1: RawSendV2 through the blockchain interface
		withInit := c.ChooseFree(2) == 1 // the optional state-init of the statement: attached or not
		c.Case([]byte(fmt.Sprintf("%s/%d/%v", s.desc, path, withInit)), true)
		c.Sample(map[string]any{"case": s.desc, "path": []string{"CreateMessageBody", "RawSendV2"}[path], "state_init": withInit})
		c.Label("%s path=%d state-init attached=%v", s.desc, path, withInit)
		c.Try("panic:build:"+s.ver.ToString(), func() {
			bc := &chain{}
			w, err := wallet.New(key(s.keySeed), s.ver, bc, s.options()...)
			if err != nil {
				c.Fail("wallet.New", "%v", err)
				return
			}
			want, raw, ok := expectedRaw(c, s.msgs)
			if !ok {
				c.Skip()
				return
			}
			over := len(s.msgs) > maxMsgs(s.ver)
			until := time.Unix(int64(s.validUntil), 0)
			var init *tlb.StateInit
			if withInit {
				if init, err = w.StateInit(); err != nil || init == nil {
					c.Fail("StateInit-error:"+s.ver.ToString(), "Wallet.StateInit: %v", err)
					return
				}
			}
			var msgCell *cell.Cell
			if path == 0 {
				body, err := w.CreateMessageBody(wallet.MessageConfig{Seqno: s.seqno, ValidUntil: until, V5MsgType: wallet.V5MsgTypeSignedExternal}, s.msgs...)
				if err != nil {
					c.Outcome("create-error")
					if !over {
						c.Fail("CreateMessageBody-error:"+s.ver.ToString(), "%d messages (limit %d): %v", len(s.msgs), maxMsgs(s.ver), err)
					}
					return
				}
				if over {
					c.Outcome("over-limit-body-built") // only sends must be refused (statement); recorded
					return
				}
				em, err := ton.CreateExternalMessage(w.GetAddress(), body, init, tlb.VarUInteger16{})
				if err != nil {
					c.Fail("CreateExternalMessage", "%v", err)
					return
				}
				mc := tb.NewCell()
				if err := tlb.Marshal(mc, em); err != nil {
					c.Fail("CreateExternalMessage", "%v", err)
					return
				}
				msgCell, err = conv.FromTongo(mc)
				if err != nil {
					c.Fail("setup", "%v", err)
					return
				}
			} else {
				var err error
				if len(s.msgs)%2 == 1 {
					err = w.RawSend(context.Background(), s.seqno, until, raw, init) // the older entry point, same contract
				} else {
					_, err = w.RawSendV2(context.Background(), s.seqno, until, raw, init, 0)
				}
				if over {
					if err == nil || len(bc.payloads) != 0 {
						c.Fail("over-limit-send-accepted:"+s.ver.ToString(), "RawSendV2 with %d messages (limit %d) was not refused (err=%v, payloads sent=%d)", len(s.msgs), maxMsgs(s.ver), err, len(bc.payloads))
					}
					c.Outcome("over-limit-refused")
					return
				}
				if err != nil || len(bc.payloads) != 1 {
					c.Fail("RawSendV2-error:"+s.ver.ToString(), "RawSendV2 with %d messages: %v (%d payloads)", len(s.msgs), err, len(bc.payloads))
					return
				}
				roots, err := rboc.Parse(bc.payloads[0])
				if err != nil || len(roots) != 1 {
					c.Fail("payload-not-boc", "payload is not a single-root BOC: %v", err)
					return
				}
				msgCell = roots[0]
			}
			checkMessage(c, s, &w, msgCell, want, withInit)
			c.Outcome("checked")
		})
	})

	// tamper grid: every bit of the signed body and of its first referenced cell
	add("tamper-grid", 0, func(c *enum.Ctx) {
		ver := versions[c.ChooseFree(len(versions))]
		where := c.ChooseFree(2)
		s := spec{ver: ver, keySeed: seed * 4, seqno: 5, validUntil: 1_700_000_000}
		var dest ton.AccountID
		dest.Address[3] = 9
		s.msgs = []wallet.Sendable{wallet.SimpleTransfer{Amount: 12345, Address: dest, Comment: "hi"}, wallet.Message{Amount: 1, Address: dest, Mode: 1}}
		bc := &chain{}
		w, err := wallet.New(key(s.keySeed), ver, bc)
		if err != nil {
			c.Fail("wallet.New", "%v", err)
			return
		}
		_, raw, _ := expectedRaw(c, s.msgs)
		if _, err := w.RawSendV2(context.Background(), s.seqno, time.Unix(int64(s.validUntil), 0), raw, nil, 0); err != nil || len(bc.payloads) != 1 {
			c.Fail("RawSendV2-error:"+ver.ToString(), "%v", err)
			return
		}
		roots, err := rboc.Parse(bc.payloads[0])
		if err != nil {
			c.Fail("payload-not-boc", "%v", err)
			return
		}
		msg := roots[0]
		// the grid addresses the signed body as a cell of its own: (Either X ^X) with the right branch, the layout tongo
		// produces today. An inline body is a legitimate layout too; the grid then has no cell to address and says so.
		_, _, _, pbody, perr := parseExternal(msg)
		if perr != nil {
			c.Fail("envelope:"+ver.ToString(), "payload is not an external-in message: %v", perr)
			return
		}
		inRef := len(msg.Refs) > 0 && pbody == msg.Refs[len(msg.Refs)-1]
		if !inRef {
			c.Case([]byte(fmt.Sprintf("tamper/%v/inline", ver)), true)
			c.Outcome("body-inline:grid-not-applicable")
			return
		}
		body := msg.Refs[len(msg.Refs)-1]
		target := body
		if where == 1 {
			if len(body.Refs) == 0 {
				c.Skip()
				return
			}
			target = body.Refs[0]
		}
		if target.BitLen == 0 {
			c.Skip()
			return
		}
		bit := c.ChooseFree(target.BitLen)
		c.Case([]byte(fmt.Sprintf("tamper/%v/%d/%d", ver, where, bit)), true)
		c.Sample(map[string]any{"version": ver.ToString(), "cell": []string{"signed body", "first referenced cell"}[where], "bit": bit})
		c.Label("%s flip bit %d of %s", ver.ToString(), bit, []string{"body", "body.ref0"}[where])
		c.Try("panic:tamper", func() {
			d := append([]byte{}, target.Data...)
			d[bit/8] ^= 0x80 >> uint(bit%8)
			flipped := cell.MustNew(d, target.BitLen, target.Refs, false)
			nb := flipped
			if where == 1 {
				nb = cell.MustNew(body.Data, body.BitLen, append([]*cell.Cell{flipped}, body.Refs[1:]...), false)
			}
			nm := cell.MustNew(msg.Data, msg.BitLen, append(append([]*cell.Cell{}, msg.Refs[:len(msg.Refs)-1]...), nb), false)
			pub := key(s.keySeed).Public().(ed25519.PublicKey)
			// reference verdict
			if p, err := parseBody(ver, nb); err == nil && ed25519.Verify(pub, p.signedHash[:], p.sig) {
				c.Fail("tamper-reference-accepts", "reference check still verifies after the flip (harness error)")
			}
			if ver == wallet.V5Beta {
				return
			}
			t, err := toTongo(nm)
			if err != nil {
				c.Fail("setup", "%v", err)
				return
			}
			if err := wallet.VerifySignature(ver, t, pub); err == nil {
				c.Fail("tamper-accepted:"+ver.ToString(), "VerifySignature still succeeds after flipping bit %d of the %s", bit, []string{"signed body", "first referenced cell"}[where])
			}
			// sanity: the untampered message verifies
			t0, _ := toTongo(msg)
			if err := wallet.VerifySignature(ver, t0, pub); err != nil {
				c.Fail("VerifySignature-rejects:"+ver.ToString(), "untampered message rejected: %v", err)
			}
		})
	})
	return hs
}
