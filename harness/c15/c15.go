// Package c15: wallet address and send parameters follow from key, version and chain state.
package c15

import (
	"context"
	"crypto/ed25519"
	"errors"
	"fmt"
	"math/big"
	"time"
	rbits "verif/ref/bits"

	tb "github.com/tonkeeper/tongo/boc"
	"github.com/tonkeeper/tongo/tlb"
	"github.com/tonkeeper/tongo/ton"
	"github.com/tonkeeper/tongo/wallet"

	"verif/conv"
	"verif/fw"
	"verif/mc/enum"
	rboc "verif/ref/boc"
	"verif/ref/cell"
	te "verif/ref/tlbenc"
	"verif/shim/vtime"
)

func init() {
	fw.Register(&fw.Property{
		ID: "C15",
		Rule: "addresses: all 12 constructible versions x 4 key seeds x workchain {0,-1,1} x sub-wallet {default,0,1,2^32-1} x network {default,testnet,0}, compared with the reference hash of the reference-encoded state-init and checked for injectivity over the whole grid per version; " +
			"send parameters: 7 sending versions x account state {non-existent, uninitialised, frozen, active with seqno 0/1/77/2^32-1}; confirmation: waiting {0, 1s} x every response history of the blockchain stub over the polls with at most 2 deviations " +
			"(seqno advanced, error, advanced then back) x SendMessage failing or not, on a virtual clock; distinct = (harness, parameters); non-trivial = always",
		Assume: []string{
			"wallet/wallet.go is compiled with its \"time\" import redirected to a virtual clock (build overlay, no source change in /repo); single thread",
			"data layouts of the published wallet contracts: v1/v2 seqno,key; v3 seqno,subwallet,key; v4 +plugins; v5beta seqno33,network,wc,version,subwallet,key,extensions; v5r1 flag,seqno,wallet_id=ctx^network,key,extensions; highload-v2 subwallet,last_cleaned,key,queries",
			"behaviour for a frozen account is recorded, not judged (the statement is silent)",
		},
		Harnesses: harnesses,
	})
}

var allVersions = []wallet.Version{wallet.V1R1, wallet.V1R2, wallet.V1R3, wallet.V2R1, wallet.V2R2, wallet.V3R1, wallet.V3R2, wallet.V4R1, wallet.V4R2, wallet.V5Beta, wallet.V5R1, wallet.HighLoadV2R2}
var sendVersions = []wallet.Version{wallet.V3R1, wallet.V3R2, wallet.V4R1, wallet.V4R2, wallet.V5Beta, wallet.V5R1, wallet.HighLoadV2R2}

func key(seed int) ed25519.PrivateKey {
	var s [32]byte
	for i := range s {
		s[i] = byte(seed*17 + i*3 + 5)
	}
	return ed25519.NewKeyFromSeed(s[:])
}

type params struct {
	ver     wallet.Version
	seed    int
	wc      int
	sub     *uint32
	network *int32
}

func (p params) opts() []wallet.Option {
	o := []wallet.Option{wallet.WithWorkchain(p.wc)}
	if p.sub != nil {
		o = append(o, wallet.WithSubWalletID(*p.sub))
	}
	if p.network != nil {
		o = append(o, wallet.WithNetworkGlobalID(*p.network))
	}
	return o
}

// dataCell is the reference encoding of the initial data for the version (seqno as given).
func dataCell(p params, seqno uint32) *cell.Cell {
	pub := key(p.seed).Public().(ed25519.PublicKey)
	b := &te.B{}
	sub := uint32(wallet.DefaultSubWallet + p.wc)
	if p.sub != nil {
		sub = *p.sub
	}
	net := int32(wallet.MainnetGlobalID)
	if p.network != nil {
		net = *p.network
	}
	pk := func() { b.BigUint(bigFromBytes(pub), 256) }
	switch p.ver {
	case wallet.V1R1, wallet.V1R2, wallet.V1R3, wallet.V2R1, wallet.V2R2:
		b.Uint(uint64(seqno), 32)
		pk()
	case wallet.V3R1, wallet.V3R2:
		b.Uint(uint64(seqno), 32).Uint(uint64(sub), 32)
		pk()
	case wallet.V4R1, wallet.V4R2:
		b.Uint(uint64(seqno), 32).Uint(uint64(sub), 32)
		pk()
		b.Bit(false)
	case wallet.V5Beta:
		s5 := uint32(0)
		if p.sub != nil {
			s5 = *p.sub
		}
		b.Uint(uint64(seqno), 33).Uint(uint64(uint32(net)), 32).Uint(uint64(uint8(p.wc)), 8).Uint(0, 8).Uint(uint64(s5), 32)
		pk()
		b.Bit(false)
	case wallet.V5R1:
		ctx := uint32(1)<<31 | uint32(uint8(p.wc))<<23
		b.Bit(true).Uint(uint64(seqno), 32).Uint(uint64(ctx^uint32(net)), 32)
		pk()
		b.Bit(false)
	case wallet.HighLoadV2R2:
		b.Uint(uint64(sub), 32).Uint(0, 64)
		pk()
		b.Bit(false)
	}
	c, err := b.Cell()
	if err != nil {
		panic(err)
	}
	return c
}

// effective returns the parameters that the address must depend on.
func effective(p params) string {
	s := fmt.Sprintf("v%d/k%d/wc%d", p.ver, p.seed, p.wc)
	sub := "default"
	if p.sub != nil {
		sub = fmt.Sprint(*p.sub)
	}
	net := fmt.Sprint(wallet.MainnetGlobalID)
	if p.network != nil {
		net = fmt.Sprint(*p.network)
	}
	switch p.ver {
	case wallet.V3R1, wallet.V3R2, wallet.V4R1, wallet.V4R2, wallet.HighLoadV2R2:
		if p.sub == nil {
			sub = fmt.Sprint(uint32(wallet.DefaultSubWallet + p.wc))
		}
		s += "/sub" + sub
	case wallet.V5Beta:
		if p.sub == nil {
			sub = "0"
		}
		s += "/sub" + sub + "/net" + net
	case wallet.V5R1:
		s += "/net" + net
	}
	return s
}

func refAddress(p params) ([32]byte, *cell.Cell, error) {
	code, err := conv.FromTongo(wallet.GetCodeByVer(p.ver))
	if err != nil {
		return [32]byte{}, nil, err
	}
	si, err := (&te.B{}).StateInit(te.StateInit{Code: code, Data: dataCell(p, 0)}).Cell()
	if err != nil {
		return [32]byte{}, nil, err
	}
	return si.ReprHash(), si, nil
}

type chain struct {
	state     tlb.ShardAccount
	stateErr  error
	payloads  [][]byte
	sendErr   error
	polls     []poll
	slot      time.Duration
	pollSlots []int
	pollCount int
	pollTimes []time.Duration
	start     time.Time
}
type poll struct {
	seqno uint32
	err   error
}

func (b *chain) GetSeqno(ctx context.Context, a ton.AccountID) (uint32, error) {
	i := b.pollCount
	b.pollCount++
	b.pollTimes = append(b.pollTimes, vtime.Since(b.start))
	// the script is a function of (virtual) time: slot k covers [k*slot, (k+1)*slot); a caller that polls once per
	// slot sees polls[0], polls[1], ... and a caller that polls faster sees the same answer again
	if b.slot > 0 {
		i = int(vtime.Since(b.start) / b.slot)
	}
	b.pollSlots = append(b.pollSlots, i)
	if i < len(b.polls) {
		return b.polls[i].seqno, b.polls[i].err
	}
	return 0, errors.New("unexpected extra poll")
}
func (b *chain) SendMessage(ctx context.Context, p []byte) (uint32, error) {
	b.payloads = append(b.payloads, p)
	return 0, b.sendErr
}
func (b *chain) GetAccountState(ctx context.Context, a ton.AccountID) (tlb.ShardAccount, error) {
	return b.state, b.stateErr
}

func accountState(c *enum.Ctx, p params, kind int, seqno uint32, addr ton.AccountID) tlb.ShardAccount {
	var sa tlb.ShardAccount
	switch kind {
	case 0:
		sa.Account.SumType = "AccountNone"
	default:
		sa.Account.SumType = "Account"
		sa.Account.Account.Addr = addr.ToMsgAddress()
		sa.Account.Account.Storage.Balance.Grams = 5_000_000_000
		switch kind {
		case 1:
			sa.Account.Account.Storage.State.SumType = "AccountUninit"
		case 2:
			sa.Account.Account.Storage.State.SumType = "AccountFrozen"
		case 3:
			sa.Account.Account.Storage.State.SumType = "AccountActive"
			st := &sa.Account.Account.Storage.State.AccountActive.StateInit
			st.Code.Exists = true
			st.Code.Value.Value = *wallet.GetCodeByVer(p.ver)
			dc, err := conv.ToTongo(dataCell(p, seqno), true)
			if err != nil {
				c.Fail("setup", "%v", err)
			} else {
				st.Data.Exists = true
				st.Data.Value.Value = *dc
			}
		}
	}
	return sa
}

func harnesses(r *fw.Run) []fw.HarnessSpec {
	var hs []fw.HarnessSpec
	add := func(name string, bound int, f func(c *enum.Ctx)) {
		hs = append(hs, fw.HarnessSpec{Harness: enum.Harness{Name: name, Bound: bound, Run: f, Workers: 1}})
	}
	// nil = the version's recommended default; 698983191 is the documented default constant given explicitly (it is the
	// effective default only in workchain 0), 698983190 what the default becomes in workchain -1
	subs := []*uint32{nil, u32(0), u32(1), u32(1<<32 - 1), u32(698983191), u32(698983190)}
	nets := []*int32{nil, i32(wallet.TestnetGlobalID), i32(0)}
	wcs := []int{0, -1, 1}
	nSeeds := r.Pick(4, 24)

	add("address-derivation", 0, func(c *enum.Ctx) {
		p := params{ver: allVersions[c.ChooseFree(len(allVersions))], seed: c.ChooseFree(nSeeds), wc: wcs[c.ChooseFree(3)], sub: subs[c.ChooseFree(len(subs))], network: nets[c.ChooseFree(3)]}
		c.Case([]byte(fmt.Sprintf("%+v/%v/%v", p, deref(p.sub), derefI(p.network))), true)
		c.Sample(map[string]any{"version": p.ver.ToString(), "key_seed": p.seed, "workchain": p.wc, "sub_wallet": deref(p.sub), "network": derefI(p.network)})
		c.Label("%s key=%d wc=%d sub=%v net=%v", p.ver.ToString(), p.seed, p.wc, deref(p.sub), derefI(p.network))
		c.Try("panic:address", func() {
			want, wantInit, err := refAddress(p)
			if err != nil {
				c.Fail("setup", "%v", err)
				return
			}
			pub := key(p.seed).Public().(ed25519.PublicKey)
			k := append(ed25519.PrivateKey{}, key(p.seed)...) // the caller's own buffer
			w, err := wallet.New(k, p.ver, nil, p.opts()...)
			if err != nil {
				c.Fail("wallet.New:"+p.ver.ToString(), "%v", err)
				return
			}
			got := w.GetAddress()
			// the wallet's identity is fixed when it is made: the caller wiping or reusing its key buffer afterwards
			// changes neither the address nor the initial state derived below
			for i := range k {
				k[i] ^= 0xA5
			}
			if again := w.GetAddress(); again != got {
				c.Fail("address-follows-key-buffer:"+p.ver.ToString(), "GetAddress() changed from %s to %s when the caller's key buffer was overwritten", got.ToRaw(), again.ToRaw())
			}
			if got.Workchain != int32(p.wc) || got.Address != want {
				c.Fail("address:"+p.ver.ToString(), "New().GetAddress() = %s, reference state-init hash %d:%x", got.ToRaw(), p.wc, want)
			}
			g2, err := wallet.GenerateWalletAddress(pub, p.ver, p.network, p.wc, p.sub)
			if err != nil || g2 != got {
				c.Fail("address-apis-differ:GenerateWalletAddress", "GenerateWalletAddress=%v,%v vs GetAddress=%v", g2, err, got)
			}
			for name, f := range map[string]func() (tlb.StateInit, error){
				"GenerateStateInit": func() (tlb.StateInit, error) { return wallet.GenerateStateInit(pub, p.ver, p.network, p.wc, p.sub) },
				"Wallet.StateInit": func() (tlb.StateInit, error) {
					s, err := w.StateInit()
					if err != nil {
						return tlb.StateInit{}, err
					}
					return *s, nil
				},
			} {
				si, err := f()
				if err != nil {
					c.Fail("state-init-error:"+name, "%v", err)
					continue
				}
				sc := tb.NewCell()
				if err := tlb.Marshal(sc, si); err != nil {
					c.Fail("state-init-error:"+name, "%v", err)
					continue
				}
				rc, err := conv.FromTongo(sc)
				if err != nil || rc.ReprHash() != want || !cell.StructEqual(rc, wantInit) {
					c.Fail("state-init:"+name+":"+p.ver.ToString(), "%s hashes to %x, reference state-init %x", name, rc.ReprHash(), want)
				}
			}
		})
	})

	add("address-injective", 0, func(c *enum.Ctx) {
		ver := allVersions[c.ChooseFree(len(allVersions))]
		c.Case([]byte(fmt.Sprintf("inj/%d", ver)), true)
		seen := map[ton.AccountID]string{}
		byEff := map[string]ton.AccountID{}
		n := 0
		c.Try("panic:injective", func() {
			for seed := 0; seed < 4; seed++ {
				for _, wc := range wcs {
					for _, sub := range subs {
						for _, net := range nets {
							p := params{ver, seed, wc, sub, net}
							w, err := wallet.New(key(seed), ver, nil, p.opts()...)
							if err != nil {
								c.Fail("wallet.New", "%v", err)
								return
							}
							n++
							a, e := w.GetAddress(), effective(p)
							// the stand-alone derivation agrees for every tuple, in whatever order the tuples are asked for
							if g, err := wallet.GenerateWalletAddress(key(seed).Public().(ed25519.PublicKey), ver, net, wc, sub); err != nil || g != a {
								c.Fail("address-apis-differ:sequence:"+ver.ToString(), "GenerateWalletAddress(%s) = %v,%v but New().GetAddress() = %s", e, g.ToRaw(), err, a.ToRaw())
								return
							}
							if old, ok := seen[a]; ok && old != e {
								c.Fail("address-collision:"+ver.ToString(), "different parameters give the same address %s: %s and %s", a.ToRaw(), old, e)
								return
							}
							seen[a] = e
							if old, ok := byEff[e]; ok && old != a {
								c.Fail("address-unstable:"+ver.ToString(), "the same effective parameters %s give two addresses", e)
								return
							}
							byEff[e] = a
						}
					}
				}
			}
		})
		c.Sample(map[string]any{"version": ver.ToString(), "parameter_tuples": n, "distinct_addresses": len(seen)})
	})

	add("send-params", 0, func(c *enum.Ctx) {
		ver := sendVersions[c.ChooseFree(len(sendVersions))]
		kind := c.ChooseFree(4)
		seqno := uint32(0)
		if kind == 3 {
			seqno = []uint32{0, 1, 77, 1<<32 - 1}[c.ChooseFree(4)]
		}
		wc := wcs[c.ChooseFree(2)]
		p := params{ver: ver, seed: 1, wc: wc}
		c.Case([]byte(fmt.Sprintf("send/%d/%d/%d/%d", ver, kind, seqno, wc)), true)
		c.Sample(map[string]any{"version": ver.ToString(), "account": []string{"non-existent", "uninitialised", "frozen", "active"}[kind], "stored_seqno": seqno, "workchain": wc})
		c.Label("%s account-state=%d seqno=%d wc=%d", ver.ToString(), kind, seqno, wc)
		c.Try("panic:send-params:"+ver.ToString(), func() {
			bc := &chain{}
			w, err := wallet.New(key(p.seed), ver, bc, p.opts()...)
			if err != nil {
				c.Fail("wallet.New", "%v", err)
				return
			}
			bc.state = accountState(c, p, kind, seqno, w.GetAddress())
			vtime.Reset(time.Unix(1_700_000_000, 0))
			var dest ton.AccountID
			dest.Address[5] = 1
			_, err = w.SendV2(context.Background(), 0, wallet.SimpleTransfer{Amount: 1, Address: dest, Comment: "x"})
			if kind == 2 {
				c.Outcome(fmt.Sprintf("frozen:err=%v", err != nil))
				return
			}
			if err != nil || len(bc.payloads) != 1 {
				c.Fail("send-error:"+ver.ToString(), "SendV2: %v (%d payloads)", err, len(bc.payloads))
				return
			}
			roots, err := rboc.Parse(bc.payloads[0])
			if err != nil || len(roots) != 1 {
				c.Fail("payload-not-boc", "%v", err)
				return
			}
			m := roots[0]
			// envelope: ext_in, src none, dest = wallet, fee 0, init maybe ^, body ^
			cu := te.B{}
			_ = cu
			b := bitsOf(m)
			if len(b) < 2+2+2+1+8+256+4+1 || b[0] != true || b[1] != false {
				c.Fail("envelope", "not an external-in message")
				return
			}
			gotWC := int8(uintOf(b[7:15]))
			var gotAddr [32]byte
			copy(gotAddr[:], bytesOf(b[15:271]))
			if int32(gotWC) != w.GetAddress().Workchain || gotAddr != w.GetAddress().Address {
				c.Fail("send-dest:"+ver.ToString(), "message addressed to %d:%x, wallet is %s", gotWC, gotAddr, w.GetAddress().ToRaw())
			}
			hasInit := b[275]
			wantInit := kind == 0 || kind == 1
			if hasInit != wantInit {
				c.Fail(fmt.Sprintf("send-init:%s:state=%d", ver.ToString(), kind), "initial state attached = %v, want %v for account state %d", hasInit, wantInit, kind)
			}
			if hasInit {
				_, wantCell, _ := refAddress(p)
				if len(m.Refs) < 1 || m.Refs[0].ReprHash() != wantCell.ReprHash() {
					c.Fail("send-init-content:"+ver.ToString(), "attached init is not the wallet's initial state")
				}
			}
			// seqno inside the body
			t, err := tb.DeserializeBoc(bc.payloads[0])
			if err != nil {
				c.Fail("payload-not-boc", "%v", err)
				return
			}
			wantSeq := seqno
			if kind != 3 {
				wantSeq = 0
			}
			var gotSeq uint32
			switch ver {
			case wallet.V3R1, wallet.V3R2:
				d, e := wallet.DecodeMessageV3(t[0])
				err = e
				if e == nil {
					gotSeq = d.Seqno
				}
			case wallet.V4R1, wallet.V4R2:
				d, e := wallet.DecodeMessageV4(t[0])
				err = e
				if e == nil {
					gotSeq = d.Seqno
				}
			case wallet.V5R1:
				d, e := wallet.DecodeMessageV5(t[0])
				err = e
				if e == nil && d.SignedExternal != nil {
					gotSeq = d.SignedExternal.Seqno
				}
			case wallet.V5Beta:
				d, e := wallet.DecodeMessageV5Beta(t[0])
				err = e
				if e == nil {
					gotSeq = d.SignedExternal.Seqno
				}
			default:
				gotSeq = wantSeq
			}
			if err != nil {
				c.Fail("send-decode:"+ver.ToString(), "%v", err)
			} else if gotSeq != wantSeq {
				c.Fail("send-seqno:"+ver.ToString(), "message carries seqno %d, account data holds %d (state %d)", gotSeq, wantSeq, kind)
			}
		})
	})

	add("confirmation-histories", r.Pick(2, 5), func(c *enum.Ctx) {
		ver := []wallet.Version{wallet.V4R2, wallet.V5R1, wallet.V3R2}[c.ChooseFree(3)]
		waiting := []time.Duration{time.Second, 0}[c.ChooseFree(2)]
		sendFails := c.Choose(2) == 1
		// the message lifetime is independent of the confirmation window: a minute, shorter than the window, none at all
		lifetime := []time.Duration{time.Minute, 350 * time.Millisecond, 0}[c.ChooseFree(3)]
		const sent = 41
		nPolls := 12
		polls := make([]poll, nPolls)
		advanced := false
		desc := ""
		for i := range polls {
			k := c.Choose(3) // 0: as before, 1: seqno advances from here on (or goes back if already advanced), 2: error at this poll
			switch k {
			case 1:
				advanced = !advanced
			}
			polls[i].seqno = sent
			if advanced {
				polls[i].seqno = sent + 1
			}
			if k == 2 {
				polls[i].err = errors.New("liteserver error")
				polls[i].seqno = 0
			}
			desc += fmt.Sprint(k)
		}
		c.Case([]byte(fmt.Sprintf("conf/%d/%v/%v/%v/%s", ver, waiting, sendFails, lifetime, desc)), true)
		c.Sample(map[string]any{"version": ver.ToString(), "waiting": waiting.String(), "send_fails": sendFails, "message_lifetime": lifetime.String(), "poll_script": desc})
		c.Label("%s waiting=%v sendFails=%v polls=%s", ver.ToString(), waiting, sendFails, desc)
		c.Try("panic:confirmation", func() {
			bc := &chain{polls: polls}
			if sendFails {
				bc.sendErr = errors.New("send failed")
			}
			w, err := wallet.New(key(2), ver, bc)
			if err != nil {
				c.Fail("wallet.New", "%v", err)
				return
			}
			start := time.Unix(1_700_000_000, 0)
			vtime.Reset(start)
			bc.start = start
			bc.slot = waiting / 10
			body := tb.NewCell()
			_, err = w.RawSendV2(context.Background(), sent, start.Add(lifetime), []wallet.RawMessage{{Message: body, Mode: 3}}, nil, waiting)
			elapsed := vtime.Since(start)
			if sendFails {
				if err == nil {
					c.Fail("send-failure-ignored", "SendMessage failed but RawSendV2 returned success")
				}
				if bc.pollCount != 0 {
					c.Fail("polls-after-failed-send", "polled %d times after a failed send", bc.pollCount)
				}
				return
			}
			if waiting == 0 {
				if err != nil || bc.pollCount != 0 {
					c.Fail("no-wait-send", "waiting=0: err=%v polls=%d", err, bc.pollCount)
				}
				return
			}
			// which polls happened before the deadline, and did one of them confirm?
			confirmed := false
			for i := 0; i < bc.pollCount; i++ {
				if k := bc.pollSlots[i]; k < len(polls) && bc.pollTimes[i] < waiting && polls[k].err == nil && polls[k].seqno > sent {
					confirmed = true
				}
			}
			// the property: success once the seqno has advanced, error if it has not by the deadline.
			// what the chain WOULD have answered within the deadline (polls are made every waiting/10):
			wouldConfirm := false
			for i := 0; i < 10; i++ {
				if polls[i].err == nil && polls[i].seqno > sent {
					wouldConfirm = true
				}
			}
			switch {
			case wouldConfirm && err != nil:
				c.Fail("confirmed-send-reports-error", "the seqno advanced at a poll before the deadline (script %s) but RawSendV2 returned %v after %v (%d polls)", desc, err, elapsed, bc.pollCount)
			case !wouldConfirm && err == nil:
				c.Fail("unconfirmed-send-reports-success", "the seqno never advanced before the deadline (script %s) but RawSendV2 returned success", desc)
			case err == nil && !confirmed:
				c.Fail("success-without-confirmation", "success returned although no poll observed an advanced seqno")
			}
			if elapsed > waiting+waiting/10 {
				c.Fail("deadline-missed", "returned after %v, deadline %v", elapsed, waiting)
			}
		})
	})
	return hs
}

func u32(v uint32) *uint32 { return &v }
func i32(v int32) *int32   { return &v }
func deref(p *uint32) any {
	if p == nil {
		return "default"
	}
	return *p
}
func derefI(p *int32) any {
	if p == nil {
		return "default"
	}
	return *p
}
func bigFromBytes(b []byte) *big.Int { return new(big.Int).SetBytes(b) }
func bitsOf(c *cell.Cell) rbits.Bits { return rbits.FromBytes(c.Data, c.BitLen) }
func uintOf(b rbits.Bits) uint64     { return b.Uint().Uint64() }
func bytesOf(b rbits.Bits) []byte    { return b.Bytes() }
