// Package c16: message and transaction identity hashes match their source cells.
package c16

import (
	"fmt"
	"math/big"
	"path/filepath"

	tb "github.com/tonkeeper/tongo/boc"
	"github.com/tonkeeper/tongo/tlb"

	"verif/fw"
	"verif/harness/c04"
	"verif/mc/enum"
	"verif/realdata"
	"verif/ref/bits"
	rboc "verif/ref/boc"
	"verif/ref/cell"
	"verif/ref/dict"
	te "verif/ref/tlbenc"
)

func init() {
	fw.Register(&fw.Property{
		ID: "C16",
		Rule: "messages are built by the reference encoder (3 info kinds x addresses x init absent/inline/ref x body inline/ref x body cells incl. cells with a pruned-branch or library child) with up to D deviating fields, " +
			"parsed by tongo from reference bytes and decoded at top level, behind a reference, in an optional-reference slot and as a dictionary value, with and without a caching decoder; Hash(false) is compared with the reference hash of the message cell; " +
			"for external-in messages every member of an equivalence class (source, import fee, init, body placement varied) must give the Hash(true) of the canonical re-encoding and different destinations/bodies must differ; " +
			"every transaction and message of the real blocks must report the hash of a cell present in the block and SourceBoc must parse to that hash; distinct = (message cell hash, placement, decoder); non-trivial = always",
		Assume: []string{
			"the normalised form is: ext_in_msg_info, src addr_none, import_fee 0, no init, body in a reference (TEP-467); destinations without anycast are used for the normalisation classes",
			"transactions are taken from the real blocks in the repository (no synthetic transaction encoder)",
		},
		Harnesses: harnesses,
	})
}

type wrapper struct {
	A tlb.Uint8
	M tlb.Message                                    `tlb:"^"`
	N tlb.Maybe[tlb.Ref[tlb.Message]]                // like Transaction.Msgs.InMsg
	D tlb.HashmapE[tlb.Uint15, tlb.Ref[tlb.Message]] // like Transaction.Msgs.OutMsgs
}

func pool(seed int) []*cell.Cell {
	p := c04.CellPool(seed)
	leaf := cell.MustNew([]byte{0xAB}, 8, nil, false)
	pr, _ := cell.NewPruned(leaf, 1)
	withPruned := cell.MustNew([]byte{0x11, 0x22}, 16, []*cell.Cell{pr, leaf}, false)
	pr2, _ := cell.NewPruned(cell.MustNew([]byte{0x77}, 8, []*cell.Cell{pr}, false), 2)
	// bodies without data bits: empty, and references only (a body is "any body cell": its references are part of it
	// even when there is nothing to read before them)
	empty := cell.MustNew(nil, 0, nil, false)
	refsOnly := cell.MustNew(nil, 0, []*cell.Cell{leaf}, false)
	refsOnly2 := cell.MustNew(nil, 0, []*cell.Cell{cell.MustNew([]byte{0xCD, 0xEF}, 16, []*cell.Cell{leaf}, false), leaf}, false)
	return append(p, withPruned, cell.MustNew([]byte{0x33}, 8, []*cell.Cell{pr2}, false), empty, refsOnly, refsOnly2)
}

func parse(c *enum.Ctx, rc *cell.Cell) *tb.Cell {
	b, _ := rboc.Serialize([]*cell.Cell{rc}, rboc.Options{})
	roots, err := tb.DeserializeBoc(b)
	if err != nil || len(roots) != 1 {
		c.Fail("setup-parse", "tongo rejects reference bytes: %v", err)
		return nil
	}
	return roots[0]
}

func buildMessage(c *enum.Ctx, seed int, pl []*cell.Cell) (te.Message, bool) {
	var m te.Message
	m.Info.Kind = c.ChooseFree(3)
	switch m.Info.Kind {
	case 0:
		m.Info.Src = c04.ChooseAddr(c, seed, true)
		m.Info.Dest = c04.ChooseAddr(c, seed+7, true)
		f := c.Choose(8)
		m.Info.IhrDisabled, m.Info.Bounce, m.Info.Bounced = f&1 != 0, f&2 != 0, f&4 != 0
		m.Info.Value = c04.GramsAlphabet[c.Choose(len(c04.GramsAlphabet))]
		m.Info.Lt = []uint64{0, 1<<64 - 1}[c.Choose(2)]
	case 1:
		m.Info.Src = c04.ChooseAddr(c, seed, false)
		m.Info.Dest = c04.ChooseAddr(c, seed+7, true)
		m.Info.Import = c04.GramsAlphabet[c.Choose(len(c04.GramsAlphabet))]
	case 2:
		m.Info.Src = c04.ChooseAddr(c, seed, true)
		m.Info.Dest = c04.ChooseAddr(c, seed+7, false)
		m.Info.At = []uint32{0, 1<<32 - 1}[c.Choose(2)]
	}
	switch c.ChooseFree(3) {
	case 1:
		m.Init = &te.StateInit{Code: pl[3], Data: pl[1]}
	case 2:
		m.Init = &te.StateInit{Code: pl[4]}
		m.InitRef = true
	}
	m.BodyRef = c.ChooseFree(2) == 1
	bi := c.ChooseFree(len(pl))
	if !m.BodyRef && pl[bi].Special {
		return m, false
	}
	m.Body = pl[bi]
	return m, true
}

func harnesses(r *fw.Run) []fw.HarnessSpec {
	seed := int(r.Seed)
	pl := pool(seed)
	var hs []fw.HarnessSpec
	add := func(name string, bound int, f func(c *enum.Ctx)) {
		hs = append(hs, fw.HarnessSpec{Harness: enum.Harness{Name: name, Bound: bound, Run: f}})
	}

	add("message-hash-placements", r.Pick(1, 2), func(c *enum.Ctx) {
		m, ok := buildMessage(c, seed, pl)
		if !ok {
			c.Skip()
			return
		}
		w, err := m.Cell()
		if err != nil {
			c.Skip()
			return
		}
		placement := c.ChooseFree(4) // 0 top level, 1 behind ^, 2 optional ref slot, 3 dictionary value
		cmode := c.ChooseFree(3)     // 0: plain tlb.Unmarshal, 1: a fresh caching decoder, 2: a caching decoder whose hasher has already hashed the enclosing cell (as Transaction decoding does before it reaches its messages)
		caching := cmode > 0
		want := w.ReprHash()
		c.Case(append(want[:], byte(placement), byte(cmode)), true)
		c.Sample(map[string]any{"message": w.Describe(), "placement": []string{"top", "^", "Maybe^", "HashmapE value"}[placement], "caching_decoder": caching, "level_mask": w.Mask})
		c.Label("message %+v placement=%d caching=%v", m, placement, caching)
		other, _ := te.Message{Info: te.Info{Kind: 2, Src: te.Addr{Kind: 2, Bits: bits.Pattern(1, 256)}}, Body: pl[1]}.Cell()
		c.Try("panic:message-hash", func() {
			dec := func(cellv *tb.Cell, o any) error {
				if caching {
					d := tlb.NewDecoder()
					if cmode == 2 {
						if _, err := d.Hasher().Hash(cellv); err != nil {
							return err
						}
					}
					return d.Unmarshal(cellv, o)
				}
				return tlb.Unmarshal(cellv, o)
			}
			var got tlb.Message
			if placement == 0 {
				t := parse(c, w)
				if t == nil {
					return
				}
				if err := dec(t, &got); err != nil {
					c.Fail("decode-error", "reference-encoded message does not decode: %v", err)
					return
				}
			} else {
				// wrapper: A:uint8 M:^Message N:(Maybe ^Message) D:(HashmapE 15 ^Message)
				b := (&te.B{}).Uint(0x5A, 8)
				slotM, slotN := other, other
				var es []dict.Entry
				es = append(es, dict.Entry{Key: bits.FromUint(bigU(3), 15), Value: dict.Value{Refs: []*cell.Cell{other}}})
				switch placement {
				case 1:
					slotM = w
				case 2:
					slotN = w
				case 3:
					es = append(es, dict.Entry{Key: bits.FromUint(bigU(4), 15), Value: dict.Value{Refs: []*cell.Cell{w}}})
				}
				b.Ref(slotM).Bit(true).Ref(slotN)
				droot, err := dict.Build(es, 15, nil)
				if err != nil {
					c.Fail("setup", "%v", err)
					return
				}
				b.Bit(true).Ref(droot)
				wc, err := b.Cell()
				if err != nil {
					c.Fail("setup", "%v", err)
					return
				}
				t := parse(c, wc)
				if t == nil {
					return
				}
				var wr wrapper
				if err := dec(t, &wr); err != nil {
					c.Fail("decode-error", "wrapper with the message at placement %d does not decode: %v", placement, err)
					return
				}
				switch placement {
				case 1:
					got = wr.M
				case 2:
					got = wr.N.Value.Value
				case 3:
					v, ok := wr.D.Get(4)
					if !ok {
						c.Fail("decode-error", "dictionary value missing")
						return
					}
					got = v.Value
				}
			}
			if h := got.Hash(false); h != tlb.Bits256(want) {
				c.Fail(fmt.Sprintf("message-hash:mask=%d", w.Mask), "Message.Hash(false)=%x, source cell hash %x (placement %d, caching decoder %v, level mask %d)", h, want, placement, caching, w.Mask)
			}
			if got.Info.SumType != "ExtInMsgInfo" {
				if h := got.Hash(true); h != tlb.Bits256(want) {
					c.Fail("message-hash-normalize-non-ext", "Hash(true) of a non-external message differs from Hash(false)")
				}
			}
		})
	})

	// normalised hash: equivalence classes of external-in messages
	add("normalized-hash-classes", r.Pick(2, 3), func(c *enum.Ctx) {
		destK := c.ChooseFree(4)
		dest := te.Addr{Kind: 2, WC: []int32{0, -1, 0, 0}[destK], Bits: bits.Pattern(seed+destK, 256)}
		if destK == 3 {
			// a destination with anycast: whether normalisation keeps or drops the anycast prefix is not fixed by the
			// statement; what is fixed is that all messages differing only in the ignored parts agree (judged below)
			dest.Anycast = &te.Anycast{Depth: 3, Pfx: 5}
		}
		bi := c.ChooseFree(len(pl))
		body := pl[bi]
		// the varied, ignored parts
		var m te.Message
		m.Info.Kind = 1
		m.Info.Dest = dest
		switch c.Choose(3) {
		case 1:
			m.Info.Src = te.Addr{Kind: 1, Bits: bits.Pattern(seed, 9)}
		case 2:
			m.Info.Src = te.Addr{Kind: 1, Bits: bits.Pattern(seed, 256)}
		}
		m.Info.Import = c04.GramsAlphabet[c.Choose(len(c04.GramsAlphabet))]
		// the same fee written with leading zero bytes (a longer, still conforming VarUInteger 16): what the fee is
		// and how it is written are both ignored by the normalised hash
		m.Info.ImportPad = c.Choose(4)
		if l := (bigU(m.Info.Import).BitLen()+7)/8 + m.Info.ImportPad; l > 15 {
			m.Info.ImportPad = 0
		}
		switch c.Choose(3) {
		case 1:
			m.Init = &te.StateInit{Code: pl[3], Data: pl[1]}
		case 2:
			m.Init = &te.StateInit{Code: pl[4]}
			m.InitRef = true
		}
		m.BodyRef = c.Choose(2) == 0
		if !m.BodyRef && body.Special {
			c.Skip()
			return
		}
		m.Body = body
		w, err := m.Cell()
		if err != nil {
			c.Skip()
			return
		}
		canon, err := te.Message{Info: te.Info{Kind: 1, Dest: dest}, Body: body, BodyRef: true}.Cell()
		if err != nil {
			c.Skip()
			return
		}
		h := w.ReprHash()
		c.Case(h[:], true)
		c.Sample(map[string]any{"message": w.Describe(), "canonical": canon.Describe()})
		c.Label("ext-in message %+v", m)
		c.Try("panic:normalized", func() {
			t := parse(c, w)
			if t == nil {
				return
			}
			for _, caching := range []bool{false, true} {
				var got tlb.Message
				var err error
				t.ResetCounters()
				if caching {
					err = tlb.NewDecoder().Unmarshal(t, &got)
				} else {
					err = tlb.Unmarshal(t, &got)
				}
				if err != nil {
					c.Fail("decode-error", "%v", err)
					return
				}
				want := canon.ReprHash()
				if dest.Anycast != nil && (body.Special || body.Mask != 0) {
					return // exotic / levelled bodies are judged with plain destinations (known findings there)
				}
				if dest.Anycast != nil {
					// the class representative: the normalised hash tongo gives the canonical layout itself; it must be
					// the hash of the canonical re-encoding with or without the anycast prefix
					plain := dest
					plain.Anycast = nil
					canon2, err2 := te.Message{Info: te.Info{Kind: 1, Dest: plain}, Body: body, BodyRef: true}.Cell()
					ct := parse(c, canon)
					var cm tlb.Message
					if err2 != nil || ct == nil || tlb.Unmarshal(ct, &cm) != nil {
						c.Skip()
						return
					}
					rep := cm.Hash(true)
					if rep != tlb.Bits256(canon.ReprHash()) && rep != tlb.Bits256(canon2.ReprHash()) {
						c.Fail("normalized-hash:anycast-canonical", "Hash(true) of the canonical layout with an anycast destination is %x: neither the hash of that cell nor of the same message without anycast", rep)
						return
					}
					want = [32]byte(rep)
				}
				kind := "ordinary-body"
				if body.Special {
					kind = "exotic-body"
				} else if body.Mask != 0 {
					kind = "body-with-level"
				}
				if hn := got.Hash(true); hn != tlb.Bits256(want) {
					c.Fail("normalized-hash:"+kind, "Hash(true)=%x, canonical re-encoding has %x (src kind %d, fee %d, init %v/%v, body in ref %v)", hn, want, m.Info.Src.Kind, m.Info.Import, m.Init != nil, m.InitRef, m.BodyRef)
				}
				if hf := got.Hash(false); hf != tlb.Bits256(w.ReprHash()) {
					c.Fail("message-hash-after-normalize", "Hash(false) changed/incorrect: %x want %x", hf, w.ReprHash())
				}
				// separation: another destination / another body must give another normalised hash
				for _, alt := range []te.Message{
					{Info: te.Info{Kind: 1, Dest: te.Addr{Kind: 2, WC: dest.WC ^ 1, Bits: dest.Bits, Anycast: dest.Anycast}}, Body: body, BodyRef: true},
					{Info: te.Info{Kind: 1, Dest: dest}, Body: pl[(bi+1)%4], BodyRef: true},
				} {
					ac, err := alt.Cell()
					if err != nil || (alt.Body == body && alt.Info.Dest.WC == dest.WC) {
						continue
					}
					at := parse(c, ac)
					var am tlb.Message
					if at == nil || tlb.Unmarshal(at, &am) != nil {
						continue
					}
					if am.Hash(true) == got.Hash(true) && ac.ReprHash() != canon.ReprHash() {
						c.Fail("normalized-hash-collision", "messages with different destination/body share a normalised hash")
					}
				}
			}
		})
	})

	// one Go value decoded into repeatedly: what it reports must always describe the cell decoded last
	add("value-reuse-sequences", 0, func(c *enum.Ctx) {
		mk := func(k int) *cell.Cell {
			m := te.Message{Info: te.Info{Kind: 1, Dest: te.Addr{Kind: 2, WC: int32(k % 2), Bits: bits.Pattern(seed+k, 256)}}, Body: pl[k%4], BodyRef: k%2 == 0}
			if k == 2 {
				m.Info.Import = 77
			}
			w, err := m.Cell()
			if err != nil {
				return nil
			}
			return w
		}
		a, b2 := c.ChooseFree(4), c.ChooseFree(4)
		touch := c.ChooseFree(4) // what is asked of the value between the two decodes: nothing, Hash(false), Hash(true), both
		caching := c.ChooseFree(2) == 1
		ca, cb := mk(a), mk(b2)
		if ca == nil || cb == nil || a == b2 {
			c.Skip()
			return
		}
		c.Case([]byte(fmt.Sprintf("reuse-msg/%d/%d/%d/%v", a, b2, touch, caching)), true)
		c.Label("decode message %d, touch %d, decode message %d into the same value (caching decoder %v)", a, touch, b2, caching)
		c.Try("panic:reuse", func() {
			var v tlb.Message
			dec := func(x *cell.Cell) bool {
				t := parse(c, x)
				if t == nil {
					return false
				}
				var err error
				if caching {
					err = tlb.NewDecoder().Unmarshal(t, &v)
				} else {
					err = tlb.Unmarshal(t, &v)
				}
				if err != nil {
					c.Fail("decode-error", "%v", err)
					return false
				}
				return true
			}
			if !dec(ca) {
				return
			}
			if touch&1 != 0 {
				_ = v.Hash(false)
			}
			if touch&2 != 0 {
				_ = v.Hash(true)
			}
			kept := v // what a caller keeps of the first message (appended to a slice, say) before decoding the next one
			var freshA tlb.Message
			if ft := parse(c, ca); ft == nil || tlb.Unmarshal(ft, &freshA) != nil {
				return
			}
			if !dec(cb) {
				return
			}
			if kept.Hash(false) != tlb.Bits256(ca.ReprHash()) || kept.Hash(true) != freshA.Hash(true) {
				c.Fail("kept-copy-changed-by-next-decode", "a copy of the first decoded message reports other hashes after the next message was decoded into the variable it was copied from")
			}
			if h := v.Hash(false); h != tlb.Bits256(cb.ReprHash()) {
				c.Fail("reused-value-hash", "after decoding a second message into the same value Hash(false)=%x, the cell decoded last has %x", h, cb.ReprHash())
			}
			var fresh tlb.Message
			if ft := parse(c, cb); ft != nil && tlb.Unmarshal(ft, &fresh) == nil {
				if v.Hash(true) != fresh.Hash(true) {
					c.Fail("reused-value-normalized-hash", "after decoding a second message into the same value Hash(true) differs from a freshly decoded one")
				}
			}
		})
	})

	// real data
	var blocks []realdata.Item
	for _, it := range realdata.BOCs() {
		if filepath.Base(it.Origin) == "block.bin" || filepath.Ext(it.Origin) == ".bin" && len(it.Data) > 100000 {
			blocks = append(blocks, it)
		}
	}
	add("real-transactions", 0, func(c *enum.Ctx) {
		if len(blocks) == 0 {
			c.Fail("no-real-blocks", "no block found")
			return
		}
		it := blocks[c.ChooseFree(len(blocks))]
		caching := c.ChooseFree(2) == 1
		c.Case([]byte(fmt.Sprintf("%s/%v", it.Origin, caching)), true)
		stats := map[string]int{}
		c.Try("panic:real", func() {
			refRoots, err := rboc.Parse(it.Data)
			if err != nil {
				c.Skip()
				return
			}
			txCells := map[[32]byte]*cell.Cell{}
			refRoots[0].Walk(func(x *cell.Cell) { txCells[x.ReprHash()] = x })
			roots, err := tb.DeserializeBoc(it.Data)
			if err != nil {
				c.Fail("real-parse", "%v", err)
				return
			}
			var blk tlb.Block
			if caching {
				err = tlb.NewDecoder().Unmarshal(roots[0], &blk)
			} else {
				err = tlb.Unmarshal(roots[0], &blk)
			}
			if err != nil {
				stats["not_a_block"]++
				return
			}
			// one Transaction value decoded into repeatedly (the first transactions of the block, in order and reversed),
			// SourceBoc asked in between: hash and source BOC must describe the transaction decoded last
			{
				var cellsInOrder []*cell.Cell
				for _, tx := range blk.AllTransactions() {
					if src, ok := txCells[[32]byte(tx.Hash())]; ok && len(cellsInOrder) < 4 {
						cellsInOrder = append(cellsInOrder, src)
					}
				}
				for pass := 0; pass < 2 && len(cellsInOrder) >= 2; pass++ {
					var v tlb.Transaction
					for k := range cellsInOrder {
						src := cellsInOrder[k]
						if pass == 1 {
							src = cellsInOrder[len(cellsInOrder)-1-k]
						}
						t := parse(c, src)
						if t == nil {
							break
						}
						var err error
						if caching {
							err = tlb.NewDecoder().Unmarshal(t, &v)
						} else {
							err = tlb.Unmarshal(t, &v)
						}
						if err != nil {
							c.Fail("reused-transaction-decode", "%v", err)
							break
						}
						stats["reuse_decodes"]++
						if [32]byte(v.Hash()) != src.ReprHash() {
							c.Fail("reused-transaction-hash", "%s: after decoding transaction #%d into a reused value Hash() is not the hash of that cell", it.Origin, k)
							break
						}
						sb, err := v.SourceBoc()
						if err != nil {
							c.Fail("source-boc-error", "%v", err)
							break
						}
						if rr, err := rboc.Parse(sb); err != nil || len(rr) != 1 || rr[0].ReprHash() != src.ReprHash() {
							c.Fail("reused-transaction-source-boc", "%s: after decoding transaction #%d into a reused value SourceBoc() does not parse to the cell decoded last", it.Origin, k)
							break
						}
					}
				}
			}
			for _, tx := range blk.AllTransactions() {
				stats["transactions"]++
				src, ok := txCells[[32]byte(tx.Hash())]
				if !ok || src.BitLen < 4 || src.Data[0]>>4 != 0b0111 {
					c.Fail("transaction-hash", "%s: Transaction.Hash()=%x is not the hash of a transaction cell of the block (lt %d)", it.Origin, tx.Hash(), tx.Lt)
					return
				}
				if stats["transactions"]%7 == 1 {
					sb, err := tx.SourceBoc()
					if err != nil {
						c.Fail("source-boc-error", "%v", err)
						return
					}
					rr, err := rboc.Parse(sb)
					if err != nil || len(rr) != 1 || rr[0].ReprHash() != [32]byte(tx.Hash()) {
						c.Fail("source-boc-hash", "%s: SourceBoc of transaction lt %d does not parse to a cell with the reported hash (%v)", it.Origin, tx.Lt, err)
						return
					}
					stats["source_boc_checked"]++
				}
				check := func(m *tlb.Message) {
					stats["messages"]++
					src, ok := txCells[[32]byte(m.Hash(false))]
					if !ok {
						c.Fail("real-message-hash", "%s: Message.Hash(false)=%x is not the hash of any cell of the block", it.Origin, m.Hash(false))
						return
					}
					_ = src
				}
				if tx.Msgs.InMsg.Exists {
					check(&tx.Msgs.InMsg.Value.Value)
				}
				for _, om := range tx.Msgs.OutMsgs.Values() {
					om := om
					check(&om.Value)
				}
			}
		})
		c.Sample(map[string]any{"origin": it.Origin, "caching_decoder": caching, "stats": stats})
	})
	return hs
}

func boolInt(b bool) int {
	if b {
		return 1
	}
	return 0
}

func bigU(v uint64) *big.Int { return new(big.Int).SetUint64(v) }

// BuildMessage / Pool expose the reference message enumeration to other harnesses (C03 re-encodes decoded messages).
func BuildMessage(c *enum.Ctx, seed int, pl []*cell.Cell) (te.Message, bool) {
	return buildMessage(c, seed, pl)
}
func Pool(seed int) []*cell.Cell { return pool(seed) }
