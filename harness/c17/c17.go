// Package c17: account addresses and shard ids keep their meaning across all forms.
package c17

import (
	"bytes"
	"encoding/base32"
	"encoding/base64"
	"encoding/binary"
	"encoding/json"
	"fmt"
	"io"
	"strings"
	"testing/iotest"

	tb "github.com/tonkeeper/tongo/boc"
	"github.com/tonkeeper/tongo/liteclient"
	"github.com/tonkeeper/tongo/tlb"
	"github.com/tonkeeper/tongo/ton"

	"verif/fw"
	"verif/mc/enum"
	"verif/ref/bits"
)

func init() {
	fw.Register(&fw.Property{
		ID: "C17",
		Rule: "addresses: zero, ones, each single set bit (256), byte ramps x workchains (all of int8 for the friendly / TL-B forms, int32 edges for raw / JSON / TL) x 4 flag combinations x both base64 alphabets; every one of the 48x63 single-character substitutions " +
			"of each friendly string; shard ids: every prefix length 0..60 x (all prefixes for length <= 10, 32 patterns above) x matching accounts and accounts differing in exactly one bit; parent/child arithmetic through GetParents; MatchBlockID over ancestor / descendant / sibling pairs; " +
			"anycast depths 1..30; ADNL base32 addresses; distinct = (harness, parameters); non-trivial = non-zero address or non-default flags",
		Assume: []string{
			"reference CRC16/XMODEM, base64url and shard-prefix algebra written independently in the harness",
			"the user-friendly and TL-B forms carry an 8-bit workchain: only workchains in int8 range are required to round-trip through them",
		},
		Harnesses: harnesses,
	})
}

func crc16(data []byte) uint16 {
	var crc uint16
	for _, b := range data {
		crc ^= uint16(b) << 8
		for i := 0; i < 8; i++ {
			if crc&0x8000 != 0 {
				crc = crc<<1 ^ 0x1021
			} else {
				crc <<= 1
			}
		}
	}
	return crc
}

const stdAlpha = "ABCDEFGHIJKLMNOPQRSTUVWXYZabcdefghijklmnopqrstuvwxyz0123456789+/"
const urlAlpha = "ABCDEFGHIJKLMNOPQRSTUVWXYZabcdefghijklmnopqrstuvwxyz0123456789-_"

func friendly(wc int8, addr [32]byte, bounce, testnet, url bool) string {
	tag := byte(0x11)
	if !bounce {
		tag = 0x51
	}
	if testnet {
		tag |= 0x80
	}
	buf := append([]byte{tag, byte(wc)}, addr[:]...)
	c := crc16(buf)
	buf = append(buf, byte(c>>8), byte(c))
	if url {
		return base64.URLEncoding.EncodeToString(buf)
	}
	return base64.StdEncoding.EncodeToString(buf)
}

func addrPattern(k, seed int) [32]byte {
	var a [32]byte
	switch {
	case k == 0:
	case k == 1:
		for i := range a {
			a[i] = 0xFF
		}
	case k == 2:
		for i := range a {
			a[i] = byte(i)
		}
	case k == 3:
		copy(a[:], bits.Pattern(seed, 256).Bytes())
	default: // single set bit k-4
		b := k - 4
		a[b/8] = 0x80 >> uint(b%8)
	}
	return a
}

func harnesses(r *fw.Run) []fw.HarnessSpec {
	seed := int(r.Seed)
	var hs []fw.HarnessSpec
	add := func(name string, bound int, f func(c *enum.Ctx)) {
		hs = append(hs, fw.HarnessSpec{Harness: enum.Harness{Name: name, Bound: bound, Run: f}})
	}

	add("account-forms", 0, func(c *enum.Ctx) {
		ak := c.ChooseFree(260)
		addr := addrPattern(ak, seed)
		var wc int32
		wide := false
		if ak < 4 {
			// all of int8 plus int32 edges
			i := c.ChooseFree(256 + 8)
			if i < 256 {
				wc = int32(int8(i))
			} else {
				wc = []int32{128, -129, 255, 256, 1<<31 - 1, -(1 << 31), 1 << 16, -(1 << 20)}[i-256]
				wide = true
			}
		} else {
			wc = []int32{0, -1}[c.ChooseFree(2)]
		}
		id := ton.AccountID{Workchain: wc, Address: addr}
		c.Case([]byte(fmt.Sprintf("acc/%d/%d", ak, wc)), ak != 0 || wc != 0)
		c.Sample(map[string]any{"workchain": wc, "address": fmt.Sprintf("%x", addr)})
		c.Label("account %d:%x", wc, addr)
		c.Try("panic:account-forms", func() {
			// raw
			raw := id.ToRaw()
			if want := fmt.Sprintf("%d:%x", wc, addr); raw != want {
				c.Fail("ToRaw", "ToRaw=%s want %s", raw, want)
			}
			for _, s := range []string{raw, strings.ToUpper(raw), fmt.Sprintf("%d:%s", wc, strings.TrimLeft(fmt.Sprintf("%x", addr), "0"))} {
				if strings.HasSuffix(s, ":") {
					continue // an all-zero address trimmed to nothing is not a documented form
				}
				for name, f := range map[string]func(string) (ton.AccountID, error){"AccountIDFromRaw": ton.AccountIDFromRaw, "ParseAccountID": ton.ParseAccountID} {
					got, err := f(s)
					if err != nil || got != id {
						c.Fail("raw-roundtrip:"+name, "%s(%q) = %v,%v want %v", name, s, got, err, id)
					}
				}
				// the JSON form is a string: it determines the value whatever the destination held before - another
				// account, or what a rejected document left behind
				used := ton.AccountID{Workchain: 77}
				for i := range used.Address {
					used.Address[i] = 0xFF
				}
				if err := json.Unmarshal([]byte(`"`+s+`"`), &used); err != nil || used != id {
					c.Fail("json-into-used-destination", "JSON %q parsed into a variable that held another account gives %v,%v want %v", s, used.ToRaw(), err, id.ToRaw())
				}
				after := ton.AccountID{}
				_ = json.Unmarshal([]byte(`"`+s[:len(s)-1]+`zz"`), &after)
				if err := json.Unmarshal([]byte(`"`+s+`"`), &after); err != nil || after != id {
					c.Fail("json-after-rejected-document", "JSON %q parsed into a variable that a rejected document was parsed into before gives %v,%v want %v", s, after.ToRaw(), err, id.ToRaw())
				}
			}
			// JSON
			js, err := json.Marshal(id)
			var back ton.AccountID
			if err != nil || !json.Valid(js) || json.Unmarshal(js, &back) != nil || back != id {
				c.Fail("json-roundtrip", "JSON %s parses to %v (err %v)", js, back, err)
			}
			// TL
			tlb_, err := id.MarshalTL()
			want := make([]byte, 36)
			binary.LittleEndian.PutUint32(want, uint32(wc))
			copy(want[4:], addr[:])
			if err != nil || !bytes.Equal(tlb_, want) {
				c.Fail("MarshalTL", "MarshalTL=%x want %x", tlb_, want)
			}
			var tlBack ton.AccountID
			if err := tlBack.UnmarshalTL(bytes.NewReader(want)); err != nil || tlBack != id {
				c.Fail("UnmarshalTL", "UnmarshalTL=%v,%v", tlBack, err)
			}
			// the same bytes through readers that deliver them in pieces (a socket, a pipe): one byte at a time, half
			// of the request at a time, the last piece together with io.EOF; and a second record behind the first
			two := append(append([]byte{}, want...), want...)
			for name, mk := range map[string]func([]byte) io.Reader{
				"one byte at a time":       func(b []byte) io.Reader { return iotest.OneByteReader(bytes.NewReader(b)) },
				"half reads":               func(b []byte) io.Reader { return iotest.HalfReader(bytes.NewReader(b)) },
				"data together with EOF":   func(b []byte) io.Reader { return iotest.DataErrReader(bytes.NewReader(b)) },
				"split inside the address": func(b []byte) io.Reader { return io.MultiReader(bytes.NewReader(b[:20]), bytes.NewReader(b[20:])) },
			} {
				rd := mk(two)
				for k := 0; k < 2; k++ {
					var x ton.AccountID
					if err := x.UnmarshalTL(rd); err != nil || x != id {
						c.Fail("UnmarshalTL-chunked", "UnmarshalTL of record %d through a reader with %s = %v,%v want %v", k, name, x, err, id)
						break
					}
				}
			}
			if wide {
				return
			}
			// TL-B address
			ma := id.ToMsgAddress()
			if ma.SumType != "AddrStd" || ma.AddrStd.WorkchainId != int8(wc) || ma.AddrStd.Address != tlb.Bits256(addr) || ma.AddrStd.Anycast.Exists {
				c.Fail("ToMsgAddress", "ToMsgAddress=%+v", ma)
			}
			bk, err := ton.AccountIDFromTlb(ma)
			if err != nil || bk == nil || *bk != id {
				c.Fail("AccountIDFromTlb", "AccountIDFromTlb=%v,%v", bk, err)
			}
			// through a cell
			cellv := tb.NewCell()
			var ma2 tlb.MsgAddress
			if err := tlb.Marshal(cellv, ma); err != nil || tlb.Unmarshal(cellv, &ma2) != nil {
				c.Fail("tlb-cell", "MsgAddress cell round trip failed")
			} else if bk2, err := ton.AccountIDFromTlb(ma2); err != nil || bk2 == nil || *bk2 != id {
				c.Fail("tlb-cell", "MsgAddress cell round trip gives %v", bk2)
			}
			// user friendly: 4 flag combinations x 2 alphabets
			for f := 0; f < 4; f++ {
				bounce, testnet := f&1 == 0, f&2 != 0
				h := id.ToHuman(bounce, testnet)
				if want := friendly(int8(wc), addr, bounce, testnet, true); h != want {
					c.Fail("ToHuman", "ToHuman(%v,%v)=%s want %s", bounce, testnet, h, want)
				}
				for _, s := range []string{friendly(int8(wc), addr, bounce, testnet, true), friendly(int8(wc), addr, bounce, testnet, false)} {
					for name, fn := range map[string]func(string) (ton.AccountID, error){"AccountIDFromBase64Url": ton.AccountIDFromBase64Url, "ParseAccountID": ton.ParseAccountID} {
						got, err := fn(s)
						if err != nil || got != id {
							c.Fail("friendly-roundtrip:"+name, "%s(%q) = %v,%v want %v", name, s, got, err, id)
						}
					}
				}
			}
			if nilAddr := (*ton.AccountID)(nil).ToMsgAddress(); nilAddr.SumType != "AddrNone" {
				c.Fail("nil-ToMsgAddress", "nil account must map to addr_none")
			}
		})
	})

	add("friendly-substitutions", 0, func(c *enum.Ctx) {
		k := c.ChooseFree(r.Pick(16, 64))
		addr := addrPattern([]int{0, 1, 2, 3, 4, 100, 259, 131}[k%8], seed+k)
		wc := []int8{0, -1, 5, -128}[(k/8)%4]
		f := k / 32
		url := k%2 == 0
		s := friendly(wc, addr, f&1 == 0, k%3 == 0, url)
		pos := c.ChooseFree(48)
		c.Case([]byte(fmt.Sprintf("sub/%d/%d", k, pos)), true)
		c.Sample(map[string]any{"friendly": s, "position": pos})
		c.Label("friendly %s position %d", s, pos)
		alpha := stdAlpha
		if url {
			alpha = urlAlpha
		}
		orig := strings.IndexByte(alpha, s[pos])
		c.Try("panic:substitutions", func() {
			for d := 0; d < 64; d++ {
				if d == orig {
					continue
				}
				for _, al := range []string{stdAlpha, urlAlpha} {
					if d < 62 && al == urlAlpha && url == false {
						continue // digits 0..61 are the same characters in both alphabets
					}
					t := s[:pos] + string(al[d]) + s[pos+1:]
					if d >= 62 || al == alpha {
						if got, err := ton.AccountIDFromBase64Url(t); err == nil {
							c.Fail("substitution-accepted:AccountIDFromBase64Url", "%q (char %d of %q changed to digit %d) accepted as %v", t, pos, s, d, got)
							return
						}
						if got, err := ton.ParseAccountID(t); err == nil {
							c.Fail("substitution-accepted:ParseAccountID", "%q (char %d of %q changed) accepted as %v", t, pos, s, got)
							return
						}
						var j ton.AccountID
						if err := json.Unmarshal([]byte(`"`+t+`"`), &j); err == nil {
							c.Fail("substitution-accepted:UnmarshalJSON", "%q accepted by UnmarshalJSON", t)
							return
						}
					}
				}
			}
		})
	})

	add("shard-prefixes", 0, func(c *enum.Ctx) {
		l := c.ChooseFree(61)
		var pfx uint64
		if l <= r.Pick(10, 16) { // every prefix up to this length
			pfx = uint64(c.ChooseFree(1 << uint(l)))
		} else {
			k := c.ChooseFree(r.Pick(32, 256))
			pfx = bits.Pattern(seed+k, l).Uint().Uint64()
			switch k {
			case 0:
				pfx = 0
			case 1:
				pfx = 1<<uint(l) - 1
			}
		}
		c.Case([]byte(fmt.Sprintf("shard/%d/%d", l, pfx)), l > 0)
		c.Sample(map[string]any{"prefix_len": l, "prefix": fmt.Sprintf("%b", pfx)})
		c.Label("shard prefix %0*b (len %d)", l, pfx, l)
		enc := func(l int, pfx uint64) uint64 {
			if l == 0 {
				return 1 << 63
			}
			return pfx<<uint(64-l) | 1<<uint(63-l)
		}
		id := enc(l, pfx)
		c.Try("panic:shards", func() {
			s, err := ton.ParseShardID(int64(id))
			if err != nil {
				c.Fail("ParseShardID", "%x: %v", id, err)
				return
			}
			if uint64(s.Encode()) != id {
				c.Fail("shard-encode", "ParseShardID(%x).Encode() = %x", id, uint64(s.Encode()))
			}
			// matching accounts: the prefix followed by zeros / ones / pattern
			mk := func(first64 uint64) ton.AccountID {
				var a ton.AccountID
				binary.BigEndian.PutUint64(a.Address[:8], first64)
				a.Address[31] = 0x5A
				return a
			}
			var base uint64
			if l > 0 {
				base = pfx << uint(64-l)
			}
			rest := uint64(1)<<uint(64-l) - 1
			if l == 0 {
				rest = ^uint64(0)
			}
			for _, tail := range []uint64{0, rest, rest & 0xAAAAAAAAAAAAAAAA, rest & 0x5555555555555555} {
				acc := mk(base | tail)
				if !s.MatchAccountID(acc) {
					c.Fail("match-false-negative", "shard %x does not match account prefix %016x", id, base|tail)
				}
				// flip each of the prefix bits and the bit after the prefix
				for b := 0; b <= l && b < 64; b++ {
					flipped := (base | tail) ^ (1 << uint(63-b))
					want := b >= l // a bit after the prefix does not matter
					if s.MatchAccountID(mk(flipped)) != want {
						c.Fail("match-one-bit", "shard %x vs account prefix %016x (bit %d flipped): match=%v want %v", id, flipped, b, !want, want)
					}
				}
			}
			// parent / children through GetParents
			info := tlb.BlockInfo{}
			info.Shard = tlb.ShardIdent{WorkchainID: 0, ShardPrefix: base, ShardPfxBits: uint64FromInt(l)}
			if l >= 1 {
				info.AfterSplit = true
				info.PrevRef.SumType = "PrevBlkInfo"
				info.PrevRef.PrevBlkInfo = &struct{ Prev tlb.ExtBlkRef }{}
				ps, err := ton.GetParents(info)
				if err != nil || len(ps) != 1 || ps[0].Shard != enc(l-1, pfx>>1) {
					c.Fail("shard-parent", "parent of shard %x (after split) = %v,%v want %x", id, ps, err, enc(l-1, pfx>>1))
				}
			}
			if l < 60 {
				info.AfterSplit = false
				info.AfterMerge = true
				info.PrevRef = tlb.BlkPrevInfo{SumType: "PrevBlksInfo"}
				info.PrevRef.PrevBlksInfo = &struct {
					Prev1 tlb.ExtBlkRef
					Prev2 tlb.ExtBlkRef
				}{}
				ps, err := ton.GetParents(info)
				if err != nil || len(ps) != 2 || ps[0].Shard != enc(l+1, pfx<<1) || ps[1].Shard != enc(l+1, pfx<<1|1) {
					c.Fail("shard-children", "merged parents of shard %x = %v,%v want %x and %x", id, ps, err, enc(l+1, pfx<<1), enc(l+1, pfx<<1|1))
				} else {
					// children's parent is this shard again
					for _, ch := range ps {
						ci := tlb.BlockInfo{}
						cpfx := ch.Shard &^ (ch.Shard & (^ch.Shard + 1))
						ci.Shard = tlb.ShardIdent{ShardPrefix: cpfx, ShardPfxBits: uint64FromInt(l + 1)}
						ci.AfterSplit = true
						ci.PrevRef.SumType = "PrevBlkInfo"
						ci.PrevRef.PrevBlkInfo = &struct{ Prev tlb.ExtBlkRef }{}
						pp, err := ton.GetParents(ci)
						if err != nil || len(pp) != 1 || pp[0].Shard != id {
							c.Fail("shard-parent-of-child", "parent(child(%x)=%x) = %v,%v", id, ch.Shard, pp, err)
						}
					}
				}
			}
			// MatchBlockID: ancestors, descendants, sibling, unrelated
			check := func(ol int, opfx uint64, want bool, what string) {
				if ol < 0 || ol > 60 {
					return
				}
				got := s.MatchBlockID(ton.BlockID{Shard: enc(ol, opfx)})
				if got != want {
					c.Fail("MatchBlockID:"+what, "shard %x (len %d) vs block shard %x (len %d, %s): %v want %v", id, l, enc(ol, opfx), ol, what, got, want)
				}
			}
			check(l, pfx, true, "self")
			for up := 1; up <= l; up++ {
				check(l-up, pfx>>uint(up), true, "ancestor")
			}
			check(l+1, pfx<<1, true, "descendant")
			check(l+1, pfx<<1|1, true, "descendant")
			if l+3 <= 60 {
				check(l+3, pfx<<3|5, true, "descendant")
			}
			if l >= 1 {
				check(l, pfx^1, false, "sibling")
				check(l+1, (pfx^1)<<1, false, "nephew")
				if l >= 2 {
					check(l-1, (pfx>>1)^1, false, "uncle")
				}
			}
		})
	})

	add("anycast-rewrite", 0, func(c *enum.Ctx) {
		depth := 1 + c.ChooseFree(30)
		pk := c.ChooseFree(4)
		ak := c.ChooseFree(3)
		pfxBits := []bits.Bits{make(bits.Bits, depth), bits.Pattern(2, depth), bits.Pattern(seed+1, depth), bits.Pattern(3, depth)}[pk]
		if pk == 1 {
			for i := range pfxBits {
				pfxBits[i] = true
			}
		}
		addr := addrPattern([]int{1, 3, 0}[ak], seed)
		c.Case([]byte(fmt.Sprintf("anycast/%d/%d/%d", depth, pk, ak)), true)
		c.Sample(map[string]any{"depth": depth, "rewrite_pfx": pfxBits.String()})
		c.Try("panic:anycast", func() {
			var ma tlb.MsgAddress
			ma.SumType = "AddrStd"
			ma.AddrStd.WorkchainId = -1
			ma.AddrStd.Address = addr
			ma.AddrStd.Anycast = tlb.Maybe[tlb.Anycast]{Exists: true, Value: tlb.Anycast{Depth: uint32(depth), RewritePfx: uint32(pfxBits.Uint().Uint64())}}
			got, err := ton.AccountIDFromTlb(ma)
			ab := bits.FromBytes(addr[:], 256)
			copy(ab[:depth], pfxBits)
			var want [32]byte
			copy(want[:], ab.Bytes())
			if err != nil || got == nil || got.Workchain != -1 || got.Address != want {
				c.Fail("anycast-rewrite", "depth %d pfx %s: got %v,%v want %x", depth, pfxBits, got, err, want)
			}
			if ma.AddrStd.Address != tlb.Bits256(addr) {
				c.Fail("anycast-mutates-input", "AccountIDFromTlb modified its argument")
			}
		})
	})

	add("adnl-base32", 0, func(c *enum.Ctx) {
		ak := c.ChooseFree(260)
		addr := addrPattern(ak, seed)
		c.Case([]byte(fmt.Sprintf("adnl/%d", ak)), ak != 0)
		c.Sample(map[string]any{"adnl": fmt.Sprintf("%x", addr)})
		c.Try("panic:adnl", func() {
			s := liteclient.ADNLAddressToBase32(addr)
			raw := append([]byte{0x2d}, addr[:]...)
			cr := crc16(raw)
			raw = append(raw, byte(cr>>8), byte(cr))
			want := strings.ToLower(base32.StdEncoding.EncodeToString(raw))[1:]
			if s != want {
				c.Fail("adnl-encode", "ADNLAddressToBase32=%s want %s", s, want)
			}
			for _, t := range []string{want, want + ".adnl"} {
				got, err := liteclient.ParseADNLAddress(t)
				if err != nil || got != ton.Bits256(addr) {
					c.Fail("adnl-roundtrip", "ParseADNLAddress(%s)=%x,%v", t, got, err)
				}
			}
			// a changed character is rejected
			pos := ak % len(want)
			alt := byte('a')
			if want[pos] == 'a' {
				alt = 'b'
			}
			if _, err := liteclient.ParseADNLAddress(want[:pos] + string(alt) + want[pos+1:]); err == nil {
				c.Fail("adnl-substitution-accepted", "corrupted adnl address accepted")
			}
		})
	})
	return hs
}

func uint64FromInt(i int) tlb.Uint6 { return tlb.Uint6(i) }
