// Package c18: generated Merkle proofs commit to the original tree and reveal the value.
package c18

import (
	"fmt"
	"math/big"

	tb "github.com/tonkeeper/tongo/boc"
	"github.com/tonkeeper/tongo/tlb"

	"verif/conv"
	"verif/fw"
	"verif/gen/dag"
	"verif/mc/enum"
	"verif/ref/bits"
	rboc "verif/ref/boc"
	"verif/ref/cell"
	"verif/ref/dict"
)

func init() {
	fw.Register(&fw.Property{
		ID: "C18",
		Rule: "(1) dictionaries of key width 8/16/32/256 over every subset (size 1..N) of an 8-key adversarial alphabet, encoded both by tongo and canonically (shortest labels incl. the same-bit form) by the reference model, x every present key and 4 absent keys " +
			"through ProveKeyInHashmap; (2) every ordinary cell DAG with up to 4 cells x every subset of its cells pruned through the cursor API (CreateProof); the proof bytes are parsed by the reference parser (which recomputes every level mask and checks " +
			"the Merkle-proof commitment) and must equal, hash for hash, the proof the reference model builds for the same pruning set; pruned branches are compared with the subtrees they replace; the proven value is decoded from the proof by tongo; " +
			"distinct = (tree hash, pruning set / key); non-trivial = at least one pruned branch",
		Assume: []string{
			"reference Merkle rules in /verif/ref/cell (pruned branch = type, mask, hashes, depths; Merkle proof = type, hash, depth of child at level 0)",
			"dictionary values are 32-bit integers",
		},
		Harnesses: harnesses,
	})
}

func parseRef(c *enum.Ctx, rc *cell.Cell) *tb.Cell {
	b, _ := rboc.Serialize([]*cell.Cell{rc}, rboc.Options{})
	roots, err := tb.DeserializeBoc(b)
	if err != nil || len(roots) != 1 {
		c.Fail("setup-parse", "%v", err)
		return nil
	}
	return roots[0]
}

// prune rebuilds the tree with the cells in set replaced by level-1 pruned branches.
func prune(orig *cell.Cell, set map[*cell.Cell]bool) (*cell.Cell, error) {
	memo := map[*cell.Cell]*cell.Cell{}
	var rec func(x *cell.Cell) (*cell.Cell, error)
	rec = func(x *cell.Cell) (*cell.Cell, error) {
		if r, ok := memo[x]; ok {
			return r, nil
		}
		var out *cell.Cell
		var err error
		if set[x] {
			out, err = cell.NewPruned(x, 1)
		} else {
			var refs []*cell.Cell
			for _, r := range x.Refs {
				rr, e := rec(r)
				if e != nil {
					return nil, e
				}
				refs = append(refs, rr)
			}
			out, err = cell.New(x.Data, x.BitLen, refs, x.Special)
		}
		if err != nil {
			return nil, err
		}
		memo[x] = out
		return out, nil
	}
	return rec(orig)
}

// checkProof parses the proof with the reference parser and compares it with the expected proof.
func checkProof(c *enum.Ctx, tag string, proof []byte, orig *cell.Cell, set map[*cell.Cell]bool) *cell.Cell {
	roots, err := rboc.Parse(proof)
	if err != nil {
		c.Fail("proof-invalid:"+tag, "the proof is not a well-formed bag of cells for a validating reader: %v", err)
		return nil
	}
	if len(roots) != 1 || roots[0].Type != cell.MerkleProof || !roots[0].Special {
		c.Fail("proof-root:"+tag, "proof root is not a single Merkle-proof cell")
		return nil
	}
	p := roots[0]
	oh := orig.Hash(0)
	if string(p.Data[1:33]) != string(oh[:]) || int(p.Data[33])<<8|int(p.Data[34]) != int(orig.Depth(0)) {
		c.Fail("proof-commitment:"+tag, "Merkle-proof cell stores hash %x depth %d, original root has %x / %d", p.Data[1:33], int(p.Data[33])<<8|int(p.Data[34]), oh, orig.Depth(0))
		return nil
	}
	if ch := p.Refs[0].Hash(0); ch != oh {
		c.Fail("proof-level0-hash:"+tag, "pruned tree has level-0 hash %x, original root %x", ch, oh)
		return nil
	}
	// every pruned branch stores hash and depth of what it replaces, all other cells unchanged
	var walk func(o, q *cell.Cell) bool
	seen := map[[2]*cell.Cell]bool{}
	walk = func(o, q *cell.Cell) bool {
		if seen[[2]*cell.Cell{o, q}] {
			return true
		}
		seen[[2]*cell.Cell{o, q}] = true
		if q.Special && q.Type == cell.PrunedBranch && !(o.Special && o.Type == cell.PrunedBranch) {
			h := o.Hash(0)
			if q.Mask != 1 || string(q.Data[2:34]) != string(h[:]) || int(q.Data[34])<<8|int(q.Data[35]) != int(o.Depth(0)) {
				c.Fail("pruned-branch-content:"+tag, "pruned branch stores %x/%d, replaced subtree has %x/%d", q.Data[2:34], int(q.Data[34])<<8|int(q.Data[35]), h, o.Depth(0))
				return false
			}
			return true
		}
		if o.BitLen != q.BitLen || string(o.Data) != string(q.Data) || o.Special != q.Special || len(o.Refs) != len(q.Refs) {
			c.Fail("proof-changed-cell:"+tag, "a kept cell differs from the original: %s vs %s", q.Describe(), o.Describe())
			return false
		}
		for i := range o.Refs {
			if !walk(o.Refs[i], q.Refs[i]) {
				return false
			}
		}
		return true
	}
	if !walk(orig, p.Refs[0]) {
		return nil
	}
	if set != nil {
		pt, err := prune(orig, set)
		if err != nil {
			c.Fail("setup", "reference pruning failed: %v", err)
			return nil
		}
		want, err := cell.NewMerkleProof(pt)
		if err != nil {
			c.Fail("setup", "reference proof failed: %v", err)
			return nil
		}
		if want.ReprHash() != p.ReprHash() {
			c.Fail("proof-differs:"+tag, "proof %s differs from the reference proof %s for the same pruning set", p.Describe(), want.Describe())
			return nil
		}
	}
	return p
}

func adversarialKeys(n int) []bits.Bits {
	mk := func(f func(i int) bool) bits.Bits {
		b := make(bits.Bits, n)
		for i := range b {
			b[i] = f(i)
		}
		return b
	}
	return []bits.Bits{
		mk(func(i int) bool { return false }),
		mk(func(i int) bool { return i == n-1 }),
		mk(func(i int) bool { return i == n-5 }),
		mk(func(i int) bool { return i == n-5 || i == n-1 }),
		mk(func(i int) bool { return i == 0 }),
		mk(func(i int) bool { return i != 0 }),
		mk(func(i int) bool { return true }),
		mk(func(i int) bool { return i%2 == 0 }),
	}
}

func bitString(b bits.Bits) tb.BitString {
	bs := tb.NewBitString(len(b))
	for _, x := range b {
		bs.WriteBit(x)
	}
	return bs
}

func harnesses(r *fw.Run) []fw.HarnessSpec {
	seed := int(r.Seed)
	var hs []fw.HarnessSpec
	add := func(name string, bound int, f func(c *enum.Ctx)) {
		hs = append(hs, fw.HarnessSpec{Harness: enum.Harness{Name: name, Bound: bound, Run: f}})
	}

	add("dictionary-proofs", 0, func(c *enum.Ctx) {
		n := []int{8, 16, 32, 256, 9, 12, 15}[c.ChooseFree(7)] // byte-aligned widths and widths with a trailing partial byte
		alpha := adversarialKeys(n)
		maxSize := r.Pick(3, 5)
		sameValues := c.ChooseFree(2) == 1
		var es []dict.Entry
		for i, k := range alpha {
			if len(es) < maxSize && c.ChooseFree(2) == 1 {
				v := int64(1000 + i)
				if sameValues {
					v = 7 // neighbour keys with equal values: their leaves are equal cells (one shared cell once parsed)
				}
				es = append(es, dict.Entry{Key: k, Value: dict.Value{Bits: bits.FromUint(big.NewInt(v), 32)}})
			}
		}
		if len(es) == 0 {
			c.Skip()
			return
		}
		dict.Sort(es)
		encoder := c.ChooseFree(2) // 0: reference canonical encoding, 1: tongo's encoding
		// the key to prove: each present key, then absent keys
		var absent []bits.Bits
		for _, k := range alpha {
			present := false
			for _, e := range es {
				if e.Key.Equal(k) {
					present = true
				}
			}
			if !present {
				absent = append(absent, k)
			}
		}
		// absent keys that differ from a present key in one bit (first, middle-label, last)
		for _, pos := range []int{n - 1, n / 2, 1, n - 3} {
			k := append(bits.Bits{}, es[0].Key...)
			k[pos] = !k[pos]
			dup := false
			for _, e := range es {
				if e.Key.Equal(k) {
					dup = true
				}
			}
			if !dup {
				absent = append(absent, k)
			}
		}
		prevSel := c.ChooseFree(4) // 0: fresh prover; 1..3: an earlier query on the same prover (rotating over absent and present keys)
		ki := c.ChooseFree(len(es) + len(absent))
		var key bits.Bits
		wantVal := int64(-1)
		if ki < len(es) {
			key = es[ki].Key
			wantVal = es[ki].Value.Bits.Uint().Int64()
		} else {
			key = absent[ki-len(es)]
		}
		c.Case([]byte(fmt.Sprintf("dict/%d/%v/%d/%s/%d/%v", n, keysOf(es), encoder, key, prevSel, sameValues)), true)
		c.Sample(map[string]any{"key_bits": n, "keys": len(es), "encoder": []string{"reference-canonical", "tongo"}[encoder], "proven_key_present": wantVal >= 0})
		c.Label("width %d keys %v encoder %d key %s", n, keysOf(es), encoder, key)
		c.Try("panic:dict-proof", func() {
			var root *tb.Cell
			if encoder == 0 {
				rc, err := dict.Build(es, n, nil)
				if err != nil {
					c.Fail("setup", "%v", err)
					return
				}
				root = parseRef(c, rc)
			} else {
				root = tb.NewCell()
				var err error
				switch n {
				case 8:
					err = marshalDict[tlb.Uint8](root, es)
				case 16:
					err = marshalDict[tlb.Uint16](root, es)
				case 32:
					err = marshalDict[tlb.Uint32](root, es)
				case 256:
					err = marshalDict[tlb.Bits256](root, es)
				case 9:
					err = marshalDict[tlb.Uint9](root, es)
				case 12:
					err = marshalDict[tlb.Uint12](root, es)
				case 15:
					err = marshalDict[tlb.Uint15](root, es)
				}
				if err != nil {
					c.Fail("setup-encode", "%v", err)
					return
				}
			}
			if root == nil {
				return
			}
			orig, err := conv.FromTongo(root)
			if err != nil {
				c.Fail("setup", "%v", err)
				return
			}
			prover, err := tb.NewMerkleProver(root)
			if err != nil {
				c.Fail("prover-error", "%v", err)
				return
			}
			// one prover serves several queries: an earlier query (for a present or an absent key, chosen freely) must
			// leave nothing behind that changes the proof of this one
			if prevSel > 0 {
				all := append(append([]bits.Bits{}, absent...), keysOf2(es)...)
				pk := all[(prevSel-1)%len(all)]
				_, _, _ = tlb.ProveKeyInHashmap[tlb.Uint32](prover, root, bitString(pk))
				root.ResetCounters()
			}
			val, proof, err := tlb.ProveKeyInHashmap[tlb.Uint32](prover, root, bitString(key))
			if wantVal < 0 {
				if err == nil || proof != nil {
					c.Fail("absent-key-proven", "key %s is absent from %v but ProveKeyInHashmap returned value %d and a proof (err=%v)", key, keysOf(es), val, err)
				}
				return
			}
			if err != nil {
				c.Fail("present-key-error", "present key %s: %v", key, err)
				return
			}
			if int64(val) != wantVal {
				c.Fail("proven-value", "ProveKeyInHashmap returned value %d for key %s, dictionary has %d", val, key, wantVal)
				return
			}
			// the expected pruning set: at every fork on the path the sibling subtree
			set := map[*cell.Cell]bool{}
			onPath := map[*cell.Cell]bool{}
			cur := orig
			pos := 0
			for {
				onPath[cur] = true
				lbl, err := labelLen(cur, n-pos)
				if err != nil {
					c.Fail("setup", "%v", err)
					return
				}
				pos += lbl
				if pos >= n {
					break
				}
				if key[pos] {
					set[cur.Refs[0]] = true
					cur = cur.Refs[1]
				} else {
					set[cur.Refs[1]] = true
					cur = cur.Refs[0]
				}
				pos++
			}
			// a sibling that is the very cell of the path (equal cells are one cell in a parsed bag) cannot be pruned
			// without hiding the proven value: it stays
			for x := range set {
				if onPath[x] {
					delete(set, x)
				}
			}
			p := checkProof(c, "dict", proof, orig, set)
			if p == nil {
				return
			}
			// the value can be decoded from the proof by tongo
			proots, err := tb.DeserializeBoc(proof)
			if err != nil || len(proots) != 1 || len(proots[0].Refs()) != 1 {
				c.Fail("proof-unreadable", "tongo cannot parse its own proof: %v", err)
				return
			}
			got, ok, derr := lookupIn(proots[0].Refs()[0], n, key)
			if derr != nil || !ok || got != wantVal {
				c.Fail("value-from-proof", "decoding the proven dictionary from the proof: value %d found=%v err=%v, want %d", got, ok, derr, wantVal)
			}
			// a proof of a proof: the dictionary taken out of the proof (it already contains pruned branches) is proven
			// again for the same key; the new proof commits to the same original root and is a valid bag for a
			// validating reader, its pruned branches still carrying hash and depth of the original subtrees
			if prevSel == 0 && !c.Failed() {
				inner := proots[0].Refs()[0]
				inner.ResetCounters()
				prover2, err := tb.NewMerkleProver(inner)
				if err != nil {
					c.Fail("prover-error-on-pruned-tree", "%v", err)
					return
				}
				val2, proof2, err := tlb.ProveKeyInHashmap[tlb.Uint32](prover2, inner, bitString(key))
				if err != nil || int64(val2) != wantVal {
					c.Fail("proof-of-proof-error", "proving key %s in the dictionary taken from its own proof: value %d err %v", key, val2, err)
					return
				}
				roots2, err := rboc.Parse(proof2)
				if err != nil {
					c.Fail("proof-invalid:proof-of-proof", "the second proof is not a well-formed bag of cells for a validating reader: %v", err)
					return
				}
				oh := orig.Hash(0)
				if len(roots2) != 1 || roots2[0].Type != cell.MerkleProof || string(roots2[0].Data[1:33]) != string(oh[:]) {
					c.Fail("proof-commitment:proof-of-proof", "the second proof does not commit to the original dictionary root %x", oh)
					return
				}
				if ch := roots2[0].Refs[0].Hash(0); ch != oh {
					c.Fail("proof-level0-hash:proof-of-proof", "pruned tree of the second proof has level-0 hash %x, original root %x", ch, oh)
				}
			}
		})
	})

	add("cursor-prune-sets", 1, func(c *enum.Ctx) {
		ref, desc := dag.Build(c, dag.Opts{MaxCells: r.Pick(3, 4), Seed: seed, FreeLens: false})
		if ref == nil {
			return
		}
		var cells []*cell.Cell
		ref.Walk(func(x *cell.Cell) { cells = append(cells, x) }) // children first, root last
		set := map[*cell.Cell]bool{}
		mask := 0
		for i, x := range cells {
			if c.ChooseFree(2) == 1 {
				set[x] = true
				mask |= 1 << i
			}
		}
		abandoned := c.ChooseFree(2) == 1
		h := ref.ReprHash()
		c.Case(append(h[:], byte(mask), byte(boolToInt(abandoned))), mask != 0)
		c.Sample(map[string]any{"dag": ref.Describe(), "pruned_cells_mask": mask, "abandoned_cursor_first": abandoned})
		c.Label("dag=%s pruned mask=%b abandoned cursor first=%v", desc, mask, abandoned)
		c.Try("panic:cursor", func() {
			root, err := conv.ToTongo(ref, true)
			if err != nil {
				c.Fail("setup", "%v", err)
				return
			}
			prover, err := tb.NewMerkleProver(root)
			if err != nil {
				c.Fail("prover-error", "%v", err)
				return
			}
			// a prover serves many proofs: a cursor that was walked and pruned but never turned into a proof (a lookup
			// that gave up half-way) leaves nothing behind for the next one
			if abandoned {
				ab := prover.Cursor()
				ab.Prune()
				for i := range ref.Refs {
					ab.Ref(i).Prune()
				}
			}
			cur := prover.Cursor()
			// reach every cell of the set through Ref paths (first path found)
			var nav func(x *cell.Cell, cu *tb.Cursor, visited map[*cell.Cell]bool)
			nav = func(x *cell.Cell, cu *tb.Cursor, visited map[*cell.Cell]bool) {
				if visited[x] {
					return
				}
				visited[x] = true
				if set[x] {
					cu.Prune()
				}
				for i, rch := range x.Refs {
					nav(rch, cu.Ref(i), visited)
				}
			}
			nav(ref, cur, map[*cell.Cell]bool{})
			proof, err := prover.CreateProof(cur)
			if err != nil {
				c.Fail("create-proof-error", "%v", err)
				return
			}
			// cells below a pruned cell are not part of the expected pruning (unreachable): prune() handles that by construction
			checkProof(c, "cursor", proof, ref, set)
		})
	})
	// trees that contain exotic cells in the part that is kept: a library cell next to ordinary cells (what account
	// states with library code look like). Every subset of the ordinary cells is pruned through the cursor API; the
	// kept cells - the library cells included - appear in the proof as they are.
	add("cursor-prune-with-library-cells", 0, func(c *enum.Ctx) {
		lib := cell.NewLibrary([32]byte{0x4c, 0x49, 0x42, byte(seed)})
		lib2 := cell.NewLibrary([32]byte{0x4c, 0x32})
		l1 := cell.MustNew([]byte{0x11}, 8, nil, false)
		l2 := cell.MustNew([]byte{0x22, 0x80}, 9, nil, false)
		a := cell.MustNew([]byte{0xA0}, 8, []*cell.Cell{lib, l1}, false)
		b := cell.MustNew([]byte{0xB0}, 8, []*cell.Cell{l2}, false)
		var ref *cell.Cell
		switch c.ChooseFree(3) {
		case 0:
			ref = cell.MustNew([]byte{0x01}, 8, []*cell.Cell{a, lib2, b}, false)
		case 1:
			ref = cell.MustNew([]byte{0x02}, 8, []*cell.Cell{lib, a}, false) // the library cell twice
		default:
			ref = cell.MustNew([]byte{0x03}, 8, []*cell.Cell{b, cell.MustNew([]byte{0xC0}, 8, []*cell.Cell{a, lib2}, false)}, false)
		}
		var cells []*cell.Cell
		ref.Walk(func(x *cell.Cell) {
			if !x.Special {
				cells = append(cells, x)
			}
		})
		set := map[*cell.Cell]bool{}
		mask := 0
		for i, x := range cells {
			if x != ref && c.ChooseFree(2) == 1 {
				set[x] = true
				mask |= 1 << i
			}
		}
		h := ref.ReprHash()
		c.Case(append(h[:], byte(mask)), true)
		c.Sample(map[string]any{"dag": ref.Describe(), "pruned_cells_mask": mask})
		c.Label("dag=%s pruned mask=%b", ref.Describe(), mask)
		c.Try("panic:cursor-library", func() {
			raw, err := rboc.Serialize([]*cell.Cell{ref}, rboc.Options{})
			if err != nil {
				c.Fail("setup", "%v", err)
				return
			}
			roots, err := tb.DeserializeBoc(raw)
			if err != nil || len(roots) != 1 {
				c.Fail("setup-parse", "tongo does not parse the tree with library cells: %v", err)
				return
			}
			prover, err := tb.NewMerkleProver(roots[0])
			if err != nil {
				c.Fail("prover-error", "%v", err)
				return
			}
			cur := prover.Cursor()
			var nav func(x *cell.Cell, cu *tb.Cursor, visited map[*cell.Cell]bool)
			nav = func(x *cell.Cell, cu *tb.Cursor, visited map[*cell.Cell]bool) {
				if visited[x] {
					return
				}
				visited[x] = true
				if set[x] {
					cu.Prune()
				}
				for i, rch := range x.Refs {
					nav(rch, cu.Ref(i), visited)
				}
			}
			nav(ref, cur, map[*cell.Cell]bool{})
			proof, err := prover.CreateProof(cur)
			if err != nil {
				c.Fail("create-proof-error", "%v", err)
				return
			}
			checkProof(c, "cursor-library", proof, ref, set)
		})
	})
	return hs
}

func boolToInt(b bool) int {
	if b {
		return 1
	}
	return 0
}

func keysOf(es []dict.Entry) []string {
	var out []string
	for _, e := range es {
		s := e.Key.String()
		if len(s) > 16 {
			s = s[:6] + ".." + s[len(s)-8:]
		}
		out = append(out, s)
	}
	return out
}

type keyC interface {
	comparable
	FixedSize() int
	Equal(other any) bool
	Compare(other any) (int, bool)
}

func marshalDict[K keyC](root *tb.Cell, es []dict.Entry) error {
	var keys []K
	var vals []tlb.Uint32
	for _, e := range es {
		var k K
		kc := tb.NewCell()
		for _, b := range e.Key {
			kc.WriteBit(b)
		}
		if err := tlb.Unmarshal(kc, &k); err != nil {
			return err
		}
		keys = append(keys, k)
		vals = append(vals, tlb.Uint32(e.Value.Bits.Uint().Uint64()))
	}
	return tlb.Marshal(root, tlb.NewHashmap(keys, vals))
}

// labelLen parses the label of a dictionary edge of the reference cell.
func labelLen(x *cell.Cell, m int) (int, error) {
	es, err := dict.Parse(x, m, func(rest bits.Bits, refs []*cell.Cell) (dict.Value, error) { return dict.Value{}, nil })
	_ = es
	if err != nil {
		// may fail below (values) but the label itself is what we need: parse manually
	}
	b := bits.FromBytes(x.Data, x.BitLen)
	if len(b) == 0 {
		return 0, fmt.Errorf("empty edge")
	}
	k := 0
	for 1<<uint(k) <= m {
		k++
	}
	rd := func(p int) int {
		v := 0
		for i := 0; i < k; i++ {
			v <<= 1
			if b[p+i] {
				v |= 1
			}
		}
		return v
	}
	if !b[0] {
		l := 0
		for b[1+l] {
			l++
		}
		return l, nil
	}
	if !b[1] {
		return rd(2), nil
	}
	return rd(3), nil
}

// lookupIn decodes the (pruned) dictionary with tongo and looks the key up.
func lookupIn(root *tb.Cell, n int, key bits.Bits) (int64, bool, error) {
	find := func(keys []bits.Bits, vals []tlb.Uint32) (int64, bool) {
		for i, k := range keys {
			if k.Equal(key) {
				return int64(vals[i]), true
			}
		}
		return 0, false
	}
	switch n {
	case 8:
		return lookupT[tlb.Uint8](root, find)
	case 16:
		return lookupT[tlb.Uint16](root, find)
	case 32:
		return lookupT[tlb.Uint32](root, find)
	case 9:
		return lookupT[tlb.Uint9](root, find)
	case 12:
		return lookupT[tlb.Uint12](root, find)
	case 15:
		return lookupT[tlb.Uint15](root, find)
	default:
		return lookupT[tlb.Bits256](root, find)
	}
}

func lookupT[K keyC](root *tb.Cell, find func([]bits.Bits, []tlb.Uint32) (int64, bool)) (int64, bool, error) {
	var h tlb.Hashmap[K, tlb.Uint32]
	if err := tlb.Unmarshal(root, &h); err != nil {
		return 0, false, err
	}
	var ks []bits.Bits
	for _, k := range h.Keys() {
		kc := tb.NewCell()
		if err := tlb.Marshal(kc, k); err != nil {
			return 0, false, err
		}
		bs := kc.RawBitString()
		ks = append(ks, bits.FromBytes(bs.Buffer(), bs.GetWriteCursor()))
	}
	v, ok := find(ks, h.Values())
	return v, ok, nil
}

func keysOf2(es []dict.Entry) []bits.Bits {
	var out []bits.Bits
	for _, e := range es {
		out = append(out, e.Key)
	}
	return out
}
