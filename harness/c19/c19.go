// Package c19: TON Connect proofs are accepted only for the key controlling the address.
package c19

import (
	"context"
	"crypto/ed25519"
	"crypto/sha256"
	"encoding/base64"
	"encoding/binary"
	"errors"
	"fmt"
	"math/big"
	"strings"
	"time"

	tb "github.com/tonkeeper/tongo/boc"
	"github.com/tonkeeper/tongo/tlb"
	"github.com/tonkeeper/tongo/ton"
	"github.com/tonkeeper/tongo/tonconnect"
	"github.com/tonkeeper/tongo/wallet"

	"verif/fw"
	"verif/mc/enum"
	"verif/shim/vtime"
)

func init() {
	fw.Register(&fw.Property{
		ID: "C19",
		Rule: "11 wallet versions with a known code hash x key seeds (incl. a public key starting with a zero byte) x domains {\"\", a, 255 bytes, non-ASCII} x timestamps around the lifetime boundary x executor script {returns the key, another key, error, malformed stack}; " +
			"from each valid proof: every single-field substitution (address, domain, timestamp incl. +2^32 / +2^40, payload, state-init of another wallet, signature by another key), every single-bit flip of the signature, and a menu of malformed proofs " +
			"(bad base64 / hex, state-init without code or data, unknown code, multi-root / zero-root / truncated BOC, wrong-length payload); payloads: issue/check under 2 secrets, lifetime boundaries, every hex-digit substitution; " +
			"distinct = (version, key, variation); non-trivial = always",
		Assume: []string{
			"tonconnect/server.go is compiled with its \"time\" import redirected to a virtual clock (build overlay); single thread",
			"the proof message layout is re-derived in the harness from the statement (sha256 of 0xffff | ton-connect | sha256(ton-proof-item-v2/ | wc | addr | len(domain) | domain | ts | payload)) and signed with crypto/ed25519",
			"key pairs are represented by fixed seeds",
		},
		Harnesses: harnesses,
	})
}

var versions = []wallet.Version{wallet.V1R1, wallet.V1R2, wallet.V1R3, wallet.V2R1, wallet.V2R2, wallet.V3R1, wallet.V3R2, wallet.V4R1, wallet.V4R2, wallet.V5Beta, wallet.V5R1}

var keys []ed25519.PrivateKey

func init() {
	// key 0..2: ordinary seeds; key 3: first seed whose public key starts with a zero byte
	for s := 0; len(keys) < 3; s++ {
		keys = append(keys, mkKey(s))
	}
	for s := 1000; ; s++ {
		k := mkKey(s)
		if k.Public().(ed25519.PublicKey)[0] == 0 {
			keys = append(keys, k)
			break
		}
	}
	// keys 4..7: further ordinary seeds (thorough tier)
	for s := 3; len(keys) < 8; s++ {
		keys = append(keys, mkKey(s))
	}
}

func mkKey(seed int) ed25519.PrivateKey {
	var s [32]byte
	binary.BigEndian.PutUint32(s[:], uint32(seed))
	s[31] = 0x42
	return ed25519.NewKeyFromSeed(s[:])
}

func refSign(k ed25519.PrivateKey, wc int32, addr [32]byte, domain string, ts int64, payload string) string {
	m := []byte("ton-proof-item-v2/")
	var b4 [4]byte
	binary.BigEndian.PutUint32(b4[:], uint32(wc))
	m = append(m, b4[:]...)
	m = append(m, addr[:]...)
	binary.LittleEndian.PutUint32(b4[:], uint32(len(domain)))
	m = append(m, b4[:]...)
	m = append(m, domain...)
	var b8 [8]byte
	binary.LittleEndian.PutUint64(b8[:], uint64(ts))
	m = append(m, b8[:]...)
	m = append(m, payload...)
	h := sha256.Sum256(m)
	full := append([]byte{0xff, 0xff}, "ton-connect"...)
	full = append(full, h[:]...)
	hh := sha256.Sum256(full)
	return base64.StdEncoding.EncodeToString(ed25519.Sign(k, hh[:]))
}

type executor struct {
	mode int // 0 returns the key registered for the address, 1 another key, 2 error, 3 malformed stack
	keys map[ton.AccountID]ed25519.PublicKey
}

func (e *executor) RunSmcMethodByID(ctx context.Context, a ton.AccountID, methodID int, params tlb.VmStack) (uint32, tlb.VmStack, error) {
	switch e.mode {
	case 2:
		return 0, nil, errors.New("account is not active")
	case 3:
		return 0, tlb.VmStack{{SumType: "VmStkNull"}, {SumType: "VmStkNull"}}, nil
	}
	k, ok := e.keys[a]
	if !ok {
		return 0, nil, errors.New("unknown account")
	}
	if e.mode == 1 {
		k = keys[1].Public().(ed25519.PublicKey)
		if string(k) == string(e.keys[a]) {
			k = keys[2].Public().(ed25519.PublicKey)
		}
	}
	var v tlb.VmStackValue
	v.SumType = "VmStkInt"
	v.VmStkInt = tlb.Int257(*new(big.Int).SetBytes(k))
	return 0, tlb.VmStack{v}, nil
}

type walletInfo struct {
	w    wallet.Wallet
	key  ed25519.PrivateKey
	init tlb.StateInit
	b64  string
}

func mkWallet(c *enum.Ctx, ver wallet.Version, ki int) (walletInfo, bool) {
	w, err := wallet.New(keys[ki], ver, nil)
	if err != nil {
		c.Fail("setup", "%v", err)
		return walletInfo{}, false
	}
	si, err := w.StateInit()
	if err != nil {
		c.Fail("setup", "%v", err)
		return walletInfo{}, false
	}
	cl := tb.NewCell()
	if err := tlb.Marshal(cl, *si); err != nil {
		c.Fail("setup", "%v", err)
		return walletInfo{}, false
	}
	b64, _ := cl.ToBocBase64()
	return walletInfo{w, keys[ki], *si, b64}, true
}

func stateInitB64(c *enum.Ctx, si tlb.StateInit) string {
	cl := tb.NewCell()
	if err := tlb.Marshal(cl, si); err != nil {
		return ""
	}
	s, _ := cl.ToBocBase64()
	return s
}

const defaultLife = 300

func harnesses(r *fw.Run) []fw.HarnessSpec {
	var hs []fw.HarnessSpec
	add := func(name string, bound int, f func(c *enum.Ctx)) {
		hs = append(hs, fw.HarnessSpec{Harness: enum.Harness{Name: name, Bound: bound, Run: f, Workers: 1}})
	}
	now := time.Unix(1_700_000_000, 0)
	domains := []string{"example.com", "", "a", strings.Repeat("d", 255), "пример.рф"}

	add("proofs", r.Pick(1, 2), func(c *enum.Ctx) {
		ver := versions[c.ChooseFree(len(versions))]
		keySeeds := []int{0, 3}
		if !r.Quick() {
			keySeeds = []int{0, 3, 4, 5, 6, 7} // keys 1 and 2 are the "other wallet" and the "other signer"
		}
		ki := keySeeds[c.ChooseFree(len(keySeeds))]
		execMode := c.ChooseFree(4)
		domain := domains[c.Choose(len(domains))]
		// the two lifetimes of the server are separate options: the defaults (300 s / 300 s), a short proof lifetime next to
		// a long payload lifetime, and the reverse. A proof's age is judged by the proof lifetime.
		lifeOpt := c.ChooseFree(3)
		life := []int64{300, 30, 3600}[lifeOpt]
		payloadLife := []int64{300, 3600, 30}[lifeOpt]
		tsOff := []int64{0, -life, -life + 1, -life - 1, -10}[c.Choose(5)]
		variation := c.ChooseFree(26)
		// the server instance has handled an earlier proof: 0 none, 1 a valid proof of another wallet, 2 a valid proof of this
		// wallet, 3 a rejected attempt of the other wallet's holder to claim this wallet's address with her own state-init
		warm := c.ChooseFree(4)
		if lifeOpt != 0 && (variation != 0 || warm != 0 || execMode%2 != 0) {
			c.Skip()
			return
		}
		key := fmt.Sprintf("proof/%d/%d/%d/%q/%d/%d/%d/%d", ver, ki, execMode, domain, tsOff, variation, warm, lifeOpt)
		c.Case([]byte(key), true)
		c.Sample(map[string]any{"version": ver.ToString(), "key": ki, "executor": []string{"key", "other key", "error", "malformed stack"}[execMode], "domain_len": len(domain), "ts_offset": tsOff, "variation": variation})
		c.Label("%s", key)
		c.Try("panic:CheckProof", func() {
			vtime.Reset(now)
			wi, ok := mkWallet(c, ver, ki)
			if !ok {
				return
			}
			other, ok := mkWallet(c, ver, 1)
			if !ok {
				return
			}
			ex := &executor{mode: execMode, keys: map[ton.AccountID]ed25519.PublicKey{
				wi.w.GetAddress():    wi.key.Public().(ed25519.PublicKey),
				other.w.GetAddress(): other.key.Public().(ed25519.PublicKey),
			}}
			var srvOpts []tonconnect.Option
			if lifeOpt != 0 {
				srvOpts = []tonconnect.Option{tonconnect.WithLifeTimeProof(life), tonconnect.WithLifeTimePayload(payloadLife)}
			}
			srv, err := tonconnect.NewTonConnect(ex, "secret-one", srvOpts...)
			if err != nil {
				c.Fail("setup", "%v", err)
				return
			}
			payload, err := srv.GeneratePayload()
			if err != nil {
				c.Fail("GeneratePayload", "%v", err)
				return
			}
			ts := now.Unix() + tsOff
			proof, err := tonconnect.CreateSignedProof(payload, wi.w.GetAddress(), wi.key, wi.init, tonconnect.ProofOptions{Timestamp: time.Unix(ts, 0), Domain: domain})
			if err != nil {
				c.Fail("CreateSignedProof", "%v", err)
				return
			}
			addr := wi.w.GetAddress()
			if want := refSign(wi.key, addr.Workchain, addr.Address, domain, ts, payload); proof.Proof.Signature != want {
				c.Fail("client-signature", "CreateSignedProof signs a different message than the ton-proof layout prescribes")
				return
			}
			if proof.Proof.StateInit != wi.b64 {
				c.Fail("client-state-init", "CreateSignedProof state-init differs from the wallet's state-init")
			}
			expectOK := true
			why := "valid proof"
			reject := func(s string) { expectOK = false; why = s }
			if tsOff < -life {
				reject("expired proof")
			}
			switch execMode {
			case 1:
				reject("the account's key is another key")
			case 2, 3:
				// key has to come from the state-init (valid: it hashes to the address and is a known wallet)
			}
			p := *proof
			resign := func() {
				p.Proof.Signature = refSign(wi.key, addr.Workchain, addr.Address, p.Proof.Domain, p.Proof.Timestamp, p.Proof.Payload)
			}
			checkDomain := tonconnect.StaticDomain(domain)
			switch variation {
			case 0:
			case 1:
				p.Address = other.w.GetAddress().ToRaw()
				reject("address of another wallet")
			case 2:
				p.Proof.Domain = domain + "x"
				checkDomain = tonconnect.StaticDomain(domain + "x")
				reject("domain differs from the signed one")
			case 3:
				p.Proof.Domain = domain + "x"
				resign()
				reject("domain is not the server's domain")
			case 4, 5, 6, 7, 8:
				p.Proof.Timestamp += []int64{1, -1, 1 << 32, 3 << 32, 1 << 40}[variation-4]
				reject("timestamp differs from the signed one")
			case 9:
				p2, _ := srv.GeneratePayload()
				if p2 == payload {
					p2 = payload[:31] + "0"
				}
				p.Proof.Payload = p2
				reject("payload differs from the signed one")
			case 10:
				p.Proof.StateInit = other.b64
				if execMode >= 2 {
					reject("state-init of another wallet")
				}
			case 11:
				p.Proof.Signature = refSign(keys[2], addr.Workchain, addr.Address, domain, ts, payload)
				reject("signature by another key")
			case 12:
				p.Proof.Signature = "!!!" + p.Proof.Signature[3:]
				reject("bad base64 signature")
			case 13:
				p.Address = fmt.Sprintf("%d:zz%x", addr.Workchain, addr.Address[1:])
				reject("bad hex address")
			case 14, 15, 16:
				si := wi.init
				switch variation {
				case 14:
					si.Code.Exists = false
				case 15:
					si.Data.Exists = false
				case 16:
					unknown := tb.NewCell()
					unknown.WriteUint(0xBADC0DE, 32)
					si.Code.Value.Value = *unknown
				}
				b64 := stateInitB64(c, si)
				p.Proof.StateInit = b64
				if execMode >= 2 {
					// make the address match the malformed state-init so that only the state-init parser can reject it
					cl, _ := tb.DeserializeBocBase64(b64)
					h, _ := cl[0].Hash256()
					a2 := ton.AccountID{Workchain: addr.Workchain, Address: h}
					p.Address = a2.ToRaw()
					p.Proof.Signature = refSign(wi.key, a2.Workchain, a2.Address, domain, ts, payload)
					reject("state-init without code / data / with unknown code")
				}
			case 17:
				p.Proof.StateInit = ""
				if execMode >= 2 {
					reject("no way to obtain the key")
				}
			case 18:
				raw, _ := base64.StdEncoding.DecodeString(wi.b64)
				p.Proof.StateInit = base64.StdEncoding.EncodeToString(raw[:len(raw)/2])
				if execMode >= 2 {
					reject("truncated state-init")
				}
			case 19:
				// two roots
				c1, c2 := tb.NewCell(), tb.NewCell()
				c2.WriteUint(1, 8)
				raw := []byte{0xb5, 0xee, 0x9c, 0x72, 0x01, 0x01, 0x02, 0x02, 0x00, 0x05, 0x00, 0x01, 0x00, 0x00, 0x00, 0x02, 0x01}
				_ = c1
				p.Proof.StateInit = base64.StdEncoding.EncodeToString(raw)
				if execMode >= 2 {
					reject("multi-root state-init")
				}
			case 20:
				raw := []byte{0xb5, 0xee, 0x9c, 0x72, 0x01, 0x01, 0x00, 0x00, 0x00, 0x00}
				p.Proof.StateInit = base64.StdEncoding.EncodeToString(raw)
				if execMode >= 2 {
					reject("zero-root state-init")
				}
			case 21:
				p.Proof.Payload = payload[:30]
				resign()
				reject("wrong-length payload")
			case 22:
				p.Proof.Payload = strings.Repeat("0", 64)
				resign()
				reject("payload not issued by the server")
			case 23:
				p.Address = addr.ToHuman(true, false)
				reject("address not in raw form")
			case 24:
				// the holder of another wallet claims this address: her own state-init, signed with her own key
				p.Proof.StateInit = other.b64
				p.Proof.Signature = refSign(other.key, addr.Workchain, addr.Address, domain, ts, payload)
				if execMode == 1 {
					return // the scripted chain says the account's key is another key: not this case
				}
				reject("state-init and signature of another wallet for this address")
			case 25:
				// the genuine state-init, but signed by the holder of the other wallet
				p.Proof.Signature = refSign(other.key, addr.Workchain, addr.Address, domain, ts, payload)
				if execMode == 1 {
					return // the scripted chain says the account's key is exactly that key: not this case
				}
				reject("signature by the other wallet's key")
			}
			// earlier traffic on the same server instance must not change the verdict
			if warm == 3 {
				if wp, err := tonconnect.CreateSignedProof(payload, addr, other.key, other.init, tonconnect.ProofOptions{Timestamp: time.Unix(now.Unix(), 0), Domain: domain}); err == nil {
					if okW, _, errW := srv.CheckProof(context.Background(), wp, srv.CheckPayload, tonconnect.StaticDomain(domain)); (okW || errW == nil) && execMode != 1 {
						c.Fail("invalid-proof-accepted:claim-with-foreign-state-init", "a proof for this wallet's address with the other wallet's state-init and key was accepted")
						return
					}
				}
			} else if warm > 0 {
				who := other
				if warm == 2 {
					who = wi
				}
				if wp, err := tonconnect.CreateSignedProof(payload, who.w.GetAddress(), who.key, who.init, tonconnect.ProofOptions{Timestamp: time.Unix(now.Unix(), 0), Domain: domain}); err == nil {
					_, _, _ = srv.CheckProof(context.Background(), wp, srv.CheckPayload, tonconnect.StaticDomain(domain))
				}
			}
			ok2, gotKey, err := srv.CheckProof(context.Background(), &p, srv.CheckPayload, checkDomain)
			if expectOK {
				if !ok2 || err != nil || string(gotKey) != string(wi.key.Public().(ed25519.PublicKey)) {
					c.Fail(fmt.Sprintf("valid-proof-rejected:exec=%d:var=%d", execMode, variation), "%s (%s, key %d): CheckProof = %v, %x, %v", why, ver.ToString(), ki, ok2, gotKey, err)
				}
			} else {
				if ok2 || err == nil {
					c.Fail(fmt.Sprintf("invalid-proof-accepted:var=%d", variation), "%s (%s): CheckProof = %v, %x, %v", why, ver.ToString(), ok2, gotKey, err)
				}
			}
		})
	})

	add("signature-bit-flips", 0, func(c *enum.Ctx) {
		ver := []wallet.Version{wallet.V4R2, wallet.V5R1, wallet.V3R1}[c.ChooseFree(3)]
		execMode := []int{0, 2}[c.ChooseFree(2)]
		bit := c.ChooseFree(512)
		c.Case([]byte(fmt.Sprintf("flip/%d/%d/%d", ver, execMode, bit)), true)
		c.Sample(map[string]any{"version": ver.ToString(), "executor_errors": execMode == 2, "signature_bit": bit})
		c.Try("panic:CheckProof", func() {
			vtime.Reset(now)
			wi, ok := mkWallet(c, ver, 0)
			if !ok {
				return
			}
			ex := &executor{mode: execMode, keys: map[ton.AccountID]ed25519.PublicKey{wi.w.GetAddress(): wi.key.Public().(ed25519.PublicKey)}}
			srv, _ := tonconnect.NewTonConnect(ex, "s")
			payload, _ := srv.GeneratePayload()
			proof, err := tonconnect.CreateSignedProof(payload, wi.w.GetAddress(), wi.key, wi.init, tonconnect.ProofOptions{Timestamp: now, Domain: "d"})
			if err != nil {
				c.Fail("CreateSignedProof", "%v", err)
				return
			}
			sig, _ := base64.StdEncoding.DecodeString(proof.Proof.Signature)
			sig[bit/8] ^= 0x80 >> uint(bit%8)
			proof.Proof.Signature = base64.StdEncoding.EncodeToString(sig)
			ok2, _, err := srv.CheckProof(context.Background(), proof, srv.CheckPayload, tonconnect.StaticDomain("d"))
			if ok2 || err == nil {
				c.Fail("flipped-signature-accepted", "signature with bit %d flipped accepted", bit)
			}
		})
	})

	// state-inits whose code is a wallet the library knows elsewhere (wallet.GetVerByCodeHash) but that TON Connect does
	// not support, and state-inits with arbitrary code: the key cannot be taken from them. ParseStateInit must say so,
	// and a proof that needs the key from such a state-init is rejected - also one whose "signature" is the degenerate
	// pair that verifies under an all-zero key
	add("unsupported-wallet-state-inits", 0, func(c *enum.Ctx) {
		kinds := []wallet.Version{wallet.HighLoadV2R2, wallet.HighLoadV2R1, wallet.HighLoadV2, wallet.HighLoadV1R2, wallet.HighLoadV1R1, wallet.V3R2Lockup}
		ver := kinds[c.ChooseFree(len(kinds))]
		tsK := c.ChooseFree(16)
		c.Case([]byte(fmt.Sprintf("unsupported/%d/%d", ver, tsK)), true)
		c.Label("state-init with the code of %s, timestamp +%d", verName(ver), tsK)
		c.Try("panic:unsupported-state-init", func() {
			vtime.Reset(now)
			code := wallet.GetCodeByVer(ver)
			if code == nil {
				c.Skip()
				return
			}
			data := tb.NewCell()
			_ = data.WriteUint(0, 32)
			_ = data.WriteUint(uint64(wallet.DefaultSubWallet), 32)
			_ = data.WriteBytes(keys[0].Public().(ed25519.PublicKey))
			_ = data.WriteBit(false)
			var si tlb.StateInit
			si.Code.Exists = true
			si.Code.Value.Value = *code
			si.Data.Exists = true
			si.Data.Value.Value = *data
			b64 := stateInitB64(c, si)
			if c.Failed() {
				return
			}
			if key, err := tonconnect.ParseStateInit(b64); err == nil {
				c.Fail("unsupported-state-init-parsed:"+verName(ver), "ParseStateInit of a state-init with the code of %s returns key %x without an error", verName(ver), key)
			}
			cl, err := tb.DeserializeBocBase64(b64)
			if err != nil {
				c.Skip()
				return
			}
			h, _ := cl[0].Hash256()
			addr := ton.AccountID{Workchain: 0, Address: h}
			ex := &executor{mode: 2, keys: map[ton.AccountID]ed25519.PublicKey{}}
			srv, err := tonconnect.NewTonConnect(ex, "secret-one")
			if err != nil {
				c.Fail("setup", "%v", err)
				return
			}
			payload, err := srv.GeneratePayload()
			if err != nil {
				c.Fail("GeneratePayload", "%v", err)
				return
			}
			ts := now.Unix() + int64(tsK)
			for k, sig := range []string{
				refSign(keys[0], addr.Workchain, addr.Address, "example.com", ts, payload),
				base64.StdEncoding.EncodeToString(append([]byte{1}, make([]byte, 63)...)), // R = the neutral point, S = 0
				base64.StdEncoding.EncodeToString(make([]byte, 64)),
			} {
				p := tonconnect.Proof{Address: addr.ToRaw()}
				p.Proof.Timestamp, p.Proof.Domain, p.Proof.Payload, p.Proof.StateInit, p.Proof.Signature = ts, "example.com", payload, b64, sig
				ok, gotKey, err := srv.CheckProof(context.Background(), &p, srv.CheckPayload, tonconnect.StaticDomain("example.com"))
				if ok || err == nil {
					c.Fail(fmt.Sprintf("unsupported-wallet-proof-accepted:%s:sig=%d", verName(ver), k), "a proof whose key would have to come from a %s state-init was accepted (key %x)", verName(ver), gotKey)
				}
			}
		})
	})

	add("payloads", 0, func(c *enum.Ctx) {
		k := c.ChooseFree(70)
		c.Case([]byte(fmt.Sprintf("payload/%d", k)), true)
		c.Sample(map[string]any{"variation": k})
		c.Try("panic:CheckPayload", func() {
			vtime.Reset(now)
			a, _ := tonconnect.NewTonConnect(&executor{mode: 2}, "secret-A", tonconnect.WithLifeTimePayload(100))
			b, _ := tonconnect.NewTonConnect(&executor{mode: 2}, "secret-B", tonconnect.WithLifeTimePayload(100))
			p, err := a.GeneratePayload()
			if err != nil || len(p) != 64 {
				c.Fail("GeneratePayload", "%q %v", p, err)
				return
			}
			expect := func(name string, srv *tonconnect.Server, s string, want bool) {
				ok, err := srv.CheckPayload(s)
				if ok != want || (want && err != nil) || (!want && err == nil) {
					c.Fail("payload:"+name, "CheckPayload(%s) = %v, %v; want %v", name, ok, err, want)
				}
			}
			switch {
			case k == 0:
				expect("own-secret-fresh", a, p, true)
			case k == 1:
				expect("other-secret", b, p, false)
			case k == 2:
				vtime.Advance(99 * time.Second)
				expect("before-expiry", a, p, true)
			case k == 3:
				vtime.Advance(102 * time.Second)
				expect("after-expiry", a, p, false)
			case k == 4:
				expect("truncated", a, p[:62], false)
			case k == 5:
				expect("not-hex", a, "zz"+p[2:], false)
			default:
				i := k - 6
				d := byte('0')
				if p[i] == '0' {
					d = '1'
				}
				expect("digit-substitution", a, p[:i]+string(d)+p[i+1:], false)
			}
		})
	})
	return hs
}

// verName names a wallet version also where Version.ToString panics (it does for versions without a text form).
func verName(v wallet.Version) (name string) {
	defer func() {
		if recover() != nil {
			name = fmt.Sprintf("version#%d", int(v))
		}
	}()
	return v.ToString()
}
