// Package c20: JSON forms of chain values parse back to the same value.
package c20

import (
	"encoding/json"
	"fmt"
	"reflect"
	"strings"

	"github.com/tonkeeper/tongo/tlb"

	"verif/fw"
	"verif/gen"
	"verif/gen/registry"
	"verif/mc/enum"
)

func init() {
	fw.Register(&fw.Property{
		ID: "C20",
		Rule: "every exported type of packages tlb, boc, ton, tl, abi (list generated from the source tree) that implements both json.Marshaler and json.Unmarshaler x every value the domain-aware enumerator builds with at most D deviating leaves " +
			"(negatives, width limits, empty and 1023-bit strings, all address kinds, workchains, cells with references); the JSON must be valid and parse back to a deep-equal value; every truncation and single-character substitution of each document must give an error or a value, never a panic; " +
			"distinct = (type, value); non-trivial = non-default value",
		Assume: []string{
			"excluded as the property states: a variable-length address whose text equals a standard one (256 bits, workchain in int8 range)",
			"for types whose hand-written codec domain the enumerator cannot know the JSON-decoded value is judged instead (parse(print(y)) == y for y = parse(print(x)))",
			"malformed documents: every prefix and substitutions of every position by the characters \" \\ - x 0 } : _ ,",
		},
		Harnesses: harnesses,
	})
}

var (
	marshalerT   = reflect.TypeOf((*json.Marshaler)(nil)).Elem()
	unmarshalerT = reflect.TypeOf((*json.Unmarshaler)(nil)).Elem()
)

func jsonTypes() []registry.Entry {
	var out []registry.Entry
	for _, e := range registry.Types {
		ok := false
		for _, p := range []string{"tlb.", "boc.", "ton.", "tl.", "abi."} {
			if strings.HasPrefix(e.Name, p) {
				ok = true
			}
		}
		if !ok {
			continue
		}
		t := e.Type
		if (t.Implements(marshalerT) || reflect.PointerTo(t).Implements(marshalerT)) && reflect.PointerTo(t).Implements(unmarshalerT) {
			out = append(out, e)
		}
	}
	return out
}

// excluded reports whether the value contains the one ambiguity the property excludes:
// an AddrVar of 256 bits with a workchain in int8 range prints exactly like an AddrStd.
func excluded(v reflect.Value) bool {
	switch v.Kind() {
	case reflect.Pointer, reflect.Interface:
		if v.IsNil() {
			return false
		}
		return excluded(v.Elem())
	case reflect.Struct:
		if v.Type().Name() == "MsgAddress" && v.FieldByName("SumType").String() == "AddrVar" && !v.FieldByName("AddrVar").IsNil() {
			av := v.FieldByName("AddrVar").Elem()
			if av.FieldByName("AddrLen").Uint() == 256 {
				wc := av.FieldByName("WorkchainId").Int()
				return wc >= -128 && wc <= 127
			}
			return false
		}
		for i := 0; i < v.NumField(); i++ {
			if v.Type().Field(i).IsExported() && excluded(v.Field(i)) {
				return true
			}
		}
	}
	return false
}

func harnesses(r *fw.Run) []fw.HarnessSpec {
	seed := int(r.Seed)
	types := jsonTypes()
	// instantiations of the generic optional type (generic declarations are not in the registry)
	types = append(types,
		registry.Entry{Name: "tlb.Maybe[tlb.Uint8]", Type: reflect.TypeOf(tlb.Maybe[tlb.Uint8]{})},
		registry.Entry{Name: "tlb.Maybe[tlb.MsgAddress]", Type: reflect.TypeOf(tlb.Maybe[tlb.MsgAddress]{})},
		registry.Entry{Name: "tlb.Maybe[tlb.Int257]", Type: reflect.TypeOf(tlb.Maybe[tlb.Int257]{})},
		registry.Entry{Name: "tlb.Maybe[tlb.Grams]", Type: reflect.TypeOf(tlb.Maybe[tlb.Grams]{})},
		registry.Entry{Name: "tlb.Maybe[tlb.Any]", Type: reflect.TypeOf(tlb.Maybe[tlb.Any]{})},
	)
	var hs []fw.HarnessSpec
	hs = append(hs, fw.HarnessSpec{Harness: enum.Harness{Name: "json-roundtrip", Bound: r.Pick(2, 4), MaxViolations: 300, Run: func(c *enum.Ctx) {
		if len(types) < 20 {
			c.Fail("registry", "only %d JSON types found", len(types))
			return
		}
		e := types[c.ChooseFree(len(types))]
		g := &gen.G{C: c, Seed: seed, Enums: registry.Enums}
		var v reflect.Value
		if c.Try("panic:generator:"+e.Name, func() { v = g.Make(e.Type, "") }) {
			return
		}
		if excluded(v) {
			c.Skip()
			return
		}
		c.Case([]byte(fmt.Sprintf("%s/%+v", e.Name, trunc(fmt.Sprintf("%+v", v.Interface())))), true)
		c.Label("type %s", e.Name)
		var doc []byte
		var err error
		if !g.Lenient {
			if c.Try("panic:MarshalJSON:"+e.Name, func() { doc, err = json.Marshal(v.Addr().Interface()) }) {
				return
			}
		} else {
			func() {
				defer func() {
					if recover() != nil {
						err = fmt.Errorf("panic")
					}
				}()
				doc, err = json.Marshal(v.Addr().Interface())
			}()
		}
		if err != nil {
			c.Outcome("marshal-error")
			if !g.Lenient {
				c.Fail("marshal-error:"+e.Name, "json.Marshal of an in-domain value failed: %v", err)
			}
			return
		}
		c.Sample(map[string]any{"type": e.Name, "json": trunc(string(doc))})
		if !json.Valid(doc) {
			c.Fail("invalid-json:"+e.Name, "MarshalJSON produced invalid JSON: %s", trunc(string(doc)))
			return
		}
		back := reflect.New(e.Type)
		if c.Try("panic:UnmarshalJSON:"+e.Name, func() { err = json.Unmarshal(doc, back.Interface()) }) {
			return
		}
		if err != nil {
			if g.Lenient {
				c.Outcome("unjudged-parse-error")
				return
			}
			c.Fail("parse-error:"+e.Name, "own JSON %s does not parse: %v", trunc(string(doc)), err)
			return
		}
		judged := v
		if g.Lenient {
			// judge the parsed value: print and parse it again
			var doc2 []byte
			if c.Try("panic:MarshalJSON2:"+e.Name, func() { doc2, err = json.Marshal(back.Interface()) }) {
				return
			}
			if err != nil {
				c.Outcome("unjudged-remarshal-error")
				return
			}
			judged = back.Elem()
			if excluded(judged) {
				c.Outcome("excluded")
				return
			}
			back = reflect.New(e.Type)
			if err := json.Unmarshal(doc2, back.Interface()); err != nil {
				c.Fail("parse-error-normalised:"+e.Name, "JSON %s of a parsed value does not parse: %v", trunc(string(doc2)), err)
				return
			}
			doc = doc2
		}
		if d := gen.Equal(judged, back.Elem()); d != "" {
			key := "json-roundtrip-differs:" + e.Name
			if len(doc) <= 24 {
				key += ":" + string(doc) // short documents identify the failing input exactly
			}
			if strings.HasSuffix(d, `SumType: "AddrExtern" vs "AddrNone"`) && string(doc) == `""` {
				key = `json-roundtrip-differs:tlb.MsgAddress:""` // the zero-length external address, possibly inside a wrapper
			}
			c.Fail(key, "parse(print(x)) != x at %s (json %s)", d, trunc(string(doc)))
			return
		}
		// a JSON scalar (string / number) replaces the value it is decoded into - encoding/json merges objects, never
		// scalars - so for the types whose JSON form is a scalar the result must not depend on what the destination
		// held before. Earlier occupants: values built with the 2nd / 3rd / last alternative at every choice.
		if len(doc) > 0 && (doc[0] == '"' || doc[0] == '-' || (doc[0] >= '0' && doc[0] <= '9')) && !g.Lenient {
			for _, pol := range []int{1, 2, -1} {
				pol := pol
				fg := &gen.G{C: enum.NewFixedCtx(func(n int, free bool) int {
					if pol < 0 || pol >= n {
						return n - 1
					}
					return pol
				}), Seed: seed + 3, Enums: registry.Enums}
				var pv reflect.Value
				okPrev := true
				func() {
					defer func() {
						if recover() != nil {
							okPrev = false
						}
					}()
					pv = fg.Make(e.Type, "")
				}()
				if !okPrev || fg.Lenient {
					continue
				}
				var pdoc []byte
				func() {
					defer func() {
						if recover() != nil {
							okPrev = false
						}
					}()
					pdoc, err = json.Marshal(pv.Addr().Interface())
				}()
				if !okPrev || err != nil || len(pdoc) == 0 || (pdoc[0] != '"' && pdoc[0] != '-' && (pdoc[0] < '0' || pdoc[0] > '9')) {
					continue
				}
				dst := reflect.New(e.Type)
				if json.Unmarshal(pdoc, dst.Interface()) != nil {
					continue
				}
				// a copy of the earlier value, taken the way Go programs take copies (assignment), keeps that value
				keep := reflect.New(e.Type).Elem()
				keep.Set(dst.Elem())
				var keepDoc []byte
				if kd, err := json.Marshal(keep.Addr().Interface()); err == nil {
					keepDoc = kd
				}
				if err := json.Unmarshal(doc, dst.Interface()); err != nil {
					c.Fail("parse-into-used-destination-error:"+e.Name, "own JSON %s parses into a fresh value but not into one that held %s: %v", trunc(string(doc)), trunc(string(pdoc)), err)
					return
				}
				if keepDoc != nil {
					if kd2, err := json.Marshal(keep.Addr().Interface()); err != nil || string(kd2) != string(keepDoc) {
						c.Fail("earlier-copy-changed:"+e.Name, "a copy of the value parsed from %s prints as %s (%v) after %s was parsed into the variable it was copied from", trunc(string(keepDoc)), trunc(string(kd2)), err, trunc(string(doc)))
						return
					}
				}
				if d := gen.Equal(judged, dst.Elem()); d != "" {
					c.Fail("parse-into-used-destination:"+e.Name, "the scalar document %s parsed into a value that held %s differs from the value at %s", trunc(string(doc)), trunc(string(pdoc)), d)
					return
				}
			}
		}
		// the bytes a type's own MarshalJSON returned stay what they were when the same method is called for another value
		if m, ok := v.Addr().Interface().(json.Marshaler); ok && !g.Lenient {
			var b1 []byte
			if !c.Try("panic:MarshalJSON-direct:"+e.Name, func() { b1, err = m.MarshalJSON() }) && err == nil && len(b1) > 0 {
				keep := append([]byte{}, b1...)
				fg := &gen.G{C: enum.NewFixedCtx(func(n int, free bool) int { return n - 1 }), Seed: seed + 5, Enums: registry.Enums}
				func() {
					defer func() { _ = recover() }()
					ov := fg.Make(e.Type, "")
					if om, ok := ov.Addr().Interface().(json.Marshaler); ok {
						_, _ = om.MarshalJSON()
						_, _ = om.MarshalJSON()
					}
				}()
				if string(b1) != string(keep) {
					c.Fail("marshal-result-changes-later:"+e.Name, "the bytes returned by MarshalJSON changed after MarshalJSON of another value: %s became %s", trunc(string(keep)), trunc(string(b1)))
					return
				}
			}
		}
		c.Outcome("ok")
		// malformed documents derived from this one
		if len(doc) <= 200 {
			malformed(c, e, doc)
		}
	}}})
	hs = append(hs, envelopeHarness(r))
	return hs
}

func malformed(c *enum.Ctx, e registry.Entry, doc []byte) {
	try := func(d []byte) {
		p := reflect.New(e.Type)
		c.Try("panic:UnmarshalJSON-malformed:"+e.Name, func() { _ = json.Unmarshal(d, p.Interface()) })
		// the type's own method is also reachable directly (json.Unmarshal filters invalid syntax first)
		if u, ok := p.Interface().(json.Unmarshaler); ok {
			c.Try("panic:UnmarshalJSON-direct:"+e.Name, func() { _ = u.UnmarshalJSON(d) })
		}
	}
	for i := 0; i <= len(doc); i++ {
		try(doc[:i])
	}
	for i := 0; i < len(doc); i++ {
		for _, ch := range []byte(`"\-x0}:_,`) {
			if doc[i] == ch {
				continue
			}
			d := append([]byte{}, doc...)
			d[i] = ch
			try(d)
		}
	}
}

func trunc(s string) string {
	if len(s) > 300 {
		return s[:300] + "…"
	}
	return s
}
