package c20

import (
	"encoding/json"
	"fmt"
	"reflect"
	"sort"

	"github.com/tonkeeper/tongo/abi"
	"github.com/tonkeeper/tongo/boc"

	"verif/fw"
	"verif/gen"
	"verif/gen/registry"
	"verif/mc/enum"
)

// envelope is one of the two message body envelopes of abi/messages.go, seen through one interface.
type envelope struct {
	kind  string
	known map[string]any
	make  func(sumType string, op *uint32, value any) any // pointer to a fresh envelope
	parts func(p any) (string, *uint32, any)
	fresh func() any
}

var envelopes = []envelope{
	{kind: "InMsgBody", known: abi.KnownMsgInTypes,
		make:  func(s string, op *uint32, v any) any { return &abi.InMsgBody{SumType: s, OpCode: op, Value: v} },
		parts: func(p any) (string, *uint32, any) { b := p.(*abi.InMsgBody); return b.SumType, b.OpCode, b.Value },
		fresh: func() any { return &abi.InMsgBody{} }},
	{kind: "ExtOutMsgBody", known: abi.KnownMsgExtOutTypes,
		make:  func(s string, op *uint32, v any) any { return &abi.ExtOutMsgBody{SumType: s, OpCode: op, Value: v} },
		parts: func(p any) (string, *uint32, any) { b := p.(*abi.ExtOutMsgBody); return b.SumType, b.OpCode, b.Value },
		fresh: func() any { return &abi.ExtOutMsgBody{} }},
}

func sortedNames(m map[string]any) []string {
	var out []string
	for k := range m {
		out = append(out, k)
	}
	sort.Strings(out)
	return out
}

func sameOp(a, b *uint32) bool {
	if a == nil || b == nil {
		return a == b
	}
	return *a == *b
}

// envelopeRoundTrip prints the envelope, parses the document, and judges the parsed envelope: its operation name and
// opcode are the printed ones, its value has the Go type registered for that name in this envelope's own table, and
// printing and parsing it again gives the same document and an equal value. It returns the key of the first failure.
func envelopeRoundTrip(c *enum.Ctx, ev envelope, name string, op *uint32, value any, lenient bool) (string, string) {
	var doc []byte
	var err error
	x := ev.make(name, op, value)
	if lenient {
		// the generated body may be outside its type's JSON domain: only what parses back is judged
		func() {
			defer func() {
				if recover() != nil {
					err = fmt.Errorf("panic")
				}
			}()
			doc, err = json.Marshal(x)
		}()
	} else if c.Try("panic:MarshalJSON:abi."+ev.kind+":"+name, func() { doc, err = json.Marshal(x) }) {
		return "", ""
	}
	if err != nil {
		c.Outcome("marshal-error")
		return "", ""
	}
	if !json.Valid(doc) {
		return "invalid-json:abi." + ev.kind + ":" + name, fmt.Sprintf("MarshalJSON produced invalid JSON: %s", trunc(string(doc)))
	}
	y := ev.fresh()
	if c.Try("panic:UnmarshalJSON:abi."+ev.kind+":"+name, func() { err = json.Unmarshal(doc, y) }) {
		return "", ""
	}
	if err != nil {
		if lenient {
			c.Outcome("unjudged-parse-error")
			return "", ""
		}
		return "parse-error:abi." + ev.kind + ":" + name, fmt.Sprintf("own JSON %s does not parse: %v", trunc(string(doc)), err)
	}
	yn, yop, yv := ev.parts(y)
	if yn != name || !sameOp(yop, op) {
		return "envelope-fields-differ:abi." + ev.kind + ":" + name, fmt.Sprintf("printed (%q,%v), parsed (%q,%v); json %s", name, op, yn, yop, trunc(string(doc)))
	}
	switch name {
	case abi.EmptyMsgOp:
	case abi.UnknownMsgOp:
		cell, ok := yv.(*boc.Cell)
		want, _ := value.(*boc.Cell)
		if !ok || cell == nil {
			return "envelope-value-type:abi." + ev.kind + ":" + name, fmt.Sprintf("an unknown body parses to %T, not a cell", yv)
		}
		if want != nil {
			h1, e1 := want.HashString()
			h2, e2 := cell.HashString()
			if e1 == nil && (e2 != nil || h1 != h2) {
				return "json-roundtrip-differs:abi." + ev.kind + ":" + name, fmt.Sprintf("cell %s came back as %s (%v)", h1, h2, e2)
			}
		}
	default:
		want := reflect.TypeOf(ev.known[name])
		if reflect.TypeOf(yv) != want {
			return "envelope-value-type:abi." + ev.kind + ":" + name, fmt.Sprintf("the body %q of %s parses to %T; its table registers %v", name, ev.kind, yv, want)
		}
	}
	// the parsed envelope is a value of the JSON domain for certain: it must be a fixed point
	var doc2 []byte
	if c.Try("panic:MarshalJSON2:abi."+ev.kind+":"+name, func() { doc2, err = json.Marshal(y) }) {
		return "", ""
	}
	if err != nil {
		return "remarshal-error:abi." + ev.kind + ":" + name, fmt.Sprintf("a parsed envelope does not print: %v (json %s)", err, trunc(string(doc)))
	}
	z := ev.fresh()
	if c.Try("panic:UnmarshalJSON2:abi."+ev.kind+":"+name, func() { err = json.Unmarshal(doc2, z) }) {
		return "", ""
	}
	if err != nil {
		return "parse-error-normalised:abi." + ev.kind + ":" + name, fmt.Sprintf("JSON %s of a parsed envelope does not parse: %v", trunc(string(doc2)), err)
	}
	zn, zop, zv := ev.parts(z)
	if zn != yn || !sameOp(zop, yop) || reflect.TypeOf(zv) != reflect.TypeOf(yv) {
		return "json-roundtrip-differs:abi." + ev.kind + ":" + name, fmt.Sprintf("parse(print(y)) has (%q,%v,%T), y has (%q,%v,%T)", zn, zop, zv, yn, yop, yv)
	}
	if name != abi.EmptyMsgOp && name != abi.UnknownMsgOp {
		a, b := reflect.New(reflect.TypeOf(yv)).Elem(), reflect.New(reflect.TypeOf(zv)).Elem()
		a.Set(reflect.ValueOf(yv))
		b.Set(reflect.ValueOf(zv))
		if d := gen.Equal(a, b); d != "" {
			return "json-roundtrip-differs:abi." + ev.kind + ":" + name, fmt.Sprintf("parse(print(y)) != y at %s (json %s)", d, trunc(string(doc2)))
		}
	}
	return "", ""
}

// envelopeHarness: the two message body envelopes over every operation name of their tables (plus the unknown and the
// empty body), with and without an opcode, for the zero body and for generated bodies. A name registered in both tables
// is first taken through the other envelope, so that nothing learnt there can leak into this one.
func envelopeHarness(r *fw.Run) fw.HarnessSpec {
	seed := int(r.Seed)
	type item struct {
		ev   int
		name string
	}
	var items []item
	for i, ev := range envelopes {
		for _, n := range sortedNames(ev.known) {
			items = append(items, item{i, n})
		}
		items = append(items, item{i, abi.UnknownMsgOp}, item{i, abi.EmptyMsgOp})
	}
	ops := []*uint32{nil, new(uint32), new(uint32), new(uint32)}
	*ops[2], *ops[3] = 0x0f8a7ea5, 0xffffffff
	return fw.HarnessSpec{Harness: enum.Harness{Name: "message-body-envelope", Bound: r.Pick(1, 3), MaxViolations: 100, Run: func(c *enum.Ctx) {
		if len(items) < 100 {
			c.Fail("registry", "only %d envelope names found", len(items))
			return
		}
		it := items[c.ChooseFree(len(items))]
		ev := envelopes[it.ev]
		op := ops[c.Choose(len(ops))]
		g := &gen.G{C: c, Seed: seed, Enums: registry.Enums}
		var value any
		switch it.name {
		case abi.EmptyMsgOp:
			if op != nil {
				c.Skip() // the empty body has no opcode: its JSON form is {}
				return
			}
		case abi.UnknownMsgOp:
			var v reflect.Value
			if c.Try("panic:generator:boc.Cell", func() { v = g.Make(reflect.TypeOf(boc.Cell{}), "") }) {
				return
			}
			value = v.Addr().Interface()
		default:
			var v reflect.Value
			t := reflect.TypeOf(ev.known[it.name])
			if c.Try("panic:generator:"+t.String(), func() { v = g.Make(t, "") }) {
				return
			}
			value = v.Interface()
		}
		c.Case([]byte(fmt.Sprintf("%s/%s/%v/%s", ev.kind, it.name, op != nil, trunc(fmt.Sprintf("%+v", value)))), it.name != abi.EmptyMsgOp)
		c.Label("envelope %s %q", ev.kind, it.name)
		// the same name in the other table: take its zero body through the other envelope first
		other := envelopes[1-it.ev]
		if o, ok := other.known[it.name]; ok {
			if key, msg := envelopeRoundTrip(c, other, it.name, op, reflect.Zero(reflect.TypeOf(o)).Interface(), true); key != "" {
				c.Fail(key, "%s", msg)
				return
			}
		}
		if key, msg := envelopeRoundTrip(c, ev, it.name, op, value, true); key != "" {
			c.Fail(key, "%s", msg)
			return
		}
		if o, ok := other.known[it.name]; ok {
			// and the other one once more afterwards
			if key, msg := envelopeRoundTrip(c, other, it.name, op, reflect.Zero(reflect.TypeOf(o)).Interface(), true); key != "" {
				c.Fail(key, "%s", msg)
				return
			}
		}
		// the bytes MarshalJSON returned are the caller's: marshalling other bodies afterwards (a batch being collected)
		// does not change them
		if m, ok := ev.make(it.name, op, value).(json.Marshaler); ok {
			var b1 []byte
			var err error
			func() {
				defer func() {
					if recover() != nil {
						err = fmt.Errorf("panic")
					}
				}()
				b1, err = m.MarshalJSON()
			}()
			if err == nil && len(b1) > 2 {
				keep := append([]byte{}, b1...)
				big := boc.NewCell()
				for i := 0; i < 100; i++ {
					_ = big.WriteUint(uint64(0xC0+i%16), 8)
				}
				for _, e2 := range envelopes {
					if m2, ok := e2.make(abi.UnknownMsgOp, nil, big).(json.Marshaler); ok {
						_, _ = m2.MarshalJSON()
					}
				}
				if string(b1) != string(keep) {
					c.Fail("marshal-result-changes-later:abi."+ev.kind, "the bytes returned by MarshalJSON for %q changed after other bodies were marshalled: %s became %s", it.name, trunc(string(keep)), trunc(string(b1)))
					return
				}
			}
		}
		// a rejected document leaves nothing behind: documents that are valid JSON but carry a field of the wrong type
		// are refused, and the empty body / this body parsed next are what they are on a fresh program
		for round := 0; round < 4; round++ {
			for _, bad := range []string{
				`{"SumType":"TextComment","OpCode":"0","Value":{"Text":"leftover"}}`,
				`{"SumType":"TextComment","OpCode":-1,"Value":{"Text":"leftover"}}`,
				`{"SumType":7,"OpCode":3,"Value":{"Text":"leftover"}}`,
			} {
				_ = json.Unmarshal([]byte(bad), ev.fresh())
				e := ev.fresh()
				if err := json.Unmarshal([]byte(`{}`), e); err != nil {
					c.Fail("empty-body-after-rejected-document:abi."+ev.kind, "{} does not parse after a rejected document: %v", err)
					return
				}
				if n, op, v := ev.parts(e); n != abi.EmptyMsgOp || op != nil || v != nil {
					c.Fail("empty-body-after-rejected-document:abi."+ev.kind, "{} parsed after the rejected document %s gives (%q,%v,%v), not the empty body", bad, n, op, v)
					return
				}
			}
		}
		c.Outcome("ok")
	}}}
}
