// Package tlbx holds helpers shared by the TL-B checks (C03, C04, C08, C16, C20).
package tlbx

import (
	"bytes"
	"fmt"
	"math/big"
	"reflect"
	"regexp"
	"strconv"

	tb "github.com/tonkeeper/tongo/boc"
	"github.com/tonkeeper/tongo/tlb"

	"verif/conv"
	"verif/gen"
	"verif/gen/registry"
	"verif/mc/enum"
	"verif/ref/bits"
	"verif/ref/cell"
)

var (
	intRe  = regexp.MustCompile(`^tlb\.(Uint|Int)(\d+)$`)
	varRe  = regexp.MustCompile(`^tlb\.VarUInteger(\d+)$`)
	bitsRe = regexp.MustCompile(`^tlb\.Bits(\d+)$`)
)

// IntKind describes a generated integer-like type.
type IntKind struct {
	Entry  registry.Entry
	Kind   string // "uint", "int", "var", "bits"
	N      int
	Values []*big.Int // full alphabet (exhaustive for N <= 10)
}

// IntegerTypes returns the generated integer / bits / VarUInteger types found in the registry.
func IntegerTypes(seed int) []IntKind {
	var out []IntKind
	for _, e := range registry.ByPackage("tlb.") {
		if m := intRe.FindStringSubmatch(e.Name); m != nil {
			n, _ := strconv.Atoi(m[2])
			k := IntKind{Entry: e, N: n}
			if m[1] == "Uint" {
				k.Kind = "uint"
				if n <= 10 {
					for v := 0; v < 1<<uint(n); v++ {
						k.Values = append(k.Values, big.NewInt(int64(v)))
					}
				} else {
					k.Values = gen.UintAlphabet(n, seed)
				}
			} else {
				k.Kind = "int"
				if n <= 10 {
					for v := -(1 << uint(n-1)); v < 1<<uint(n-1); v++ {
						k.Values = append(k.Values, big.NewInt(int64(v)))
					}
				} else {
					k.Values = gen.IntAlphabet(n, seed)
				}
			}
			out = append(out, k)
		} else if m := varRe.FindStringSubmatch(e.Name); m != nil {
			n, _ := strconv.Atoi(m[1])
			out = append(out, IntKind{Entry: e, Kind: "var", N: n, Values: gen.VarUintAlphabet(n)})
		} else if m := bitsRe.FindStringSubmatch(e.Name); m != nil {
			n, _ := strconv.Atoi(m[1])
			vals := []*big.Int{big.NewInt(0), new(big.Int).Sub(new(big.Int).Lsh(big.NewInt(1), uint(n)), big.NewInt(1)), bits.Pattern(seed, n).Uint(), big.NewInt(1), new(big.Int).Lsh(big.NewInt(1), uint(n-1))}
			out = append(out, IntKind{Entry: e, Kind: "bits", N: n, Values: vals})
		}
	}
	return out
}

// SetInt stores x into a value of an integer-like registry type.
func SetInt(v reflect.Value, k IntKind, x *big.Int) {
	t := v.Type()
	switch {
	case k.Kind == "bits":
		b := bits.FromUint(x, k.N).Bytes()
		for i := 0; i < v.Len(); i++ {
			v.Index(i).SetUint(uint64(b[i]))
		}
	case t.Kind() == reflect.Struct:
		v.Set(reflect.ValueOf(*new(big.Int).Set(x)).Convert(t))
	case t.Kind() == reflect.Bool:
		v.SetBool(x.Sign() != 0)
	case t.Kind() >= reflect.Int && t.Kind() <= reflect.Int64:
		v.SetInt(x.Int64())
	default:
		v.SetUint(x.Uint64())
	}
}

// RefBits is the encoding the TL-B schema prescribes for the integer-like type.
func RefBits(k IntKind, x *big.Int) bits.Bits {
	switch k.Kind {
	case "uint", "bits":
		return bits.FromUint(x, k.N)
	case "int":
		return bits.FromInt(x, k.N)
	default: // VarUInteger n: len:(#< n) value:(uint (len * 8)), minimal len
		l := (x.BitLen() + 7) / 8
		lw := 0
		for 1<<uint(lw) < k.N {
			lw++
		}
		out := bits.FromUint(big.NewInt(int64(l)), lw)
		return append(out, bits.FromUint(x, 8*l)...)
	}
}

// CellBits returns bits and refs of a tongo cell as a reference cell (masking anything after the length).
func CellBits(c *tb.Cell) (bits.Bits, *cell.Cell, error) {
	rc, err := conv.FromTongo(c)
	if err != nil {
		return nil, nil, err
	}
	return bits.FromBytes(rc.Data, rc.BitLen), rc, nil
}

func hashOf(c *tb.Cell) string {
	rc, err := conv.FromTongo(c)
	if err != nil {
		return "err:" + err.Error()
	}
	h := rc.ReprHash()
	return string(h[:])
}

func reverseStack(v reflect.Value) reflect.Value {
	n := v.Len()
	out := reflect.MakeSlice(v.Type(), n, n)
	for i := 0; i < n; i++ {
		out.Index(i).Set(v.Index(n - 1 - i))
	}
	p := reflect.New(v.Type())
	p.Elem().Set(out)
	return p.Elem()
}

var vmStackType = reflect.TypeOf(tlb.VmStack{})

// RoundTrip applies the C03 oracle to value v (addressable) of type t.
// strict: v is in the type's TL-B domain by construction, so decode(encode(v)) must equal v.
// Otherwise only the decoder-derived value v1 = decode(encode(v)) is judged.
// It returns an outcome class.
func RoundTrip(c *enum.Ctx, name string, v reflect.Value, strict bool) string {
	t := v.Type()
	enc1 := tb.NewCell()
	var err error
	if !strict {
		// the value may be outside the type's TL-B domain: a panic of the first encode is not judged
		panicked := false
		func() {
			defer func() {
				if recover() != nil {
					panicked = true
				}
			}()
			err = tlb.Marshal(enc1, v.Interface())
		}()
		if panicked {
			return "unjudged-encode-panic"
		}
	} else if c.Try("panic:Marshal:"+name, func() { err = tlb.Marshal(enc1, v.Interface()) }) {
		return "panic"
	}
	if err != nil {
		return "encode-error"
	}
	h1 := hashOf(enc1)
	// the Encoder type is the same codec behind another entry point
	{
		encE := tb.NewCell()
		var eerr error
		panicked := false
		func() {
			defer func() {
				if recover() != nil {
					panicked = true
				}
			}()
			eerr = (&tlb.Encoder{}).Marshal(encE, v.Interface())
		}()
		if panicked || eerr != nil || hashOf(encE) != h1 {
			c.Fail("encoder-entry-points-differ:"+name, "tlb.Marshal and Encoder.Marshal of the same value differ (panic=%v err=%v)", panicked, eerr)
		}
	}
	decode := func(cellv *tb.Cell, tag string) (reflect.Value, error) {
		cellv.ResetCounters()
		p := reflect.New(t)
		var derr error
		if c.Try("panic:Unmarshal:"+name, func() { derr = tlb.Unmarshal(cellv, p.Interface()) }) {
			return p.Elem(), fmt.Errorf("panic")
		}
		cellv.ResetCounters()
		if derr == nil {
			// the caching decoder must agree
			p2 := reflect.New(t)
			var derr2 error
			c.Try("panic:Decoder.Unmarshal:"+name, func() { derr2 = tlb.NewDecoder().Unmarshal(cellv, p2.Interface()) })
			cellv.ResetCounters()
			if derr2 != nil {
				c.Fail("decoder-disagrees:"+name, "tlb.Unmarshal succeeds but NewDecoder().Unmarshal fails: %v", derr2)
			} else if d := gen.Equal(p.Elem(), p2.Elem()); d != "" {
				c.Fail("decoder-disagrees:"+name, "tlb.Unmarshal and NewDecoder().Unmarshal differ at %s", d)
			}
			// a decoder that can resolve libraries: wherever the plain decoder keeps a library cell as it is (cell-typed
			// fields), so must this one; it may only differ by succeeding where the plain decoder cannot
			p3 := reflect.New(t)
			var derr3 error
			resolver := func(hash tlb.Bits256) (*tb.Cell, error) {
				lc := tb.NewCell()
				_ = lc.WriteUint(0xD1CE, 16)
				return lc, nil
			}
			c.Try("panic:Decoder(resolver).Unmarshal:"+name, func() { derr3 = tlb.NewDecoder().WithLibraryResolver(resolver).Unmarshal(cellv, p3.Interface()) })
			cellv.ResetCounters()
			if derr3 == nil {
				if d := gen.Equal(p.Elem(), p3.Elem()); d != "" {
					c.Fail("resolver-decoder-disagrees:"+name, "a decoder with a library resolver decodes the same cell to a different value at %s", d)
				}
			}
		}
		return p.Elem(), derr
	}
	v1, err := decode(enc1, "1")
	if err != nil {
		if c.Failed() {
			return "panic"
		}
		if strict {
			c.Fail("decode-error:"+name, "own encoding of an in-domain value cannot be decoded: %v", err)
			return "decode-error"
		}
		return "unjudged-decode-error"
	}
	if strict {
		want := v
		if t == vmStackType {
			want = reverseStack(v)
		}
		if d := gen.Equal(want, v1); d != "" {
			c.Fail("roundtrip-differs:"+name, "decode(encode(x)) != x at %s", d)
			return "differs"
		}
	}
	// encode the decoded value again
	src := v1
	if t == vmStackType {
		src = reverseStack(v1)
	}
	enc2 := tb.NewCell()
	if c.Try("panic:Marshal2:"+name, func() { err = tlb.Marshal(enc2, src.Interface()) }) {
		return "panic"
	}
	if err != nil {
		if strict {
			c.Fail("reencode-error:"+name, "value equal to the original no longer encodes: %v", err)
		}
		return "reencode-error"
	}
	h2 := hashOf(enc2)
	if strict && h1 != h2 {
		c.Fail("reencode-hash:"+name, "encoding the decoded value gives a different cell")
		return "differs"
	}
	if !strict {
		v2, err := decode(enc2, "2")
		if err != nil {
			c.Fail("decode-error-normalised:"+name, "encoding of a decoder-produced value cannot be decoded: %v", err)
			return "decode-error"
		}
		want := v1
		if t == vmStackType {
			want = reverseStack(v1)
			want = reverseStack(want)
		}
		if d := gen.Equal(want, v2); d != "" {
			c.Fail("roundtrip-differs-normalised:"+name, "decode(encode(y)) != y for a decoder-produced y at %s", d)
			return "differs"
		}
		src2 := v2
		if t == vmStackType {
			src2 = reverseStack(v2)
		}
		enc3 := tb.NewCell()
		if c.Try("panic:Marshal3:"+name, func() { err = tlb.Marshal(enc3, src2.Interface()) }) {
			return "panic"
		}
		if err != nil || hashOf(enc3) != h2 {
			c.Fail("reencode-hash-normalised:"+name, "re-encoding a decoder-produced value is not stable (%v)", err)
			return "differs"
		}
		return "ok-normalised"
	}
	return "ok"
}

// EqualBytes is a tiny helper.
func EqualBytes(a, b []byte) bool { return bytes.Equal(a, b) }
