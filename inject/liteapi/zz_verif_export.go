//go:build verif

package liteapi

// Added to the package through the build overlay by /verif's check commands (not part of the repository).

import (
	"github.com/tonkeeper/tongo/liteclient"
	"github.com/tonkeeper/tongo/tlb"
	"github.com/tonkeeper/tongo/ton"
)

func VerifDecodeAccountDataFromProof(b []byte, a ton.AccountID) (uint64, tlb.Bits256, error) {
	return decodeAccountDataFromProof(b, a)
}

func VerifDecodeBlockHeader(h liteclient.LiteServerBlockHeaderC) (ton.BlockIDExt, tlb.BlockInfo, error) {
	return decodeBlockHeader(h)
}
