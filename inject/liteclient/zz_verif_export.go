//go:build verif

package liteclient

// This file is NOT part of the repository: it is added to the package through the build overlay
// by /verif's check commands. It only adds constructors and accessors for unexported pieces.

import (
	"crypto/cipher"
	"net"
	"time"
)

type verifNullStream struct{}

func (verifNullStream) XORKeyStream(dst, src []byte) { copy(dst, src) }

// VerifSyncConn is a net.Conn that hands every written frame (plaintext: the cipher is the identity)
// to Handler and delivers the handler's answer payload synchronously to the client's query registry.
type VerifSyncConn struct {
	Frames  [][]byte
	Handler func(framePayload []byte) (answerPayload []byte)
	client  *Client
}

func (v *VerifSyncConn) Write(b []byte) (int, error) {
	f := append([]byte{}, b...)
	v.Frames = append(v.Frames, f)
	if v.Handler != nil && len(f) >= 68 {
		if ans := v.Handler(f[36 : len(f)-32]); ans != nil {
			_ = v.client.processQueryAnswer(Packet{Payload: ans})
		}
	}
	return len(b), nil
}
func (v *VerifSyncConn) Read(b []byte) (int, error)         { select {} }
func (v *VerifSyncConn) Close() error                       { return nil }
func (v *VerifSyncConn) LocalAddr() net.Addr                { return nil }
func (v *VerifSyncConn) RemoteAddr() net.Addr               { return nil }
func (v *VerifSyncConn) SetDeadline(t time.Time) error      { return nil }
func (v *VerifSyncConn) SetReadDeadline(t time.Time) error  { return nil }
func (v *VerifSyncConn) SetWriteDeadline(t time.Time) error { return nil }

// VerifNewSyncClient builds a Client over a connected Connection whose socket is a VerifSyncConn; no goroutine is started.
func VerifNewSyncClient(timeout time.Duration) (*Client, *VerifSyncConn) {
	vc := &VerifSyncConn{}
	var ci cipher.Stream = verifNullStream{}
	conn := &Connection{status: Connected, resp: make(chan Packet), econn: &encryptedConn{cipher: ci, decipher: ci, conn: vc}}
	c := &Client{timeout: timeout, connections: []*Connection{conn}, queries: make(map[queryID]chan []byte)}
	vc.client = c
	return c, vc
}

func VerifDecodeLength(b []byte) (int, []byte, error) { return decodeLength(b) }

func (c *Client) VerifProcessQueryAnswer(payload []byte) error {
	return c.processQueryAnswer(Packet{Payload: payload})
}

// VerifRegisterQuery registers a pending query id (as Request does) and returns its channel.
func (c *Client) VerifRegisterQuery(id [32]byte) chan []byte { return c.registerCallback(id) }

func VerifRequestDecoderIDs() []uint32 {
	var out []uint32
	for id := range taggedRequestDecodeFunctions {
		out = append(out, id)
	}
	return out
}

// VerifMarshal returns the plaintext frame of p (what Connection.Send encrypts).
func VerifMarshal(p Packet) []byte { return p.marshal() }

// VerifNonce returns the nonce NewPacket drew for p.
func VerifNonce(p Packet) [32]byte { return p.nonce }
