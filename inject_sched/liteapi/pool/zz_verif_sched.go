//go:build verif

package pool

// Added to the package through the build overlay by /verif's C13 check (not part of the repository).

import (
	"context"
	"time"

	"github.com/tonkeeper/tongo/liteclient"
	"github.com/tonkeeper/tongo/ton"
)

// VerifMock is a pooled connection with scripted properties (selection grid).
type VerifMock struct {
	Id    int
	Seqno uint32
	OK    bool
	RTT   time.Duration
}

func (m *VerifMock) ID() int { return m.Id }
func (m *VerifMock) MasterHead() ton.BlockIDExt {
	return ton.BlockIDExt{BlockID: ton.BlockID{Seqno: m.Seqno}}
}
func (m *VerifMock) SetMasterHead(ton.BlockIDExt)    {}
func (m *VerifMock) IsOK() bool                      { return m.OK }
func (m *VerifMock) Client() *liteclient.Client      { return nil }
func (m *VerifMock) Run(context.Context, bool)       {}
func (m *VerifMock) IsArchiveNode() bool             { return false }
func (m *VerifMock) AverageRoundTrip() time.Duration { return m.RTT }
func (m *VerifMock) Status() ConnStatus              { return ConnStatus{} }

var _ conn = &VerifMock{}

// VerifNewMockPool builds a pool over mocks with the given previous best (index, -1 = none).
func VerifNewMockPool(strategy Strategy, mocks []*VerifMock, best int) *ConnPool {
	p := New(strategy)
	for _, m := range mocks {
		p.conns = append(p.conns, m)
	}
	if best >= 0 {
		p.bestConn = mocks[best]
	}
	return p
}

func (p *ConnPool) VerifUpdateBest() { p.updateBest() }

// VerifBestID returns the id of the best connection (-1 if none).
func (p *ConnPool) VerifBestID() int {
	c := p.bestConnection()
	if c == nil {
		return -1
	}
	return c.ID()
}

// VerifRealConn is the pool's own connection type (real SetMasterHead / MasterHead).
type VerifRealConn = connection

// VerifNewRealPool builds a pool with n real connection objects (client without sockets); connection 0 is the best one.
func VerifNewRealPool(strategy Strategy, n int) (*ConnPool, []*VerifRealConn) {
	p := New(strategy)
	var out []*VerifRealConn
	for i := 0; i < n; i++ {
		c := p.addConnection(i, &liteclient.Client{}, "host")
		out = append(out, c)
	}
	return p, out
}

// VerifSetBest switches the best connection (as updateBest would).
func (p *ConnPool) VerifSetBest(c *VerifRealConn) {
	p.mu.Lock()
	p.bestConn = c
	p.mu.Unlock()
}

// VerifWaiters returns the number of registered waiters.
func (p *ConnPool) VerifWaiters() int {
	p.mu.RLock()
	defer p.mu.RUnlock()
	return len(p.waitList)
}
