// Package instr is the source instrumenter of engine E2: it rewrites the packages under test so that
// every goroutine spawn, lock, channel operation, select, timer, context deadline, socket operation and
// random draw goes through the shim packages (verif/shim/...). Nothing in /repo is modified: the rewritten
// files are written to a scratch directory and supplied to the build through -overlay.
package instr

import (
	"bytes"
	"fmt"
	"go/ast"
	"go/format"
	"go/token"
	"go/types"
	"os"
	"path/filepath"
	"strconv"
	"strings"

	"golang.org/x/tools/go/ast/astutil"
	"golang.org/x/tools/go/packages"
)

var importMap = map[string]string{
	"sync":        "verif/shim/vsync",
	"time":        "verif/shim/vtimes",
	"context":     "verif/shim/vctx",
	"net":         "verif/shim/vnet",
	"math/rand":   "verif/shim/vrand",
	"crypto/rand": "verif/shim/vcrand",
}

// Unsupported constructs make the instrumenter fail loudly (no verdict) rather than mis-model the code.
var forbiddenImports = []string{"sync/atomic"}

// Run instruments the given package patterns (relative to repo) and returns overlay replacements.
func Run(repo, outDir string, patterns []string) (map[string]string, error) {
	cfg := &packages.Config{Mode: packages.NeedName | packages.NeedFiles | packages.NeedCompiledGoFiles | packages.NeedSyntax | packages.NeedTypes | packages.NeedTypesInfo | packages.NeedImports | packages.NeedDeps,
		Dir: repo, Env: append(os.Environ(), "GOFLAGS=-mod=mod", "GOPROXY=off", "GOSUMDB=off", "GOTOOLCHAIN=local", "CGO_ENABLED=0")}
	pkgs, err := packages.Load(cfg, patterns...)
	if err != nil {
		return nil, err
	}
	repl := map[string]string{}
	for _, p := range pkgs {
		if len(p.Errors) > 0 {
			return nil, fmt.Errorf("package %s: %v", p.PkgPath, p.Errors[0])
		}
		for i, f := range p.Syntax {
			name := p.CompiledGoFiles[i]
			if strings.HasSuffix(name, "_test.go") {
				continue
			}
			r := &rewriter{info: p.TypesInfo, fset: p.Fset, file: f, fname: filepath.Base(name)}
			if err := r.rewrite(); err != nil {
				return nil, fmt.Errorf("%s: %v", name, err)
			}
			if !r.changed {
				continue
			}
			var buf bytes.Buffer
			if err := format.Node(&buf, p.Fset, f); err != nil {
				return nil, fmt.Errorf("%s: print: %v", name, err)
			}
			dst := filepath.Join(outDir, "instr_"+strings.ReplaceAll(strings.TrimPrefix(name, repo+"/"), "/", "_"))
			if err := os.WriteFile(dst, buf.Bytes(), 0o644); err != nil {
				return nil, err
			}
			repl[name] = dst
		}
	}
	return repl, nil
}

type rewriter struct {
	info    *types.Info
	fset    *token.FileSet
	file    *ast.File
	fname   string
	changed bool
	needVS  bool
	counter int
	err     error
	// access pass
	mapIdx   map[*ast.IndexExpr]string
	mapCalls map[*ast.CallExpr]string
}

func (r *rewriter) tmp(prefix string) string {
	r.counter++
	return fmt.Sprintf("__%s%d", prefix, r.counter)
}

func vs(name string) ast.Expr {
	return &ast.SelectorExpr{X: ast.NewIdent("__vs"), Sel: ast.NewIdent(name)}
}

func call(fun ast.Expr, args ...ast.Expr) *ast.CallExpr { return &ast.CallExpr{Fun: fun, Args: args} }

func (r *rewriter) isChan(e ast.Expr) bool {
	t := r.info.TypeOf(e)
	if t == nil {
		return false
	}
	_, ok := t.Underlying().(*types.Chan)
	return ok
}

func (r *rewriter) isMap(e ast.Expr) bool {
	t := r.info.TypeOf(e)
	if t == nil {
		return false
	}
	_, ok := t.Underlying().(*types.Map)
	return ok
}

func (r *rewriter) pos(n ast.Node) string {
	p := r.fset.Position(n.Pos())
	return fmt.Sprintf("%s:%d", r.fname, p.Line)
}

func (r *rewriter) rewrite() error {
	// imports
	for _, imp := range r.file.Imports {
		path, _ := strconv.Unquote(imp.Path.Value)
		for _, f := range forbiddenImports {
			if path == f {
				return fmt.Errorf("import %q is not modelled by the scheduler shims", path)
			}
		}
		if to, ok := importMap[path]; ok {
			name := filepath.Base(path)
			if imp.Name != nil {
				name = imp.Name.Name
			}
			imp.Name = ast.NewIdent(name)
			imp.Path.Value = strconv.Quote(to)
			r.changed = true
		}
	}
	astutil.Apply(r.file, r.pre, r.post)
	if r.err != nil {
		return r.err
	}
	// memory accesses for the race detector: struct fields reached through pointers, package-level variables, maps
	r.mapIdx = map[*ast.IndexExpr]string{}
	r.mapCalls = map[*ast.CallExpr]string{}
	astutil.Apply(r.file, r.preAcc, r.postAcc)
	if r.err != nil {
		return r.err
	}
	if r.needVS {
		astutil.AddNamedImport(r.fset, r.file, "__vs", "verif/shim/vsync")
		r.changed = true
	}
	return nil
}

func (r *rewriter) pre(c *astutil.Cursor) bool {
	switch n := c.Node().(type) {
	case *ast.AssignStmt:
		// v, ok := <-ch
		if len(n.Lhs) == 2 && len(n.Rhs) == 1 {
			if u, ok := n.Rhs[0].(*ast.UnaryExpr); ok && u.Op == token.ARROW {
				n.Rhs[0] = call(vs("Recv2"), u.X)
				r.needVS = true
			}
		}
	}
	return true
}

// vsCall matches a call __vs.<name>(args...) produced by an earlier rewrite.
func vsCall(e ast.Expr, name string) ([]ast.Expr, bool) {
	ce, ok := e.(*ast.CallExpr)
	if !ok {
		return nil, false
	}
	se, ok := ce.Fun.(*ast.SelectorExpr)
	if !ok || se.Sel.Name != name {
		return nil, false
	}
	if id, ok := se.X.(*ast.Ident); !ok || id.Name != "__vs" {
		return nil, false
	}
	return ce.Args, true
}

func recvChan(e ast.Expr) (ast.Expr, bool) {
	if u, ok := e.(*ast.UnaryExpr); ok && u.Op == token.ARROW {
		return u.X, true
	}
	if a, ok := vsCall(e, "Recv"); ok {
		return a[0], true
	}
	if a, ok := vsCall(e, "Recv2"); ok {
		return a[0], true
	}
	return nil, false
}

func (r *rewriter) post(c *astutil.Cursor) bool {
	switch n := c.Node().(type) {
	case *ast.SelectStmt:
		c.Replace(r.rewriteSelect(n))
		r.needVS = true
	case *ast.RangeStmt:
		if r.isChan(n.X) {
			c.Replace(r.rewriteRangeChan(n))
			r.needVS = true
		} else if r.isMap(n.X) {
			if st := r.rewriteRangeMap(n); st != nil {
				c.Replace(st)
				r.needVS = true
			}
		}
	case *ast.GoStmt:
		c.Replace(r.rewriteGo(n))
		r.needVS = true
	case *ast.SendStmt:
		c.Replace(&ast.ExprStmt{X: call(vs("Send"), n.Chan, n.Value)})
		r.needVS = true
	case *ast.UnaryExpr:
		if n.Op == token.ARROW {
			c.Replace(call(vs("Recv"), n.X))
			r.needVS = true
		}
	case *ast.CallExpr:
		if id, ok := n.Fun.(*ast.Ident); ok && len(n.Args) == 1 {
			if _, isBuiltin := r.info.Uses[id].(*types.Builtin); isBuiltin {
				switch id.Name {
				case "close":
					c.Replace(call(vs("Close"), n.Args[0]))
					r.needVS = true
				case "len":
					if r.isChan(n.Args[0]) {
						c.Replace(call(vs("Len"), n.Args[0]))
						r.needVS = true
					}
				}
			}
		}
	}
	return true
}

func (r *rewriter) rewriteGo(g *ast.GoStmt) ast.Stmt {
	var stmts []ast.Stmt
	fn := r.tmp("f")
	stmts = append(stmts, &ast.AssignStmt{Lhs: []ast.Expr{ast.NewIdent(fn)}, Tok: token.DEFINE, Rhs: []ast.Expr{g.Call.Fun}})
	var args []ast.Expr
	for _, a := range g.Call.Args {
		an := r.tmp("a")
		stmts = append(stmts, &ast.AssignStmt{Lhs: []ast.Expr{ast.NewIdent(an)}, Tok: token.DEFINE, Rhs: []ast.Expr{a}})
		args = append(args, ast.NewIdent(an))
	}
	inner := &ast.CallExpr{Fun: ast.NewIdent(fn), Args: args, Ellipsis: g.Call.Ellipsis}
	name := "go@" + r.pos(g)
	lit := &ast.FuncLit{Type: &ast.FuncType{Params: &ast.FieldList{}}, Body: &ast.BlockStmt{List: []ast.Stmt{&ast.ExprStmt{X: inner}}}}
	stmts = append(stmts, &ast.ExprStmt{X: call(vs("Go"), &ast.BasicLit{Kind: token.STRING, Value: strconv.Quote(name)}, lit)})
	return &ast.BlockStmt{List: stmts}
}

func (r *rewriter) rewriteRangeChan(n *ast.RangeStmt) ast.Stmt {
	// for { v, ok := Recv2(ch); if !ok { break }; body }
	okName := r.tmp("ok")
	var lhs ast.Expr = ast.NewIdent("_")
	tok := token.DEFINE
	if n.Key != nil {
		lhs = n.Key
		if n.Tok == token.ASSIGN {
			tok = token.ASSIGN
		}
	}
	var decl ast.Stmt
	if tok == token.ASSIGN {
		decl = &ast.BlockStmt{List: []ast.Stmt{
			&ast.DeclStmt{Decl: &ast.GenDecl{Tok: token.VAR, Specs: []ast.Spec{&ast.ValueSpec{Names: []*ast.Ident{ast.NewIdent(okName)}, Type: ast.NewIdent("bool")}}}},
		}}
		_ = decl
		r.err = fmt.Errorf("%s: range over channel with '=' is not supported", r.pos(n))
		return n
	}
	assign := &ast.AssignStmt{Lhs: []ast.Expr{lhs, ast.NewIdent(okName)}, Tok: token.DEFINE, Rhs: []ast.Expr{call(vs("Recv2"), n.X)}}
	brk := &ast.IfStmt{Cond: &ast.UnaryExpr{Op: token.NOT, X: ast.NewIdent(okName)}, Body: &ast.BlockStmt{List: []ast.Stmt{&ast.BranchStmt{Tok: token.BREAK}}}}
	body := append([]ast.Stmt{assign, brk}, n.Body.List...)
	return &ast.ForStmt{Body: &ast.BlockStmt{List: body}}
}

func (r *rewriter) rewriteRangeMap(n *ast.RangeStmt) ast.Stmt {
	mt := r.info.TypeOf(n.X).Underlying().(*types.Map)
	if b, ok := mt.Key().Underlying().(*types.Basic); !ok || b.Info()&(types.IsOrdered) == 0 {
		r.err = fmt.Errorf("%s: range over a map with non-ordered key type %s is not modelled", r.pos(n), mt.Key())
		return nil
	}
	if n.Tok == token.ASSIGN {
		r.err = fmt.Errorf("%s: range over map with '=' is not supported", r.pos(n))
		return nil
	}
	// for _, k := range SortedKeys(m) { v, present := m[k]; if !present { continue }; body }
	mName := r.tmp("m")
	kName := r.tmp("k")
	var pre []ast.Stmt
	if n.Key != nil {
		if id, ok := n.Key.(*ast.Ident); !ok || id.Name != "_" {
			pre = append(pre, &ast.AssignStmt{Lhs: []ast.Expr{n.Key}, Tok: token.DEFINE, Rhs: []ast.Expr{ast.NewIdent(kName)}})
			pre = append(pre, &ast.AssignStmt{Lhs: []ast.Expr{ast.NewIdent("_")}, Tok: token.ASSIGN, Rhs: []ast.Expr{n.Key}})
		}
	}
	present := r.tmp("p")
	var vLhs ast.Expr = ast.NewIdent("_")
	if n.Value != nil {
		vLhs = n.Value
	}
	look := &ast.AssignStmt{Lhs: []ast.Expr{vLhs, ast.NewIdent(present)}, Tok: token.DEFINE, Rhs: []ast.Expr{&ast.IndexExpr{X: ast.NewIdent(mName), Index: ast.NewIdent(kName)}}}
	skip := &ast.IfStmt{Cond: &ast.UnaryExpr{Op: token.NOT, X: ast.NewIdent(present)}, Body: &ast.BlockStmt{List: []ast.Stmt{&ast.BranchStmt{Tok: token.CONTINUE}}}}
	var useV []ast.Stmt
	if n.Value != nil {
		if id, ok := n.Value.(*ast.Ident); ok && id.Name != "_" {
			useV = append(useV, &ast.AssignStmt{Lhs: []ast.Expr{ast.NewIdent("_")}, Tok: token.ASSIGN, Rhs: []ast.Expr{n.Value}})
		}
	}
	body := append(append(append([]ast.Stmt{look, skip}, useV...), pre...), n.Body.List...)
	loop := &ast.RangeStmt{Key: ast.NewIdent("_"), Value: ast.NewIdent(kName), Tok: token.DEFINE, X: call(vs("SortedKeys"), ast.NewIdent(mName)), Body: &ast.BlockStmt{List: body}}
	return &ast.BlockStmt{List: []ast.Stmt{
		&ast.AssignStmt{Lhs: []ast.Expr{ast.NewIdent(mName)}, Tok: token.DEFINE, Rhs: []ast.Expr{call(vs("MR"), n.X, r.site(n))}},
		loop,
	}}
}

func (r *rewriter) rewriteSelect(n *ast.SelectStmt) ast.Stmt {
	sel := r.tmp("sel")
	stmts := []ast.Stmt{&ast.AssignStmt{Lhs: []ast.Expr{ast.NewIdent(sel)}, Tok: token.DEFINE, Rhs: []ast.Expr{call(vs("NewSel"))}}}
	hasDefault := false
	var clauses []ast.Stmt
	idx := 0
	for _, cl := range n.Body.List {
		cc := cl.(*ast.CommClause)
		if cc.Comm == nil {
			hasDefault = true
			clauses = append(clauses, &ast.CaseClause{List: []ast.Expr{&ast.UnaryExpr{Op: token.SUB, X: &ast.BasicLit{Kind: token.INT, Value: "1"}}}, Body: cc.Body})
			continue
		}
		caseLit := &ast.BasicLit{Kind: token.INT, Value: strconv.Itoa(idx)}
		var body []ast.Stmt
		switch cm := cc.Comm.(type) {
		case *ast.SendStmt:
			stmts = append(stmts, &ast.ExprStmt{X: call(vs("AddSend"), ast.NewIdent(sel), cm.Chan, cm.Value)})
		case *ast.ExprStmt:
			if a, ok := vsCall(cm.X, "Send"); ok {
				stmts = append(stmts, &ast.ExprStmt{X: call(vs("AddSend"), ast.NewIdent(sel), a[0], a[1])})
				break
			}
			ch, ok := recvChan(cm.X)
			if !ok {
				r.err = fmt.Errorf("%s: unsupported select case", r.pos(cc))
				return n
			}
			stmts = append(stmts, &ast.ExprStmt{X: call(vs("AddRecv"), ast.NewIdent(sel), ch)})
		case *ast.AssignStmt:
			ch, ok := recvChan(cm.Rhs[0])
			if !ok {
				r.err = fmt.Errorf("%s: unsupported select case", r.pos(cc))
				return n
			}
			cn := r.tmp("c")
			stmts = append(stmts, &ast.AssignStmt{Lhs: []ast.Expr{ast.NewIdent(cn)}, Tok: token.DEFINE, Rhs: []ast.Expr{call(vs("AddRecv"), ast.NewIdent(sel), ch)}})
			lhs := append([]ast.Expr{}, cm.Lhs...)
			if len(lhs) == 1 {
				lhs = append(lhs, ast.NewIdent("_"))
			}
			body = append(body, &ast.AssignStmt{Lhs: lhs, Tok: cm.Tok, Rhs: []ast.Expr{call(&ast.SelectorExpr{X: ast.NewIdent(cn), Sel: ast.NewIdent("Get")})}})
			// silence "declared and not used" for variables the original body does not use: Go reports that at compile time anyway
		default:
			r.err = fmt.Errorf("%s: unsupported select case", r.pos(cc))
			return n
		}
		clauses = append(clauses, &ast.CaseClause{List: []ast.Expr{caseLit}, Body: append(body, cc.Body...)})
		idx++
	}
	def := "false"
	if hasDefault {
		def = "true"
	}
	// a select is a terminating statement when all its clauses are: keep that property for the switch
	clauses = append(clauses, &ast.CaseClause{Body: []ast.Stmt{&ast.ExprStmt{X: call(ast.NewIdent("panic"), &ast.BasicLit{Kind: token.STRING, Value: strconv.Quote("vsync: select index out of range")})}}})
	sw := &ast.SwitchStmt{Tag: call(&ast.SelectorExpr{X: ast.NewIdent(sel), Sel: ast.NewIdent("Wait")}, ast.NewIdent(def)), Body: &ast.BlockStmt{List: clauses}}
	stmts = append(stmts, sw)
	return &ast.BlockStmt{List: stmts}
}

// ---- access pass ---------------------------------------------------------------------------------------------

func (r *rewriter) site(n ast.Node) ast.Expr {
	return &ast.BasicLit{Kind: token.STRING, Value: strconv.Quote(r.pos(n))}
}

func isShimType(t types.Type) bool {
	if p, ok := t.(*types.Pointer); ok {
		t = p.Elem()
	}
	if n, ok := t.(*types.Named); ok && n.Obj().Pkg() != nil {
		return strings.HasPrefix(n.Obj().Pkg().Path(), "verif/shim/") || n.Obj().Pkg().Path() == "sync" || n.Obj().Pkg().Path() == "time"
	}
	return false
}

// sharedAddr reports whether e denotes an addressable location that other goroutines may reach:
// something behind a pointer, an element of a slice, or (a part of) a package-level variable.
func (r *rewriter) sharedAddr(e ast.Expr) bool {
	switch n := e.(type) {
	case *ast.ParenExpr:
		return r.sharedAddr(n.X)
	case *ast.StarExpr:
		return true
	case *ast.SelectorExpr:
		sel := r.info.Selections[n]
		if sel == nil {
			return false // pkg.Var of another package
		}
		if sel.Kind() != types.FieldVal {
			return false
		}
		if sel.Indirect() {
			return true
		}
		if t := r.info.TypeOf(n.X); t != nil {
			if _, ok := t.Underlying().(*types.Pointer); ok {
				return true
			}
		}
		return r.sharedAddr(n.X)
	case *ast.Ident:
		v, ok := r.info.Uses[n].(*types.Var)
		return ok && !v.IsField() && v.Pkg() != nil && v.Parent() == v.Pkg().Scope()
	case *ast.IndexExpr:
		t := r.info.TypeOf(n.X)
		if t == nil {
			return false
		}
		switch t.Underlying().(type) {
		case *types.Slice:
			return true
		case *types.Array:
			return r.sharedAddr(n.X)
		case *types.Pointer: // pointer to array
			return true
		}
	}
	return false
}

func (r *rewriter) preAcc(c *astutil.Cursor) bool {
	switch n := c.Node().(type) {
	case *ast.IndexExpr:
		if r.isMap(n.X) {
			r.mapIdx[n] = r.pos(n)
		}
	case *ast.CallExpr:
		if id, ok := n.Fun.(*ast.Ident); ok && len(n.Args) >= 1 {
			if _, isBuiltin := r.info.Uses[id].(*types.Builtin); isBuiltin && (id.Name == "delete" || id.Name == "len") && r.isMap(n.Args[0]) {
				r.mapCalls[n] = id.Name
			}
		}
	case *ast.FuncDecl:
		// init functions and package-level initialisers run before any scheduler exists; they are still safe to instrument
	}
	return true
}

// use classifies how the parent uses the expression at the cursor: "skip", "read" or "write".
func (r *rewriter) use(c *astutil.Cursor, t types.Type) string {
	isPtr := false
	if t != nil {
		_, isPtr = t.Underlying().(*types.Pointer)
	}
	switch p := c.Parent().(type) {
	case *ast.SelectorExpr:
		if c.Name() != "X" {
			return "skip"
		}
		ps := r.info.Selections[p]
		if ps == nil {
			return "read"
		}
		switch ps.Kind() {
		case types.FieldVal:
			if isPtr {
				return "read" // the pointer is loaded, the field behind it is a separate access
			}
			return "skip" // path prefix
		case types.MethodVal:
			if isPtr {
				return "read"
			}
			if f, ok := ps.Obj().(*types.Func); ok {
				if recv := f.Type().(*types.Signature).Recv(); recv != nil {
					if _, ptrRecv := recv.Type().(*types.Pointer); ptrRecv {
						return "skip" // implicit address-of
					}
				}
			}
			return "read"
		}
		return "read"
	case *ast.UnaryExpr:
		if p.Op == token.AND {
			return "skip"
		}
	case *ast.AssignStmt:
		if c.Name() == "Lhs" {
			return "write"
		}
	case *ast.IncDecStmt:
		return "write"
	case *ast.RangeStmt:
		if c.Name() == "Key" || c.Name() == "Value" {
			return "write"
		}
	case *ast.IndexExpr:
		if c.Name() == "X" && t != nil {
			if _, ok := t.Underlying().(*types.Array); ok {
				return "skip"
			}
		}
	case *ast.SliceExpr:
		if c.Name() == "X" && t != nil {
			if _, ok := t.Underlying().(*types.Array); ok {
				return "skip"
			}
		}
	case *ast.ValueSpec, *ast.Field, *ast.KeyValueExpr:
		if c.Name() == "Names" || c.Name() == "Key" {
			return "skip"
		}
	}
	return "read"
}

func (r *rewriter) wrap(e ast.Expr, write bool, at ast.Node) ast.Expr {
	fn := "R"
	if write {
		fn = "W"
	}
	r.needVS = true
	r.changed = true
	return &ast.ParenExpr{X: &ast.StarExpr{X: call(vs(fn), &ast.UnaryExpr{Op: token.AND, X: e}, r.site(at))}}
}

func (r *rewriter) postAcc(c *astutil.Cursor) bool {
	switch n := c.Node().(type) {
	case *ast.SelectorExpr:
		sel := r.info.Selections[n]
		if sel == nil || sel.Kind() != types.FieldVal {
			return true
		}
		ft := sel.Type()
		if isShimType(ft) {
			if _, ok := ft.(*types.Pointer); !ok {
				return true
			}
		}
		if !r.sharedAddr(n) {
			return true
		}
		switch r.use(c, ft) {
		case "read":
			c.Replace(r.wrap(n, false, n))
		case "write":
			c.Replace(r.wrap(n, true, n))
		}
	case *ast.Ident:
		v, ok := r.info.Uses[n].(*types.Var)
		if !ok || v.IsField() || v.Pkg() == nil || v.Parent() != v.Pkg().Scope() {
			return true
		}
		if strings.HasPrefix(v.Pkg().Path(), "verif/") || isShimType(v.Type()) {
			return true
		}
		if _, isSel := c.Parent().(*ast.SelectorExpr); isSel && c.Name() == "Sel" {
			return true
		}
		switch r.use(c, v.Type()) {
		case "read":
			c.Replace(r.wrap(n, false, n))
		case "write":
			c.Replace(r.wrap(n, true, n))
		}
	case *ast.IndexExpr:
		if at, ok := r.mapIdx[n]; ok {
			fn := "MR"
			switch p := c.Parent().(type) {
			case *ast.AssignStmt:
				if c.Name() == "Lhs" {
					fn = "MW"
				}
			case *ast.IncDecStmt:
				_ = p
				fn = "MW"
			}
			n.X = call(vs(fn), n.X, &ast.BasicLit{Kind: token.STRING, Value: strconv.Quote(at)})
			r.needVS, r.changed = true, true
		}
	case *ast.CallExpr:
		switch r.mapCalls[n] {
		case "delete":
			n.Args[0] = call(vs("MW"), n.Args[0], r.site(n))
			r.needVS, r.changed = true, true
		case "len":
			n.Args[0] = call(vs("MR"), n.Args[0], r.site(n))
			r.needVS, r.changed = true, true
		}
	}
	return true
}
