// Package enum is the stateless choice-tree explorer (engine E1 of DESIGN.md).
//
// A harness is a deterministic function of the answers it receives from
// Ctx.Choose / Ctx.ChooseFree.  The explorer re-executes the harness once for every
// leaf of the choice tree whose cost (number of non-default answers to Choose) is
// within the deviation bound; ChooseFree sub-spaces are always exhausted.
// Nothing is sampled: the enumeration is complete for the stated bound unless a
// cap is hit, in which case Stats.Exhaustive is false and the cap is reported.
package enum

import (
	"encoding/json"
	"fmt"
	"hash/fnv"
	"os"
	"runtime/debug"
	"sort"
	"strings"
	"sync"
	"sync/atomic"
	"time"
)

// Failure is one oracle violation observed in one execution.
type Failure struct {
	// Key identifies *what* failed specifically enough that a different defect of the
	// same property gets a different key (used for known-findings matching).
	Key    string `json:"key"`
	Msg    string `json:"msg"`
	Detail any    `json:"detail,omitempty"`
}

type point struct {
	n      int
	choice int
	free   bool
}

// Ctx is handed to the harness for one execution.
type Ctx struct {
	prefix []int
	trace  []point
	fails  []Failure

	caseKey    uint64
	haveCase   bool
	nontrivial bool
	outcome    string
	sample     any
	labels     []string
	aborted    bool
	dry        bool
	fixed      func(n int, free bool) int
}

// NewFixedCtx returns a context outside any exploration whose choices are answered by f: a harness uses it to build
// an auxiliary value (e.g. "the same declaration with every flag set") without touching the explored choice vector.
func NewFixedCtx(f func(n int, free bool) int) *Ctx { return &Ctx{fixed: f} }

type diverged struct{ msg string }

func (c *Ctx) next(n int, free bool) int {
	if n <= 0 {
		panic(diverged{fmt.Sprintf("Choose(%d) with no alternatives", n)})
	}
	if c.fixed != nil {
		return c.fixed(n, free)
	}
	ch := 0
	i := len(c.trace)
	if i < len(c.prefix) {
		ch = c.prefix[i]
		if ch >= n {
			panic(diverged{fmt.Sprintf("replay divergence at point %d: choice %d but only %d alternatives", i, ch, n)})
		}
	}
	c.trace = append(c.trace, point{n: n, choice: ch, free: free})
	return ch
}

// Dry reports that this execution belongs to another process shard: the harness must return after
// building its case (all Choose calls made) and before running the code under test.
func (c *Ctx) Dry() bool { return c.dry }

// Choose returns 0..n-1.  0 is the default answer; any other answer costs one deviation.
func (c *Ctx) Choose(n int) int { return c.next(n, false) }

// ChooseFree returns 0..n-1; all alternatives are explored regardless of the deviation bound.
func (c *Ctx) ChooseFree(n int) int { return c.next(n, true) }

// Label attaches a human readable description of a decision to the execution (for replays and samples).
func (c *Ctx) Label(format string, a ...any) {
	c.labels = append(c.labels, fmt.Sprintf(format, a...))
}

// Case records the canonical identity of the case built by this execution.
func (c *Ctx) Case(key []byte, nontrivial bool) {
	h := fnv.New64a()
	h.Write(key)
	c.caseKey = h.Sum64()
	c.haveCase = true
	c.nontrivial = nontrivial
}

// Outcome records the observable result class of this execution.
func (c *Ctx) Outcome(s string) { c.outcome = s }

// Sample attaches a printable form of the case (kept for a handful of executions only).
func (c *Ctx) Sample(v any) { c.sample = v }

// Fail records an oracle violation.
func (c *Ctx) Fail(key, format string, a ...any) {
	c.fails = append(c.fails, Failure{Key: key, Msg: fmt.Sprintf(format, a...)})
}

// FailDetail records an oracle violation with structured detail.
func (c *Ctx) FailDetail(key string, detail any, format string, a ...any) {
	c.fails = append(c.fails, Failure{Key: key, Msg: fmt.Sprintf(format, a...), Detail: detail})
}

// Failed reports whether this execution already has a failure.
func (c *Ctx) Failed() bool { return len(c.fails) > 0 }

// Skip marks this execution as not a case (e.g. a non-canonical duplicate); it is not counted.
func (c *Ctx) Skip() { c.aborted = true }

// Try runs f and converts a panic into a failure with the given key. It returns true if f panicked.
func (c *Ctx) Try(key string, f func()) (panicked bool) {
	defer func() {
		if r := recover(); r != nil {
			if d, ok := r.(diverged); ok {
				panic(d)
			}
			st := string(debug.Stack())
			site := panicSite(st)
			if site == "?" && !strings.Contains(st, "verif/c09pkgs/") {
				// no frame of the code under test (or of code it generated) on the stack: the harness itself is wrong.
				// That is a tool error (no verdict), never a violation of the property.
				panic(fmt.Sprintf("harness panic inside Try(%s): %v\n%s", key, r, st))
			}
			panicked = true
			c.fails = append(c.fails, Failure{Key: key + "@" + site, Msg: fmt.Sprintf("panic: %v", r), Detail: trimStack(st)})
		}
	}()
	f()
	return false
}

// panicSite names the innermost function of the code under test on the panicking stack.
func panicSite(st string) string {
	for _, l := range strings.Split(st, "\n") {
		l = strings.TrimSpace(l)
		if strings.HasPrefix(l, "github.com/tonkeeper/tongo/") {
			l = strings.TrimPrefix(l, "github.com/tonkeeper/tongo/")
			if i := strings.LastIndex(l, "("); i > 0 {
				l = l[:i]
			}
			return l
		}
	}
	return "?"
}

func trimStack(s string) string {
	lines := strings.Split(s, "\n")
	var out []string
	for _, l := range lines {
		if strings.Contains(l, "/repo/") || strings.Contains(l, "tongo") {
			out = append(out, strings.TrimSpace(l))
		}
		if len(out) >= 8 {
			break
		}
	}
	return strings.Join(out, " | ")
}

// Violation is a failure together with the choice vector that reproduces it.
type Violation struct {
	Harness string    `json:"harness"`
	Choices []int     `json:"choices"`
	Cost    int       `json:"cost"`
	Labels  []string  `json:"labels,omitempty"`
	Sample  any       `json:"sample,omitempty"`
	Fails   []Failure `json:"failures"`
	// Unstable: the failure did not reproduce when the same choice vector was re-executed in the same process
	// (the code under test keeps state between executions). fw re-checks such a violation in fresh processes.
	Unstable bool `json:"unstable,omitempty"`
}

// Stats is what one exploration covered.
type Stats struct {
	Harness            string         `json:"harness"`
	Bound              int            `json:"deviation_bound"`
	Evaluations        int64          `json:"evaluations"`
	Skipped            int64          `json:"skipped_noncanonical"`
	Transitions        int64          `json:"transitions"`
	States             int64          `json:"states"`
	DistinctNontrivial int64          `json:"distinct_nontrivial"`
	DistinctOutcomes   int64          `json:"distinct_outcomes"`
	Outcomes           []string       `json:"outcomes,omitempty"`
	OutcomeCounts      map[string]int `json:"outcome_counts,omitempty"`
	MaxDepth           int            `json:"max_depth"`
	Exhaustive         bool           `json:"exhaustive"`
	CapHit             string         `json:"cap_hit,omitempty"`
	WallS              float64        `json:"wall_s"`
	Samples            []any          `json:"samples,omitempty"`
}

// Harness describes one enumerable space.
type Harness struct {
	Name  string
	Bound int // deviation bound for Choose
	Run   func(c *Ctx)
	// NShards>1: process-level sharding. Every shard walks the whole choice tree, but an execution whose
	// choice vector hashes to another shard runs "dry" (Ctx.Dry): the harness builds the case and returns
	// before touching the code under test; only owned executions are run, journaled and counted.
	NShards, Shard int
	// Deadline, when non-zero, ends the exploration early with Exhaustive=false.
	Deadline time.Time
	// MaxViolations stops the exploration after this many distinct failure keys (default 50).
	MaxViolations int
	// Workers is the in-process parallelism (default 16; 1 for harnesses that measure allocations).
	Workers int
	// SkipPrefixes lists choice vectors (and their subtrees) not to execute (crashed earlier).
	SkipPrefixes [][]int
	// Journal, if set, is called with the choice vector before each execution (crash attribution).
	Journal func(prefix []int)
	// MaxSamples kept in Stats.Samples (default 4).
	MaxSamples int
}

type set64 struct {
	mu [64]sync.Mutex
	m  [64]map[uint64]struct{}
}

func newSet64() *set64 {
	s := &set64{}
	for i := range s.m {
		s.m[i] = map[uint64]struct{}{}
	}
	return s
}
func (s *set64) add(k uint64) bool {
	i := k % 64
	s.mu[i].Lock()
	_, ok := s.m[i][k]
	if !ok {
		s.m[i][k] = struct{}{}
	}
	s.mu[i].Unlock()
	return !ok
}

type explorer struct {
	h          *Harness
	evals      atomic.Int64
	skipped    atomic.Int64
	trans      atomic.Int64
	states     atomic.Int64
	nontrivial atomic.Int64
	maxDepth   atomic.Int64
	seen       *set64
	capHit     atomic.Value
	stop       atomic.Bool

	mu        sync.Mutex
	outcomes  map[string]int
	viols     map[string]*Violation // by first failure key
	samples   []any
	skipKeys  map[string]bool
	idle      atomic.Int32
	queue     chan []int
	pending   sync.WaitGroup
	toolError atomic.Value
}

func keyOf(p []int) string {
	var sb strings.Builder
	for _, x := range p {
		fmt.Fprintf(&sb, "%d,", x)
	}
	return sb.String()
}

// ToolError is returned (via panic→error) when the harness is not deterministic.
type ToolError struct{ Msg string }

func (t ToolError) Error() string { return t.Msg }

func (e *explorer) owned(prefix []int) bool {
	if e.h.NShards <= 1 {
		return true
	}
	for len(prefix) > 0 && prefix[len(prefix)-1] == 0 {
		prefix = prefix[:len(prefix)-1]
	}
	h := fnv.New32a()
	for _, x := range prefix {
		h.Write([]byte{byte(x), byte(x >> 8), 0xff})
	}
	return int(h.Sum32()%uint32(e.h.NShards)) == e.h.Shard
}

func (e *explorer) runOnce(prefix []int) (c *Ctx, err error) {
	c = &Ctx{prefix: prefix, dry: !e.owned(prefix)}
	defer func() {
		if r := recover(); r != nil {
			if d, ok := r.(diverged); ok {
				err = ToolError{"harness " + e.h.Name + ": " + d.msg}
				return
			}
			// A panic that escapes the harness (not wrapped in Try) is a violation of "does not crash"
			// only if the harness says so; by default treat as harness bug => tool error.
			err = ToolError{fmt.Sprintf("harness %s panicked outside Try at %v: %v\n%s", e.h.Name, prefix, r, debug.Stack())}
		}
	}()
	if e.h.Journal != nil && !c.dry {
		e.h.Journal(prefix)
	}
	e.h.Run(c)
	if len(c.trace) < len(prefix) {
		return c, ToolError{fmt.Sprintf("harness %s: replay divergence: prefix %v longer than trace (%d points)", e.h.Name, prefix, len(c.trace))}
	}
	return c, nil
}

func (e *explorer) account(c *Ctx, newPoints int) {
	if c.dry {
		return
	}
	if c.aborted {
		e.skipped.Add(1)
		return
	}
	e.evals.Add(1)
	e.trans.Add(int64(newPoints))
	if d := int64(len(c.trace)); d > e.maxDepth.Load() {
		e.maxDepth.Store(d)
	}
	if c.haveCase {
		if e.seen.add(c.caseKey) {
			e.states.Add(1)
			if c.nontrivial {
				e.nontrivial.Add(1)
			}
		}
	}
	e.mu.Lock()
	if c.outcome != "" {
		e.outcomes[c.outcome]++
	}
	max := e.h.MaxSamples
	if max == 0 {
		max = 4
	}
	if c.sample != nil && len(e.samples) < max && c.nontrivial {
		e.samples = append(e.samples, c.sample)
	}
	e.mu.Unlock()
}

func cost(tr []point, upto int) int {
	n := 0
	for i := 0; i < upto; i++ {
		if !tr[i].free && tr[i].choice != 0 {
			n++
		}
	}
	return n
}

func (e *explorer) explore(prefix []int) {
	if e.stop.Load() {
		return
	}
	if !e.h.Deadline.IsZero() && time.Now().After(e.h.Deadline) {
		e.capHit.Store("deadline")
		e.stop.Store(true)
		return
	}
	if len(e.skipKeys) > 0 && e.skipKeys[keyOf(prefix)] {
		return
	}
	c, err := e.runOnce(prefix)
	if err != nil {
		e.toolError.Store(err)
		e.stop.Store(true)
		return
	}
	e.account(c, len(c.trace)-len(prefix)+boolInt(len(prefix) > 0))
	if len(c.fails) > 0 && !c.aborted && !c.dry {
		e.recordViolation(c)
	}
	tr := c.trace
	choices := make([]int, len(tr))
	for i, p := range tr {
		choices[i] = p.choice
	}
	base := cost(tr, len(prefix))
	for i := len(prefix); i < len(tr); i++ {
		p := tr[i]
		cst := base
		if !p.free {
			cst++
		}
		if cst <= e.h.Bound {
			for alt := 1; alt < p.n; alt++ {
				np := make([]int, i+1)
				copy(np, choices[:i])
				np[i] = alt
				if e.idle.Load() > 0 && i < 6 {
					e.pending.Add(1)
					select {
					case e.queue <- np:
						continue
					default:
						e.pending.Done()
					}
				}
				e.explore(np)
				if e.stop.Load() {
					return
				}
			}
		}
		if !p.free && p.choice != 0 {
			base++
		}
	}
}

func boolInt(b bool) int {
	if b {
		return 1
	}
	return 0
}

func (e *explorer) recordViolation(c *Ctx) {
	choices := make([]int, len(c.trace))
	for i, p := range c.trace {
		choices[i] = p.choice
	}
	v := &Violation{Harness: e.h.Name, Choices: choices, Cost: cost(c.trace, len(c.trace)), Labels: c.labels, Sample: c.sample, Fails: c.fails}
	e.mu.Lock()
	defer e.mu.Unlock()
	for _, f := range c.fails {
		old, ok := e.viols[f.Key]
		if !ok || v.Cost < old.Cost || (v.Cost == old.Cost && len(v.Choices) < len(old.Choices)) {
			vv := *v
			vv.Fails = []Failure{f}
			e.viols[f.Key] = &vv
		}
	}
	max := e.h.MaxViolations
	if max == 0 {
		max = 50
	}
	if len(e.viols) >= max {
		e.capHit.Store(fmt.Sprintf("max_violations=%d", max))
		e.stop.Store(true)
	}
}

// Explore runs the harness over its whole choice tree.
func Explore(h Harness) (Stats, []Violation, error) {
	start := time.Now()
	e := &explorer{h: &h, seen: newSet64(), outcomes: map[string]int{}, viols: map[string]*Violation{}, skipKeys: map[string]bool{}}
	for _, p := range h.SkipPrefixes {
		e.skipKeys[keyOf(p)] = true
	}
	workers := h.Workers
	if workers <= 0 {
		workers = 16
	}
	e.queue = make(chan []int, 1<<16)
	var wg sync.WaitGroup
	e.pending.Add(1)
	e.queue <- nil
	for w := 0; w < workers; w++ {
		wg.Add(1)
		go func() {
			defer wg.Done()
			for {
				e.idle.Add(1)
				p, ok := <-e.queue
				e.idle.Add(-1)
				if !ok {
					return
				}
				e.explore(p)
				e.pending.Done()
			}
		}()
	}
	e.pending.Wait()
	close(e.queue)
	wg.Wait()

	st := Stats{Harness: h.Name, Bound: h.Bound, Evaluations: e.evals.Load(), Skipped: e.skipped.Load(), Transitions: e.trans.Load(),
		States: e.states.Load(), DistinctNontrivial: e.nontrivial.Load(), MaxDepth: int(e.maxDepth.Load()),
		Exhaustive: true, WallS: time.Since(start).Seconds(), Samples: e.samples}
	if v := e.capHit.Load(); v != nil {
		st.Exhaustive = false
		st.CapHit = v.(string)
	}
	st.OutcomeCounts = map[string]int{}
	for o, n := range e.outcomes {
		st.Outcomes = append(st.Outcomes, o)
		if len(st.OutcomeCounts) < 40 {
			st.OutcomeCounts[o] = n
		}
	}
	sort.Strings(st.Outcomes)
	st.DistinctOutcomes = int64(len(st.Outcomes))
	if len(st.Outcomes) > 24 {
		st.Outcomes = st.Outcomes[:24]
	}
	var vs []Violation
	for _, v := range e.viols {
		vs = append(vs, *v)
	}
	sort.Slice(vs, func(i, j int) bool {
		if vs[i].Cost != vs[j].Cost {
			return vs[i].Cost < vs[j].Cost
		}
		return vs[i].Fails[0].Key < vs[j].Fails[0].Key
	})
	if te := e.toolError.Load(); te != nil {
		return st, vs, te.(error)
	}
	// Determinism proof: every reported violation must reproduce identically 5 times.
	for i := range vs {
		for r := 0; r < 5; r++ {
			c, err := e.runOnce(vs[i].Choices)
			if err != nil {
				// the execution took a different path: treat like a failure that did not reproduce in-process
				vs[i].Unstable = true
				break
			}
			found := false
			for _, f := range c.fails {
				if f.Key == vs[i].Fails[0].Key {
					found = true
				}
			}
			if !found {
				vs[i].Unstable = true
				break
			}
		}
	}
	return st, vs, nil
}

// Replay runs exactly one choice vector.
func Replay(h Harness, choices []int) ([]Failure, []string, error) {
	e := &explorer{h: &h, seen: newSet64(), outcomes: map[string]int{}, viols: map[string]*Violation{}}
	c, err := e.runOnce(choices)
	if err != nil {
		return nil, nil, err
	}
	return c.fails, c.labels, nil
}

// WriteJSON writes v to path (pretty printed).
func WriteJSON(path string, v any) error {
	b, err := json.MarshalIndent(v, "", " ")
	if err != nil {
		return err
	}
	return os.WriteFile(path, append(b, '\n'), 0o644)
}
