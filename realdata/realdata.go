// Package realdata harvests the real bag-of-cells byte strings shipped in the repository
// (testdata files and BOC literals inside *_test.go / *.json files).
package realdata

import (
	"encoding/base64"
	"encoding/hex"
	"os"
	"path/filepath"
	"regexp"
	"sort"
	"strings"
	"sync"
)

// Item is one byte string with its origin.
type Item struct {
	Origin string
	Data   []byte
}

var (
	once  sync.Once
	items []Item
)

var hexRe = regexp.MustCompile(`(?i)b5ee9c72[0-9a-f]{8,}`)
var b64Re = regexp.MustCompile(`te6c[A-Za-z0-9+/_\-]{8,}={0,2}`)

// Repo is the repository root.
var Repo = "/repo"

// BOCs returns every distinct candidate BOC found under the repository (not validated).
func BOCs() []Item {
	once.Do(func() {
		seen := map[string]bool{}
		add := func(origin string, b []byte) {
			if len(b) < 10 || seen[string(b)] {
				return
			}
			seen[string(b)] = true
			items = append(items, Item{origin, b})
		}
		filepath.Walk(Repo, func(p string, info os.FileInfo, err error) error {
			if err != nil {
				return nil
			}
			if info.IsDir() {
				n := info.Name()
				if n == ".git" || n == "lib" {
					return filepath.SkipDir
				}
				return nil
			}
			rel, _ := filepath.Rel(Repo, p)
			ext := filepath.Ext(p)
			inTestdata := strings.Contains(rel, "testdata")
			if !(inTestdata || strings.HasSuffix(p, "_test.go") || ext == ".json" || ext == ".hex" || ext == ".boc" || ext == ".bin") {
				return nil
			}
			if info.Size() > 8<<20 || strings.HasSuffix(p, ".output.json") {
				return nil
			}
			b, err := os.ReadFile(p)
			if err != nil {
				return nil
			}
			if len(b) >= 4 && b[0] == 0xb5 && b[1] == 0xee && b[2] == 0x9c && b[3] == 0x72 {
				add(rel, b)
				return nil
			}
			if ext == ".bin" || ext == ".boc" {
				return nil
			}
			s := string(b)
			for i, m := range hexRe.FindAllString(s, -1) {
				if len(m)%2 == 1 {
					m = m[:len(m)-1]
				}
				if d, err := hex.DecodeString(m); err == nil {
					add(rel+"#hex"+itoa(i), d)
				}
			}
			for i, m := range b64Re.FindAllString(s, -1) {
				m = strings.NewReplacer("-", "+", "_", "/").Replace(m)
				for len(m)%4 != 0 {
					m += "="
				}
				if d, err := base64.StdEncoding.DecodeString(m); err == nil {
					add(rel+"#b64"+itoa(i), d)
				}
			}
			return nil
		})
		sort.Slice(items, func(i, j int) bool { return items[i].Origin < items[j].Origin })
	})
	return items
}

func itoa(i int) string {
	if i == 0 {
		return "0"
	}
	s := ""
	for i > 0 {
		s = string(rune('0'+i%10)) + s
		i /= 10
	}
	return s
}
