// Package adnl is the server side of ADNL-over-TCP written from the specification
// (https://docs.ton.org/learn/networking/low-level-adnl), independent of tongo's client code:
// X25519 through crypto/ecdh with the Ed25519 -> Montgomery conversion done in math/big.
package adnl

import (
	"crypto/aes"
	"crypto/cipher"
	"crypto/ecdh"
	"crypto/ed25519"
	"crypto/sha256"
	"crypto/sha512"
	"encoding/binary"
	"errors"
	"fmt"
	"math/big"
)

// ServerKey is the long-term key pair of a server.
type ServerKey struct {
	Priv ed25519.PrivateKey
	Pub  ed25519.PublicKey
}

func NewServerKey(seed int) ServerKey {
	var s [32]byte
	for i := range s {
		s[i] = byte(seed*53 + i*11 + 3)
	}
	p := ed25519.NewKeyFromSeed(s[:])
	return ServerKey{p, p.Public().(ed25519.PublicKey)}
}

// KeyID = SHA-256 of the TL-serialised public key (pub.ed25519 key:int256).
func (k ServerKey) KeyID() [32]byte {
	return sha256.Sum256(append([]byte{0xc6, 0xb4, 0x13, 0x48}, k.Pub...))
}

var p25519 = new(big.Int).Sub(new(big.Int).Lsh(big.NewInt(1), 255), big.NewInt(19))

// edwardsToMontgomery converts a compressed Edwards public key to the Montgomery u-coordinate: u = (1+y)/(1-y).
func edwardsToMontgomery(pub []byte) ([]byte, error) {
	if len(pub) != 32 {
		return nil, errors.New("bad key length")
	}
	le := make([]byte, 32)
	copy(le, pub)
	le[31] &= 0x7f
	// little endian -> big.Int
	be := make([]byte, 32)
	for i := range le {
		be[31-i] = le[i]
	}
	y := new(big.Int).SetBytes(be)
	one := big.NewInt(1)
	num := new(big.Int).Add(one, y)
	den := new(big.Int).Sub(one, y)
	den.Mod(den, p25519)
	inv := new(big.Int).ModInverse(den, p25519)
	if inv == nil {
		return nil, errors.New("no inverse")
	}
	u := num.Mul(num, inv)
	u.Mod(u, p25519)
	ub := u.FillBytes(make([]byte, 32))
	out := make([]byte, 32)
	for i := range ub {
		out[31-i] = ub[i]
	}
	return out, nil
}

// SharedSecret computes X25519(server scalar, client point) from Ed25519 keys.
func (k ServerKey) SharedSecret(clientEdPub []byte) ([]byte, error) {
	h := sha512.Sum512(k.Priv.Seed())
	priv, err := ecdh.X25519().NewPrivateKey(h[:32])
	if err != nil {
		return nil, err
	}
	u, err := edwardsToMontgomery(clientEdPub)
	if err != nil {
		return nil, err
	}
	pub, err := ecdh.X25519().NewPublicKey(u)
	if err != nil {
		return nil, err
	}
	return priv.ECDH(pub)
}

// Session holds the two stream ciphers of an established connection (server view).
type Session struct {
	FromClient cipher.Stream // decrypts what the client sends
	ToClient   cipher.Stream // encrypts what the server sends
	Params     [160]byte
	ClientPub  [32]byte
}

// Accept processes the 256-byte handshake packet.
func (k ServerKey) Accept(hs []byte) (*Session, error) {
	if len(hs) != 256 {
		return nil, fmt.Errorf("handshake packet of %d bytes", len(hs))
	}
	id := k.KeyID()
	if string(hs[:32]) != string(id[:]) {
		return nil, errors.New("handshake addressed to another key id")
	}
	shared, err := k.SharedSecret(hs[32:64])
	if err != nil {
		return nil, err
	}
	hash := hs[64:96]
	key := append(append([]byte{}, shared[:16]...), hash[16:32]...)
	iv := append(append([]byte{}, hash[:4]...), shared[20:32]...)
	blk, err := aes.NewCipher(key)
	if err != nil {
		return nil, err
	}
	s := &Session{}
	copy(s.ClientPub[:], hs[32:64])
	cipher.NewCTR(blk, iv).XORKeyStream(s.Params[:], hs[96:256])
	if got := sha256.Sum256(s.Params[:]); string(got[:]) != string(hash) {
		return nil, errors.New("session parameters do not match their hash (key derivation differs)")
	}
	// client: tx = params[32:64]/[80:96], rx = params[0:32]/[64:80]
	cb, _ := aes.NewCipher(s.Params[32:64])
	sb, _ := aes.NewCipher(s.Params[0:32])
	s.FromClient = cipher.NewCTR(cb, s.Params[80:96])
	s.ToClient = cipher.NewCTR(sb, s.Params[64:80])
	return s, nil
}

// Frame builds the plaintext frame len | nonce | payload | sha256(nonce|payload).
func Frame(nonce [32]byte, payload []byte) []byte {
	out := make([]byte, 4, 4+64+len(payload))
	binary.LittleEndian.PutUint32(out, uint32(64+len(payload)))
	out = append(out, nonce[:]...)
	out = append(out, payload...)
	h := sha256.Sum256(out[4:])
	return append(out, h[:]...)
}

// Seal encrypts a frame for the client.
func (s *Session) Seal(nonce [32]byte, payload []byte) []byte {
	f := Frame(nonce, payload)
	s.ToClient.XORKeyStream(f, f)
	return f
}

// Reader incrementally decrypts and splits the client's byte stream into payloads.
type Reader struct {
	s   *Session
	buf []byte // decrypted, not yet consumed
}

func (s *Session) NewReader() *Reader { return &Reader{s: s} }

// Feed adds ciphertext; returns the complete payloads found so far, or an error for a bad frame.
func (r *Reader) Feed(ct []byte) ([][]byte, error) {
	pt := make([]byte, len(ct))
	r.s.FromClient.XORKeyStream(pt, ct)
	r.buf = append(r.buf, pt...)
	var out [][]byte
	for {
		if len(r.buf) < 4 {
			return out, nil
		}
		n := int(binary.LittleEndian.Uint32(r.buf))
		if n < 64 || n > 16<<20 {
			return out, fmt.Errorf("bad frame length %d", n)
		}
		if len(r.buf) < 4+n {
			return out, nil
		}
		fr := r.buf[4 : 4+n]
		h := sha256.Sum256(fr[:n-32])
		if string(h[:]) != string(fr[n-32:]) {
			return out, errors.New("bad frame checksum")
		}
		out = append(out, append([]byte{}, fr[32:n-32]...))
		r.buf = r.buf[4+n:]
	}
}
