// Package bits is the ideal bit list used as reference model for boc.BitString / boc.Cell
// primitives. It is deliberately boring: a []bool and big.Int arithmetic.
package bits

import (
	"math/big"
	"strings"
)

type Bits []bool

func FromBytes(b []byte, n int) Bits {
	out := make(Bits, n)
	for i := 0; i < n; i++ {
		out[i] = b[i/8]&(0x80>>(uint(i)%8)) != 0
	}
	return out
}

// Pattern returns n bits of a fixed pseudo-pattern selected by k (a pure function; no randomness).
func Pattern(k int, n int) Bits {
	out := make(Bits, n)
	x := uint64(0x9E3779B97F4A7C15) * uint64(k+1)
	for i := 0; i < n; i++ {
		x ^= x << 13
		x ^= x >> 7
		x ^= x << 17
		switch k % 4 {
		case 0, 1:
			out[i] = x&1 != 0
		case 2:
			out[i] = true
		case 3:
			out[i] = i%2 == 0
		}
	}
	return out
}

// Bytes packs the bits big-endian into ceil(n/8) bytes, zero padded.
func (b Bits) Bytes() []byte {
	out := make([]byte, (len(b)+7)/8)
	for i, v := range b {
		if v {
			out[i/8] |= 0x80 >> (uint(i) % 8)
		}
	}
	return out
}

// Padded packs the bits with the TON completion tag (1 then zeros) when len is not a multiple of 8.
func (b Bits) Padded() []byte {
	if len(b)%8 == 0 {
		return b.Bytes()
	}
	c := append(append(Bits{}, b...), true)
	for len(c)%8 != 0 {
		c = append(c, false)
	}
	return c.Bytes()
}

func (b Bits) String() string {
	var sb strings.Builder
	for _, v := range b {
		if v {
			sb.WriteByte('1')
		} else {
			sb.WriteByte('0')
		}
	}
	return sb.String()
}

func (b Bits) Equal(o Bits) bool {
	if len(b) != len(o) {
		return false
	}
	for i := range b {
		if b[i] != o[i] {
			return false
		}
	}
	return true
}

// Uint interprets b as a big-endian unsigned integer.
func (b Bits) Uint() *big.Int {
	x := new(big.Int)
	for _, v := range b {
		x.Lsh(x, 1)
		if v {
			x.SetBit(x, 0, 1)
		}
	}
	return x
}

// Int interprets b as big-endian two's complement.
func (b Bits) Int() *big.Int {
	x := b.Uint()
	if len(b) > 0 && b[0] {
		x.Sub(x, new(big.Int).Lsh(big.NewInt(1), uint(len(b))))
	}
	return x
}

// FromUint encodes v (0 <= v < 2^n) as n bits.
func FromUint(v *big.Int, n int) Bits {
	out := make(Bits, n)
	for i := 0; i < n; i++ {
		out[i] = v.Bit(n-1-i) != 0
	}
	return out
}

// FromInt encodes v (-2^(n-1) <= v < 2^(n-1)) as n bits two's complement.
func FromInt(v *big.Int, n int) Bits {
	if v.Sign() >= 0 {
		return FromUint(v, n)
	}
	m := new(big.Int).Lsh(big.NewInt(1), uint(n))
	m.Add(m, v)
	return FromUint(m, n)
}

// FitsUint / FitsInt tell whether v is representable in n bits.
func FitsUint(v *big.Int, n int) bool { return v.Sign() >= 0 && v.BitLen() <= n }
func FitsInt(v *big.Int, n int) bool {
	if n == 0 {
		return false
	}
	lim := new(big.Int).Lsh(big.NewInt(1), uint(n-1))
	if v.Sign() >= 0 {
		return v.Cmp(lim) < 0
	}
	return new(big.Int).Neg(v).Cmp(lim) <= 0
}

// FiftHex renders the bit list in Fift hex notation (upper case, "_" suffix when a completion tag was added).
func (b Bits) FiftHex() string {
	c := append(Bits{}, b...)
	suffix := ""
	if len(c)%4 != 0 {
		c = append(c, true)
		for len(c)%4 != 0 {
			c = append(c, false)
		}
		suffix = "_"
	}
	const hexd = "0123456789ABCDEF"
	var sb strings.Builder
	for i := 0; i < len(c); i += 4 {
		v := 0
		for j := 0; j < 4; j++ {
			v <<= 1
			if c[i+j] {
				v |= 1
			}
		}
		sb.WriteByte(hexd[v])
	}
	return sb.String() + suffix
}
