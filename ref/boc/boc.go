// Package boc is the reference bag-of-cells codec, written from the TL-B scheme of
// serialized_boc / serialized_boc_idx / serialized_boc_idx_crc32c and the behaviour of the
// validating node (crypto/vm/boc.cpp), independently of tongo.
package boc

import (
	"encoding/binary"
	"errors"
	"fmt"
	"hash/crc32"

	"verif/ref/cell"
)

const (
	MagicGeneric = 0xb5ee9c72
	MagicIdx     = 0x68ff65f3
	MagicIdxCRC  = 0xacc3a728
)

var castagnoli = crc32.MakeTable(crc32.Castagnoli)

func readN(b []byte, n int) uint64 {
	var v uint64
	for i := 0; i < n; i++ {
		v = v<<8 | uint64(b[i])
	}
	return v
}

// Parse is a strict parser: it returns the root cells or an error. Index entries are not checked
// (the validating node does not check them either).
func Parse(b []byte) ([]*cell.Cell, error) { return parse(b, false) }

// ParseStrict additionally requires every index entry to be the end offset of its cell.
func ParseStrict(b []byte) ([]*cell.Cell, error) { return parse(b, true) }

func parse(b []byte, strictIndex bool) ([]*cell.Cell, error) {
	if len(b) < 6 {
		return nil, errors.New("short")
	}
	magic := binary.BigEndian.Uint32(b)
	var hasIdx, hasCRC, hasCache bool
	fb := b[4]
	switch magic {
	case MagicGeneric:
		hasIdx, hasCRC, hasCache = fb&0x80 != 0, fb&0x40 != 0, fb&0x20 != 0
		if fb&0x18 != 0 {
			return nil, errors.New("flags != 0")
		}
	case MagicIdx:
		hasIdx = true
	case MagicIdxCRC:
		hasIdx, hasCRC = true, true
	default:
		return nil, errors.New("magic")
	}
	size := int(fb & 7)
	if size < 1 || size > 4 {
		return nil, errors.New("size")
	}
	off := int(b[5])
	if off < 1 || off > 8 {
		return nil, errors.New("off_bytes")
	}
	p := 6
	need := func(n int) error {
		if n < 0 || p+n > len(b) {
			return errors.New("truncated")
		}
		return nil
	}
	if err := need(3*size + off); err != nil {
		return nil, err
	}
	cells := int(readN(b[p:], size))
	p += size
	roots := int(readN(b[p:], size))
	p += size
	absent := int(readN(b[p:], size))
	p += size
	tot := readN(b[p:], off)
	p += off
	if cells < 1 || roots < 1 || roots+absent > cells || absent != 0 {
		return nil, errors.New("counts")
	}
	var rootIdx []int
	if magic == MagicGeneric {
		if err := need(roots * size); err != nil {
			return nil, err
		}
		for i := 0; i < roots; i++ {
			rootIdx = append(rootIdx, int(readN(b[p:], size)))
			p += size
		}
	} else {
		if roots != 1 {
			return nil, errors.New("lean format with roots != 1")
		}
		rootIdx = []int{0}
	}
	var index []uint64
	if hasIdx {
		if err := need(cells * off); err != nil {
			return nil, err
		}
		for i := 0; i < cells; i++ {
			v := readN(b[p:], off)
			if hasCache {
				v >>= 1
			}
			index = append(index, v)
			p += off
		}
	}
	if tot > uint64(len(b)) {
		return nil, errors.New("truncated cell data")
	}
	if err := need(int(tot)); err != nil {
		return nil, err
	}
	data := b[p : p+int(tot)]
	p += int(tot)
	if hasCRC {
		if err := need(4); err != nil {
			return nil, err
		}
		if binary.LittleEndian.Uint32(b[p:]) != crc32.Checksum(b[:p], castagnoli) {
			return nil, errors.New("crc")
		}
		p += 4
	}
	if p != len(b) {
		return nil, errors.New("trailing bytes")
	}
	type raw struct {
		d1, d2  byte
		payload []byte
		refs    []int
		hashes  []byte
	}
	raws := make([]raw, cells)
	q := 0
	for i := 0; i < cells; i++ {
		start := q
		if q+2 > len(data) {
			return nil, errors.New("cell header truncated")
		}
		d1, d2 := data[q], data[q+1]
		q += 2
		nrefs := int(d1 & 7)
		if nrefs > 4 {
			return nil, errors.New("absent / bad ref count")
		}
		var hs []byte
		if d1&16 != 0 {
			mask := d1 >> 5
			n := 1
			for m := mask; m != 0; m >>= 1 {
				n += int(m & 1)
			}
			if q+n*34 > len(data) {
				return nil, errors.New("stored hashes truncated")
			}
			hs = data[q : q+n*34]
			q += n * 34
		}
		nbytes := int(d2>>1) + int(d2&1)
		if q+nbytes+nrefs*size > len(data) {
			return nil, errors.New("cell body truncated")
		}
		r := raw{d1: d1, d2: d2, payload: data[q : q+nbytes], hashes: hs}
		q += nbytes
		for j := 0; j < nrefs; j++ {
			ri := int(readN(data[q:], size))
			q += size
			if ri <= i || ri >= cells {
				return nil, errors.New("reference breaks topological order")
			}
			r.refs = append(r.refs, ri)
		}
		raws[i] = r
		if strictIndex && hasIdx && index[i] != uint64(q) {
			return nil, fmt.Errorf("index entry %d = %d, cell ends at %d (start %d)", i, index[i], q, start)
		}
	}
	if q != len(data) {
		return nil, errors.New("cell data size mismatch")
	}
	built := make([]*cell.Cell, cells)
	for i := cells - 1; i >= 0; i-- {
		r := raws[i]
		bitLen := len(r.payload) * 8
		if r.d2&1 == 1 {
			last := r.payload[len(r.payload)-1]
			if last == 0 {
				return nil, errors.New("no completion tag")
			}
			tz := 0
			for last&1 == 0 {
				last >>= 1
				tz++
			}
			bitLen -= tz + 1
		}
		var refs []*cell.Cell
		for _, ri := range r.refs {
			refs = append(refs, built[ri])
		}
		c, err := cell.New(r.payload, bitLen, refs, r.d1&8 != 0)
		if err != nil {
			return nil, fmt.Errorf("cell %d: %v", i, err)
		}
		if c.Mask != r.d1>>5 {
			return nil, fmt.Errorf("cell %d: level mask in descriptor %d, computed %d", i, r.d1>>5, c.Mask)
		}
		if r.hashes != nil {
			// stored hashes must equal computed ones
			k := 0
			n := len(r.hashes) / 34
			for l := 0; l <= 3; l++ {
				if l == 0 || (c.Mask>>(uint(l)-1))&1 == 1 {
					h := c.Hash(l)
					if string(r.hashes[32*k:32*k+32]) != string(h[:]) || binary.BigEndian.Uint16(r.hashes[32*n+2*k:]) != c.Depth(l) {
						return nil, fmt.Errorf("cell %d: stored hash/depth %d wrong", i, k)
					}
					k++
				}
			}
		}
		built[i] = c
	}
	var out []*cell.Cell
	for _, ri := range rootIdx {
		if ri >= cells {
			return nil, errors.New("root index out of range")
		}
		out = append(out, built[ri])
	}
	return out, nil
}

// Options selects one conforming serialisation variant.
type Options struct {
	Magic       uint32 // MagicGeneric (default), MagicIdx, MagicIdxCRC
	Index       bool
	CRC         bool
	CacheBits   bool
	StoreHashes bool // d1 bit 16: hashes and depths stored in front of the data of every cell
	Order       int  // 0: DFS pre-order, 1: BFS-layered (by max distance from roots), 2: reversed post-order with reversed child visiting
	ExtraSize   int  // ref index width = minimal + ExtraSize (capped at 4)
	ExtraOff    int  // offset width = minimal + ExtraOff (capped at 8)
}

// order returns the distinct cells (by hash) in a topological order (every cell before its refs).
func order(roots []*cell.Cell, mode int) []*cell.Cell {
	// unique by representation hash
	uniq := map[[32]byte]*cell.Cell{}
	var post []*cell.Cell
	var rec func(c *cell.Cell)
	rec = func(c *cell.Cell) {
		h := c.ReprHash()
		if _, ok := uniq[h]; ok {
			return
		}
		uniq[h] = c
		if mode == 2 {
			for i := len(c.Refs) - 1; i >= 0; i-- {
				rec(c.Refs[i])
			}
		} else {
			for _, r := range c.Refs {
				rec(r)
			}
		}
		post = append(post, c)
	}
	for _, r := range roots {
		rec(r)
	}
	// reversed post-order is a topological order
	n := len(post)
	out := make([]*cell.Cell, n)
	for i, c := range post {
		out[n-1-i] = c
	}
	if mode == 1 {
		// layered: sort by longest distance from a root (stable)
		dist := map[[32]byte]int{}
		for _, c := range out { // out is topological: parents first
			d := dist[c.ReprHash()]
			for _, r := range c.Refs {
				if dist[r.ReprHash()] < d+1 {
					dist[r.ReprHash()] = d + 1
				}
			}
		}
		// stable insertion sort by dist
		for i := 1; i < n; i++ {
			for j := i; j > 0 && dist[out[j].ReprHash()] < dist[out[j-1].ReprHash()]; j-- {
				out[j], out[j-1] = out[j-1], out[j]
			}
		}
	}
	return out
}

func bytesFor(v uint64) int {
	n := 1
	for v >= 1<<(8*uint(n)) {
		n++
	}
	return n
}

func putN(v uint64, n int) []byte {
	out := make([]byte, n)
	for i := n - 1; i >= 0; i-- {
		out[i] = byte(v)
		v >>= 8
	}
	return out
}

// Serialize emits the bag of cells for the given roots in the requested variant.
func Serialize(roots []*cell.Cell, o Options) ([]byte, error) {
	if o.Magic == 0 {
		o.Magic = MagicGeneric
	}
	if o.Magic != MagicGeneric {
		if len(roots) != 1 {
			return nil, errors.New("lean formats have exactly one root")
		}
		o.Index = true
		o.CRC = o.Magic == MagicIdxCRC
		o.CacheBits = false
	}
	cells := order(roots, o.Order)
	if o.Magic != MagicGeneric {
		// the single root must be cell 0: true for all orders since the root has no parents
		if cells[0].ReprHash() != roots[0].ReprHash() {
			return nil, errors.New("root is not first")
		}
	}
	pos := map[[32]byte]int{}
	refCount := map[[32]byte]int{}
	for i, c := range cells {
		pos[c.ReprHash()] = i
	}
	for _, c := range cells {
		for _, r := range c.Refs {
			refCount[r.ReprHash()]++
		}
	}
	size := bytesFor(uint64(len(cells))) + o.ExtraSize
	if size > 4 {
		size = 4
	}
	var data []byte
	var ends []uint64
	for _, c := range cells {
		d1 := byte(len(c.Refs)) + 32*c.Mask
		if c.Special {
			d1 |= 8
		}
		if o.StoreHashes {
			d1 |= 16
		}
		data = append(data, d1, byte(c.BitLen/8+(c.BitLen+7)/8))
		if o.StoreHashes {
			var hs, ds []byte
			for l := 0; l <= 3; l++ {
				if l == 0 || (c.Mask>>(uint(l)-1))&1 == 1 {
					h := c.Hash(l)
					hs = append(hs, h[:]...)
					var b [2]byte
					binary.BigEndian.PutUint16(b[:], c.Depth(l))
					ds = append(ds, b[:]...)
				}
			}
			data = append(data, hs...)
			data = append(data, ds...)
		}
		data = append(data, c.PaddedData()...)
		for _, r := range c.Refs {
			data = append(data, putN(uint64(pos[r.ReprHash()]), size)...)
		}
		e := uint64(len(data))
		if o.CacheBits {
			e *= 2
			if refCount[c.ReprHash()] > 1 {
				e++
			}
		}
		ends = append(ends, e)
	}
	maxOff := uint64(len(data))
	if o.CacheBits {
		maxOff = maxOff*2 + 1
	}
	off := bytesFor(maxOff) + o.ExtraOff
	if off > 8 {
		off = 8
	}
	var out []byte
	out = append(out, putN(uint64(o.Magic), 4)...)
	if o.Magic == MagicGeneric {
		fb := byte(size)
		if o.Index {
			fb |= 0x80
		}
		if o.CRC {
			fb |= 0x40
		}
		if o.CacheBits {
			fb |= 0x20
		}
		out = append(out, fb)
	} else {
		out = append(out, byte(size))
	}
	out = append(out, byte(off))
	out = append(out, putN(uint64(len(cells)), size)...)
	out = append(out, putN(uint64(len(roots)), size)...)
	out = append(out, putN(0, size)...)
	out = append(out, putN(uint64(len(data)), off)...)
	if o.Magic == MagicGeneric {
		for _, r := range roots {
			out = append(out, putN(uint64(pos[r.ReprHash()]), size)...)
		}
	}
	if o.Index {
		for _, e := range ends {
			out = append(out, putN(e, off)...)
		}
	}
	out = append(out, data...)
	if o.CRC {
		var b [4]byte
		binary.LittleEndian.PutUint32(b[:], crc32.Checksum(out, castagnoli))
		out = append(out, b[:]...)
	}
	return out, nil
}
