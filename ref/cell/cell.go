// Package cell is the reference model of TON cells: immutable (bits, refs, special flag)
// with representation hash / depth / level mask computed from the TON whitepaper and
// the validating node's rules (crypto/vm/cells/DataCell.cpp), written independently of tongo.
package cell

import (
	"crypto/sha256"
	"encoding/binary"
	"errors"
	"fmt"
	mbits "math/bits"
)

const (
	Ordinary     = 0
	PrunedBranch = 1
	Library      = 2
	MerkleProof  = 3
	MerkleUpdate = 4
)

// Cell is an immutable reference cell.
type Cell struct {
	Data    []byte // ceil(BitLen/8) bytes, unused low bits of the last byte are zero
	BitLen  int
	Refs    []*Cell
	Special bool

	Type   int
	Mask   uint8
	hashes [4][32]byte
	depths [4]uint16
	// Size of the DAG is not stored; see Walk.
}

func getBit(d []byte, i int) bool { return d[i/8]&(0x80>>(uint(i)%8)) != 0 }

// New builds and validates a cell. data must hold at least ceil(bitLen/8) bytes; bits past bitLen are ignored.
func New(data []byte, bitLen int, refs []*Cell, special bool) (*Cell, error) {
	if bitLen < 0 || bitLen > 1023 {
		return nil, fmt.Errorf("bit length %d out of range", bitLen)
	}
	if len(refs) > 4 {
		return nil, errors.New("more than 4 refs")
	}
	nb := (bitLen + 7) / 8
	if len(data) < nb {
		return nil, errors.New("data shorter than bit length")
	}
	d := make([]byte, nb)
	copy(d, data[:nb])
	if bitLen%8 != 0 {
		d[nb-1] &= 0xFF << (8 - uint(bitLen%8))
	}
	c := &Cell{Data: d, BitLen: bitLen, Refs: append([]*Cell{}, refs...), Special: special}
	for _, r := range refs {
		if r == nil {
			return nil, errors.New("nil ref")
		}
	}
	if !special {
		c.Type = Ordinary
		for _, r := range refs {
			c.Mask |= r.Mask
		}
	} else {
		if bitLen < 8 {
			return nil, errors.New("special cell shorter than 8 bits")
		}
		c.Type = int(d[0])
		switch c.Type {
		case PrunedBranch:
			if len(refs) != 0 {
				return nil, errors.New("pruned branch with refs")
			}
			if bitLen < 16 {
				return nil, errors.New("pruned branch too short")
			}
			m := d[1]
			if m == 0 || m > 7 {
				return nil, errors.New("pruned branch level mask out of range")
			}
			if bitLen != 16+mbits.OnesCount8(m)*(256+16) {
				return nil, errors.New("pruned branch length does not match mask")
			}
			c.Mask = m
		case Library:
			if bitLen != 8+256 || len(refs) != 0 {
				return nil, errors.New("bad library cell")
			}
		case MerkleProof:
			if bitLen != 8+256+16 || len(refs) != 1 {
				return nil, errors.New("bad merkle proof cell")
			}
			c.Mask = refs[0].Mask >> 1
		case MerkleUpdate:
			if bitLen != 8+2*(256+16) || len(refs) != 2 {
				return nil, errors.New("bad merkle update cell")
			}
			c.Mask = (refs[0].Mask | refs[1].Mask) >> 1
		default:
			return nil, fmt.Errorf("unknown special cell type %d", c.Type)
		}
	}
	if err := c.computeHashes(); err != nil {
		return nil, err
	}
	// stored hash/depth of Merkle cells must match the child at level 0
	switch c.Type {
	case MerkleProof:
		h := refs[0].Hash(0)
		if string(d[1:33]) != string(h[:]) || binary.BigEndian.Uint16(d[33:35]) != refs[0].Depth(0) {
			return nil, errors.New("merkle proof does not commit to its child")
		}
	case MerkleUpdate:
		for i := 0; i < 2; i++ {
			h := refs[i].Hash(0)
			if string(d[1+32*i:33+32*i]) != string(h[:]) || binary.BigEndian.Uint16(d[65+2*i:67+2*i]) != refs[i].Depth(0) {
				return nil, errors.New("merkle update does not commit to its children")
			}
		}
	}
	return c, nil
}

// MustNew panics on error (for generators that construct well-formed cells).
func MustNew(data []byte, bitLen int, refs []*Cell, special bool) *Cell {
	c, err := New(data, bitLen, refs, special)
	if err != nil {
		panic(err)
	}
	return c
}

func (c *Cell) Level() int { return mbits.Len8(c.Mask) }

func applyMask(m uint8, level int) uint8 { return m & (1<<uint(level) - 1) }

func (c *Cell) d1(mask uint8) byte {
	s := 0
	if c.Special {
		s = 8
	}
	return byte(len(c.Refs) + s + 32*int(mask))
}
func (c *Cell) d2() byte { return byte(c.BitLen/8 + (c.BitLen+7)/8) }

// PaddedData returns the data with the completion tag.
func (c *Cell) PaddedData() []byte {
	d := append([]byte{}, c.Data...)
	if c.BitLen%8 != 0 {
		d[len(d)-1] |= 0x80 >> uint(c.BitLen%8)
	}
	return d
}

// ErrDepth is returned when a cell would be deeper than 1024.
var ErrDepth = errors.New("depth limit exceeded")

func (c *Cell) computeHashes() error {
	// For a pruned branch only the top level (its own representation) is computed; lower levels are stored.
	own := mbits.OnesCount8(c.Mask) // hash index of the own representation for a pruned branch
	var prev [32]byte
	idx := -1
	for lvl := 0; lvl <= 3; lvl++ {
		significant := lvl == 0 || (c.Mask>>(uint(lvl)-1))&1 == 1
		if !significant {
			// same as the previous significant level
			if lvl > 0 {
				c.hashes[lvl] = c.hashes[lvl-1]
				c.depths[lvl] = c.depths[lvl-1]
			}
			continue
		}
		idx++
		if c.Type == PrunedBranch && idx != own {
			// stored
			copy(c.hashes[lvl][:], c.Data[2+32*idx:2+32*idx+32])
			c.depths[lvl] = binary.BigEndian.Uint16(c.Data[2+32*own+2*idx:])
			continue
		}
		h := sha256.New()
		h.Write([]byte{c.d1(applyMask(c.Mask, lvl)), c.d2()})
		first := idx == 0 || c.Type == PrunedBranch
		if first {
			h.Write(c.PaddedData())
		} else {
			h.Write(prev[:])
		}
		childLvl := lvl
		if c.Type == MerkleProof || c.Type == MerkleUpdate {
			childLvl = lvl + 1
		}
		depth := 0
		for _, r := range c.Refs {
			cd := int(r.Depth(childLvl))
			var b [2]byte
			binary.BigEndian.PutUint16(b[:], uint16(cd))
			h.Write(b[:])
			if cd+1 > depth {
				depth = cd + 1
			}
		}
		if depth > 1024 {
			return ErrDepth
		}
		for _, r := range c.Refs {
			rh := r.Hash(childLvl)
			h.Write(rh[:])
		}
		copy(c.hashes[lvl][:], h.Sum(nil))
		c.depths[lvl] = uint16(depth)
		prev = c.hashes[lvl]
	}
	return nil
}

// Hash returns the hash at the given level (0..3; larger levels clamp to 3).
func (c *Cell) Hash(level int) [32]byte {
	if level > 3 {
		level = 3
	}
	return c.hashes[level]
}

// Depth returns the depth at the given level.
func (c *Cell) Depth(level int) uint16 {
	if level > 3 {
		level = 3
	}
	return c.depths[level]
}

// ReprHash is the representation hash (level 3 = highest).
func (c *Cell) ReprHash() [32]byte { return c.hashes[3] }

// Walk visits every distinct cell (by pointer) of the DAG once, children first.
func (c *Cell) Walk(f func(*Cell)) {
	seen := map[*Cell]bool{}
	var rec func(x *Cell)
	rec = func(x *Cell) {
		if seen[x] {
			return
		}
		seen[x] = true
		for _, r := range x.Refs {
			rec(r)
		}
		f(x)
	}
	rec(c)
}

// DistinctHashes returns the number of distinct representation hashes in the DAG.
func (c *Cell) DistinctHashes() int {
	m := map[[32]byte]bool{}
	c.Walk(func(x *Cell) { m[x.ReprHash()] = true })
	return len(m)
}

// StructEqual compares two DAGs structurally (bits, special flag, ordered refs).
func StructEqual(a, b *Cell) bool {
	memo := map[[2]*Cell]bool{}
	var rec func(a, b *Cell) bool
	rec = func(a, b *Cell) bool {
		if a == b {
			return true
		}
		k := [2]*Cell{a, b}
		if v, ok := memo[k]; ok {
			return v
		}
		ok := a.BitLen == b.BitLen && a.Special == b.Special && len(a.Refs) == len(b.Refs) && string(a.Data) == string(b.Data)
		if ok {
			for i := range a.Refs {
				if !rec(a.Refs[i], b.Refs[i]) {
					ok = false
					break
				}
			}
		}
		memo[k] = ok
		return ok
	}
	return rec(a, b)
}

// Describe returns a short printable form.
func (c *Cell) Describe() string {
	seen := map[*Cell]int{}
	var rec func(x *Cell) string
	rec = func(x *Cell) string {
		if id, ok := seen[x]; ok {
			return fmt.Sprintf("#%d", id)
		}
		seen[x] = len(seen)
		s := fmt.Sprintf("#%d{", seen[x])
		if x.Special {
			s += fmt.Sprintf("!t%d ", x.Type)
		}
		if x.BitLen <= 64 {
			s += fmt.Sprintf("%db:%x", x.BitLen, x.Data)
		} else {
			s += fmt.Sprintf("%db:%x…", x.BitLen, x.Data[:6])
		}
		for _, r := range x.Refs {
			s += " " + rec(r)
		}
		return s + "}"
	}
	return rec(c)
}

// NewPruned builds the pruned-branch cell that replaces orig at the given additional level bit (1..3),
// i.e. mask = orig.Mask | 1<<(level-1), storing orig's hashes/depths for all significant lower levels.
func NewPruned(orig *Cell, level int) (*Cell, error) {
	m := orig.Mask | 1<<(uint(level)-1)
	if mbits.Len8(orig.Mask) >= level {
		return nil, errors.New("pruning level must exceed the original level")
	}
	var hs, ds []byte
	for l := 0; l < level; l++ {
		if l == 0 || (m>>(uint(l)-1))&1 == 1 {
			h := orig.Hash(l)
			hs = append(hs, h[:]...)
			var b [2]byte
			binary.BigEndian.PutUint16(b[:], orig.Depth(l))
			ds = append(ds, b[:]...)
		}
	}
	data := append([]byte{PrunedBranch, m}, append(hs, ds...)...)
	return New(data, len(data)*8, nil, true)
}

// NewMerkleProof wraps child.
func NewMerkleProof(child *Cell) (*Cell, error) {
	h := child.Hash(0)
	data := append([]byte{MerkleProof}, h[:]...)
	var b [2]byte
	binary.BigEndian.PutUint16(b[:], child.Depth(0))
	data = append(data, b[:]...)
	return New(data, len(data)*8, []*Cell{child}, true)
}

// NewMerkleUpdate wraps two children.
func NewMerkleUpdate(a, b *Cell) (*Cell, error) {
	ha, hb := a.Hash(0), b.Hash(0)
	data := append([]byte{MerkleUpdate}, ha[:]...)
	data = append(data, hb[:]...)
	var x [2]byte
	binary.BigEndian.PutUint16(x[:], a.Depth(0))
	data = append(data, x[:]...)
	binary.BigEndian.PutUint16(x[:], b.Depth(0))
	data = append(data, x[:]...)
	return New(data, len(data)*8, []*Cell{a, b}, true)
}

// NewLibrary builds a library reference cell.
func NewLibrary(hash [32]byte) *Cell {
	data := append([]byte{Library}, hash[:]...)
	return MustNew(data, len(data)*8, nil, true)
}
