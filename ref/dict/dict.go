// Package dict is the reference model of TON dictionaries (Hashmap / HashmapE):
// a sorted list of (key bits -> value) pairs, a serialiser that takes the label form of
// every edge as a parameter, and a parser that accepts all three label forms.
package dict

import (
	"errors"
	"fmt"
	mbits "math/bits"
	"sort"

	"verif/ref/bits"
	"verif/ref/cell"
)

// Value is the payload of a leaf: bits followed by references.
type Value struct {
	Bits bits.Bits
	Refs []*cell.Cell
}

// Entry is one key -> value pair; Key has exactly the dictionary's key width.
type Entry struct {
	Key   bits.Bits
	Value Value
}

// Sort orders entries by key bits (lexicographic = the order of a tree walk).
func Sort(es []Entry) {
	sort.Slice(es, func(i, j int) bool { return es[i].Key.String() < es[j].Key.String() })
}

// Form selects a label form.
type Form int

const (
	Short Form = iota
	Long
	Same
	Shortest // the form the reference node would choose
)

// labelBits encodes label (l bits) for an edge with m remaining key bits in the given form; ok=false if not admissible.
func labelBits(label bits.Bits, m int, f Form) (bits.Bits, bool) {
	l := len(label)
	k := mbits.Len(uint(m))
	lenField := func() bits.Bits {
		out := make(bits.Bits, k)
		for i := 0; i < k; i++ {
			out[i] = l>>(uint(k-1-i))&1 == 1
		}
		return out
	}
	same := true
	for i := 1; i < l; i++ {
		if label[i] != label[0] {
			same = false
		}
	}
	switch f {
	case Short:
		out := bits.Bits{false}
		for i := 0; i < l; i++ {
			out = append(out, true)
		}
		out = append(out, false)
		return append(out, label...), true
	case Long:
		out := bits.Bits{true, false}
		out = append(out, lenField()...)
		return append(out, label...), true
	case Same:
		if !same || l == 0 {
			// hml_same with n = 0 is admissible (v arbitrary); we use it only for l>=1 plus an explicit l=0 variant
			if l == 0 {
				out := bits.Bits{true, true, false}
				return append(out, lenField()...), true
			}
			return nil, false
		}
		out := bits.Bits{true, true, label[0]}
		return append(out, lenField()...), true
	default:
		best, _ := labelBits(label, m, Short)
		if b, ok := labelBits(label, m, Long); ok && len(b) < len(best) {
			best = b
		}
		if b, ok := labelBits(label, m, Same); ok && l > 0 && len(b) < len(best) {
			best = b
		}
		return best, true
	}
}

// Chooser returns the label form for the edge number i (in pre-order) — lets a harness enumerate all assignments.
type Chooser func(edge int, label bits.Bits, m int) Form

// Build serialises the entries (sorted, distinct keys of width n) as a Hashmap n X root cell.
func Build(es []Entry, n int, choose Chooser) (*cell.Cell, error) {
	return BuildAug(es, n, choose, nil)
}

// BuildAug is Build for HashmapAug: forkExtra gives the extra bits stored in a fork node after its label
// (leaf extras are simply the first bits of the leaf value).
func BuildAug(es []Entry, n int, choose Chooser, forkExtra func(sub []Entry) bits.Bits) (*cell.Cell, error) {
	if len(es) == 0 {
		return nil, errors.New("empty Hashmap has no cell")
	}
	edge := 0
	var rec func(es []Entry, pos, m int) (*cell.Cell, error)
	rec = func(es []Entry, pos, m int) (*cell.Cell, error) {
		// common prefix of all keys from pos
		l := 0
		for pos+l < n {
			same := true
			for _, e := range es[1:] {
				if e.Key[pos+l] != es[0].Key[pos+l] {
					same = false
					break
				}
			}
			if !same {
				break
			}
			l++
		}
		label := es[0].Key[pos : pos+l]
		f := Shortest
		if choose != nil {
			f = choose(edge, label, m)
		}
		edge++
		lb, ok := labelBits(label, m, f)
		if !ok {
			return nil, fmt.Errorf("label form %d not admissible for %s", f, label)
		}
		content := append(bits.Bits{}, lb...)
		var refs []*cell.Cell
		if pos+l == n {
			if len(es) != 1 {
				return nil, errors.New("duplicate key")
			}
			content = append(content, es[0].Value.Bits...)
			refs = es[0].Value.Refs
		} else {
			split := 0
			for split < len(es) && !es[split].Key[pos+l] {
				split++
			}
			if split == 0 || split == len(es) {
				return nil, errors.New("internal: no fork")
			}
			left, err := rec(es[:split], pos+l+1, m-l-1)
			if err != nil {
				return nil, err
			}
			right, err := rec(es[split:], pos+l+1, m-l-1)
			if err != nil {
				return nil, err
			}
			refs = []*cell.Cell{left, right}
			if forkExtra != nil {
				content = append(content, forkExtra(es)...)
			}
		}
		return cell.New(content.Bytes(), len(content), refs, false)
	}
	return rec(es, 0, n)
}

// ValueReader cuts the value out of a leaf: given the remaining bits and refs it returns the value
// (nil reader = take everything that remains).
type ValueReader func(rest bits.Bits, refs []*cell.Cell) (Value, error)

// Parse reads a Hashmap n X root cell into entries in tree-walk order. Pruned branches are an error.
func Parse(root *cell.Cell, n int, rd ValueReader) ([]Entry, error) {
	var out []Entry
	var rec func(c *cell.Cell, prefix bits.Bits, m int) error
	rec = func(c *cell.Cell, prefix bits.Bits, m int) error {
		if c.Special {
			return errors.New("exotic cell inside dictionary")
		}
		b := bits.FromBytes(c.Data, c.BitLen)
		p := 0
		need := func(k int) error {
			if p+k > len(b) {
				return errors.New("label truncated")
			}
			return nil
		}
		var label bits.Bits
		k := mbits.Len(uint(m))
		readLen := func() (int, error) {
			if err := need(k); err != nil {
				return 0, err
			}
			v := 0
			for i := 0; i < k; i++ {
				v <<= 1
				if b[p+i] {
					v |= 1
				}
			}
			p += k
			return v, nil
		}
		if err := need(1); err != nil {
			return err
		}
		if !b[p] { // short
			p++
			l := 0
			for {
				if err := need(1); err != nil {
					return err
				}
				if !b[p] {
					p++
					break
				}
				p++
				l++
			}
			if err := need(l); err != nil {
				return err
			}
			label = b[p : p+l]
			p += l
		} else {
			if err := need(2); err != nil {
				return err
			}
			if !b[p+1] { // long
				p += 2
				l, err := readLen()
				if err != nil {
					return err
				}
				if err := need(l); err != nil {
					return err
				}
				label = b[p : p+l]
				p += l
			} else { // same
				if err := need(3); err != nil {
					return err
				}
				v := b[p+2]
				p += 3
				l, err := readLen()
				if err != nil {
					return err
				}
				label = make(bits.Bits, l)
				for i := range label {
					label[i] = v
				}
			}
		}
		if len(label) > m {
			return errors.New("label longer than remaining key")
		}
		key := append(append(bits.Bits{}, prefix...), label...)
		if len(label) == m {
			v := Value{Bits: b[p:], Refs: c.Refs}
			if rd != nil {
				var err error
				v, err = rd(b[p:], c.Refs)
				if err != nil {
					return err
				}
			}
			out = append(out, Entry{Key: key, Value: v})
			return nil
		}
		if len(c.Refs) != 2 || p != len(b) {
			return fmt.Errorf("fork node with %d refs and %d trailing bits", len(c.Refs), len(b)-p)
		}
		if err := rec(c.Refs[0], append(append(bits.Bits{}, key...), false), m-len(label)-1); err != nil {
			return err
		}
		return rec(c.Refs[1], append(append(bits.Bits{}, key...), true), m-len(label)-1)
	}
	if err := rec(root, nil, n); err != nil {
		return nil, err
	}
	return out, nil
}

// CountEdges returns the number of edges (cells) of the tree for the given entries.
func CountEdges(es []Entry, n int) int {
	cnt := 0
	_, _ = Build(es, n, func(edge int, _ bits.Bits, _ int) Form { cnt = edge + 1; return Short })
	return cnt
}
