// Package tl is the reference model of TL schemas and their wire format:
// a line-based schema parser (independent of tongo's participle grammar) and primitive encoders.
package tl

import (
	"encoding/binary"
	"fmt"
	"hash/crc32"
	"regexp"
	"strconv"
	"strings"
)

// Field is one named field of a combinator.
type Field struct {
	Name string
	Type string // "int", "long", "int256", "bytes", "string", "Bool", "#", "true", "vector <T>", or a declared name
	// Cond: present iff bit Bit of field Flag is set (flag.N?T)
	Flag string
	Bit  int
}

// Decl is one combinator (constructor or function).
type Decl struct {
	Name   string
	ID     uint32
	Fields []Field
	Result string
	Func   bool
	Line   string
}

// Schema holds all combinators.
type Schema struct {
	Decls    []*Decl
	byName   map[string]*Decl
	byResult map[string][]*Decl
}

var condRe = regexp.MustCompile(`^([A-Za-z_][A-Za-z0-9_]*)\.(\d+)\?(.+)$`)

// Parse reads a .tl schema (comments //, ---functions--- separator).
func Parse(text string) (*Schema, error) {
	s := &Schema{byName: map[string]*Decl{}, byResult: map[string][]*Decl{}}
	funcs := false
	for _, raw := range strings.Split(text, "\n") {
		line := raw
		if i := strings.Index(line, "//"); i >= 0 {
			line = line[:i]
		}
		line = strings.TrimSpace(line)
		if line == "" {
			continue
		}
		if strings.HasPrefix(line, "---") {
			funcs = strings.Contains(line, "functions")
			continue
		}
		if !strings.HasSuffix(line, ";") {
			return nil, fmt.Errorf("declaration without ';': %q", raw)
		}
		line = strings.TrimSuffix(line, ";")
		eq := strings.LastIndex(line, "=")
		if eq < 0 {
			return nil, fmt.Errorf("declaration without '=': %q", raw)
		}
		d := &Decl{Result: strings.TrimSpace(line[eq+1:]), Func: funcs, Line: raw}
		toks := tokens(strings.TrimSpace(line[:eq]))
		if len(toks) == 0 {
			return nil, fmt.Errorf("empty declaration: %q", raw)
		}
		head := toks[0]
		if i := strings.Index(head, "#"); i >= 0 {
			id, err := strconv.ParseUint(head[i+1:], 16, 32)
			if err != nil {
				return nil, fmt.Errorf("bad id in %q", raw)
			}
			d.ID = uint32(id)
			d.Name = head[:i]
		} else {
			d.Name = head
			d.ID = crc32.ChecksumIEEE([]byte(strings.Join(append([]string{head}, append(toks[1:], "=", d.Result)...), " ")))
		}
		for _, t := range toks[1:] {
			colon := strings.Index(t, ":")
			if colon < 0 {
				return nil, fmt.Errorf("field without name in %q", raw)
			}
			f := Field{Name: t[:colon], Type: strings.TrimSpace(t[colon+1:])}
			if m := condRe.FindStringSubmatch(f.Type); m != nil {
				f.Flag = m[1]
				f.Bit, _ = strconv.Atoi(m[2])
				f.Type = m[3]
			}
			f.Type = strings.TrimSpace(strings.TrimSuffix(strings.TrimPrefix(f.Type, "("), ")"))
			d.Fields = append(d.Fields, f)
		}
		s.Decls = append(s.Decls, d)
		s.byName[d.Name] = d
		if !funcs {
			s.byResult[d.Result] = append(s.byResult[d.Result], d)
		}
	}
	return s, nil
}

// tokens splits on spaces but keeps parenthesised groups together.
func tokens(s string) []string {
	var out []string
	depth := 0
	cur := ""
	for _, r := range s {
		switch {
		case r == '(':
			depth++
			cur += string(r)
		case r == ')':
			depth--
			cur += string(r)
		case (r == ' ' || r == '\t') && depth == 0:
			if cur != "" {
				out = append(out, cur)
				cur = ""
			}
		default:
			cur += string(r)
		}
	}
	if cur != "" {
		out = append(out, cur)
	}
	return out
}

// Constructor looks a constructor or function up by name.
func (s *Schema) Constructor(name string) *Decl { return s.byName[name] }

// Boxed returns the constructors of a boxed type name (nil if the name is not a result type).
func (s *Schema) Boxed(result string) []*Decl { return s.byResult[result] }

// ---- primitive encoders --------------------------------------------------------------------

func U32(v uint32) []byte { b := make([]byte, 4); binary.LittleEndian.PutUint32(b, v); return b }
func U64(v uint64) []byte { b := make([]byte, 8); binary.LittleEndian.PutUint64(b, v); return b }

// Bytes: length prefix (1 byte < 254, or 0xfe + 3 bytes LE), data, zero padding to a multiple of 4.
func Bytes(data []byte) []byte {
	var b []byte
	if len(data) < 254 {
		b = append(b, byte(len(data)))
	} else {
		b = append(b, 0xfe, byte(len(data)), byte(len(data)>>8), byte(len(data)>>16))
	}
	b = append(b, data...)
	for len(b)%4 != 0 {
		b = append(b, 0)
	}
	return b
}

func Bool(v bool) []byte {
	if v {
		return U32(0x997275b5)
	}
	return U32(0xbc799737)
}

// CamelKey normalises a schema or Go identifier for matching: letters and digits only, lower case.
func CamelKey(s string) string {
	var sb strings.Builder
	for _, r := range s {
		if r >= 'A' && r <= 'Z' {
			r += 'a' - 'A'
		}
		if (r >= 'a' && r <= 'z') || (r >= '0' && r <= '9') {
			sb.WriteRune(r)
		}
	}
	return sb.String()
}
