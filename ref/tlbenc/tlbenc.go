// Package tlbenc holds reference bit-level encoders for the block.tlb core, written from the schema text.
package tlbenc

import (
	"math/big"
	mbits "math/bits"

	"verif/ref/bits"
	"verif/ref/cell"
)

// B is a cell under construction.
type B struct {
	Bits bits.Bits
	Refs []*cell.Cell
}

func (b *B) Bit(v bool) *B { b.Bits = append(b.Bits, v); return b }
func (b *B) Uint(v uint64, n int) *B {
	b.Bits = append(b.Bits, bits.FromUint(new(big.Int).SetUint64(v), n)...)
	return b
}
func (b *B) Int(v int64, n int) *B {
	b.Bits = append(b.Bits, bits.FromInt(big.NewInt(v), n)...)
	return b
}
func (b *B) BigUint(v *big.Int, n int) *B { b.Bits = append(b.Bits, bits.FromUint(v, n)...); return b }
func (b *B) Raw(x bits.Bits) *B           { b.Bits = append(b.Bits, x...); return b }
func (b *B) Ref(c *cell.Cell) *B          { b.Refs = append(b.Refs, c); return b }

// Append copies the content of a cell (bits and refs) inline.
func (b *B) Append(c *cell.Cell) *B {
	b.Bits = append(b.Bits, bits.FromBytes(c.Data, c.BitLen)...)
	b.Refs = append(b.Refs, c.Refs...)
	return b
}

// Cell finishes the cell (error if it does not fit).
func (b *B) Cell() (*cell.Cell, error) { return cell.New(b.Bits.Bytes(), len(b.Bits), b.Refs, false) }

// VarUint: var_uint$_ {n:#} len:(#< n) value:(uint (len * 8)) = VarUInteger n; minimal len.
func (b *B) VarUint(v *big.Int, n int) *B {
	l := (v.BitLen() + 7) / 8
	b.Uint(uint64(l), mbits.Len(uint(n-1)))
	return b.BigUint(v, 8*l)
}

// Grams: nanograms$_ amount:(VarUInteger 16) = Grams;
func (b *B) Grams(v uint64) *B { return b.VarUint(new(big.Int).SetUint64(v), 16) }

// Addr is an abstract MsgAddress.
type Addr struct {
	Kind    int // 0 addr_none, 1 addr_extern, 2 addr_std, 3 addr_var
	Anycast *Anycast
	WC      int32
	Bits    bits.Bits // extern: 0..511 bits, std: 256 bits, var: addr_len bits
}
type Anycast struct {
	Depth int
	Pfx   uint32
}

func (b *B) Addr(a Addr) *B {
	b.Uint(uint64(a.Kind), 2)
	switch a.Kind {
	case 1:
		b.Uint(uint64(len(a.Bits)), 9).Raw(a.Bits)
	case 2, 3:
		if a.Anycast == nil {
			b.Bit(false)
		} else {
			// anycast_info$_ depth:(#<= 30) { depth >= 1 } rewrite_pfx:(bits depth) = Anycast;
			b.Bit(true).Uint(uint64(a.Anycast.Depth), 5).Uint(uint64(a.Anycast.Pfx), a.Anycast.Depth)
		}
		if a.Kind == 2 {
			b.Int(int64(a.WC), 8).Raw(a.Bits)
		} else {
			b.Uint(uint64(len(a.Bits)), 9).Int(int64(a.WC), 32).Raw(a.Bits)
		}
	}
	return b
}

// CC: currencies$_ grams:Grams other:ExtraCurrencyCollection (empty dictionary).
func (b *B) CC(grams uint64) *B { return b.Grams(grams).Bit(false) }

// Info is an abstract CommonMsgInfo.
type Info struct {
	Kind                          int // 0 int, 1 ext-in, 2 ext-out
	IhrDisabled, Bounce, Bounced  bool
	Src, Dest                     Addr
	Value, IhrFee, FwdFee, Import uint64
	Lt                            uint64
	At                            uint32
	// ImportPad adds that many leading zero bytes to the import fee: a non-minimal but schema-conformant
	// VarUInteger 16 (len counts the bytes, the value simply has leading zeros).
	ImportPad int
}

func (b *B) Info(i Info) *B {
	switch i.Kind {
	case 0:
		b.Bit(false).Bit(i.IhrDisabled).Bit(i.Bounce).Bit(i.Bounced).Addr(i.Src).Addr(i.Dest).CC(i.Value).Grams(i.IhrFee).Grams(i.FwdFee).Uint(i.Lt, 64).Uint(uint64(i.At), 32)
	case 1:
		if i.ImportPad > 0 {
			v := new(big.Int).SetUint64(i.Import)
			l := (v.BitLen()+7)/8 + i.ImportPad
			b.Uint(2, 2).Addr(i.Src).Addr(i.Dest).Uint(uint64(l), 4).BigUint(v, 8*l)
		} else {
			b.Uint(2, 2).Addr(i.Src).Addr(i.Dest).Grams(i.Import)
		}
	case 2:
		b.Uint(3, 2).Addr(i.Src).Addr(i.Dest).Uint(i.Lt, 64).Uint(uint64(i.At), 32)
	}
	return b
}

// StateInit is an abstract state-init with an empty library.
type StateInit struct {
	SplitDepth *int
	Special    *[2]bool
	Code, Data *cell.Cell
}

func (b *B) StateInit(s StateInit) *B {
	if s.SplitDepth != nil {
		b.Bit(true).Uint(uint64(*s.SplitDepth), 5)
	} else {
		b.Bit(false)
	}
	if s.Special != nil {
		b.Bit(true).Bit(s.Special[0]).Bit(s.Special[1])
	} else {
		b.Bit(false)
	}
	for _, c := range []*cell.Cell{s.Code, s.Data} {
		if c != nil {
			b.Bit(true).Ref(c)
		} else {
			b.Bit(false)
		}
	}
	return b.Bit(false)
}

// Message: message$_ info init:(Maybe (Either StateInit ^StateInit)) body:(Either X ^X).
type Message struct {
	Info    Info
	Init    *StateInit
	InitRef bool
	Body    *cell.Cell
	BodyRef bool
}

func (m Message) Cell() (*cell.Cell, error) {
	b := &B{}
	b.Info(m.Info)
	if m.Init == nil {
		b.Bit(false)
	} else {
		b.Bit(true)
		if m.InitRef {
			ic, err := (&B{}).StateInit(*m.Init).Cell()
			if err != nil {
				return nil, err
			}
			b.Bit(true).Ref(ic)
		} else {
			b.Bit(false).StateInit(*m.Init)
		}
	}
	if m.BodyRef {
		b.Bit(true).Ref(m.Body)
	} else {
		b.Bit(false).Append(m.Body)
	}
	return b.Cell()
}
