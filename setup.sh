#!/bin/bash
# Builds the framework offline and warms the Go build cache.
set -e
cd "$(dirname "$0")"
export GOFLAGS=-mod=mod GOPROXY=off GOSUMDB=off GOTOOLCHAIN=local CGO_ENABLED=0
cat /repo/go.sum go.sum.extra | sort -u > go.sum
mkdir -p bin evidence replays .work
go build -o bin/mkoverlay ./cmd/mkoverlay
bin/mkoverlay -id setup -out .work
if [ -f .work/overlay.json ]; then OV="-overlay .work/overlay.json"; else OV=""; fi
go build -tags verif $OV -o bin/check ./cmd/check
echo setup ok
