package sched

import (
	"fmt"
	"sort"
	"unsafe"
)

// Happens-before race detection (vector clocks, FastTrack-style shadow words) on top of the cooperative scheduler.
//
// The shims report every synchronisation edge of the Go memory model (go statement, mutex release -> acquire,
// channel send -> receive and receive -> send completion, close -> receive, timer / context creation -> firing,
// socket write -> read as the runtime's poller does under -race); the instrumenter reports reads and writes of
// struct fields reached through pointers, of package-level variables and of maps. Two accesses to the same
// location, at least one of them a write, that are not ordered by those edges are a data race of the explored
// execution - whatever the order in which the cooperative scheduler happened to run them.

// VC is a vector clock indexed by thread id.
type VC []uint32

func (v VC) get(i int) uint32 {
	if i < len(v) {
		return v[i]
	}
	return 0
}

// Copy returns an independent copy.
func (v VC) Copy() VC { return append(VC(nil), v...) }

// Join merges o into v (pointwise maximum) and returns the result.
func (v VC) Join(o VC) VC {
	for len(v) < len(o) {
		v = append(v, 0)
	}
	for i, x := range o {
		if x > v[i] {
			v[i] = x
		}
	}
	return v
}

type epoch struct {
	tid  int
	clk  uint32
	site string
}

type shadow struct {
	w     epoch
	hasW  bool
	reads []epoch
}

// RaceReport describes the first data race of an execution.
type RaceReport struct {
	Key    string // stable identification: the two source sites, sorted
	Detail string
}

func (s *S) curVC() (*Thread, bool) {
	if s == nil || s.dead || !s.RaceDetect || s.cur == nil || s.inTimer {
		return nil, false
	}
	return s.cur, true
}

func (t *Thread) tick() {
	for len(t.vc) <= t.ID {
		t.vc = append(t.vc, 0)
	}
	t.vc[t.ID]++
}

// Snapshot returns the current thread's clock and advances it (a release operation). Outside a thread
// (timer callbacks) it returns the clock the callback runs under.
func (s *S) Snapshot() VC {
	if s == nil || !s.RaceDetect {
		return nil
	}
	if s.inTimer {
		return s.timerVC.Copy()
	}
	t, ok := s.curVC()
	if !ok {
		return nil
	}
	c := t.vc.Copy()
	t.tick()
	return c
}

// AcquireVC merges a released clock into the current thread.
func (s *S) AcquireVC(v VC) {
	if v == nil {
		return
	}
	if s != nil && s.RaceDetect && s.inTimer {
		s.timerVC = s.timerVC.Join(v)
		return
	}
	if t, ok := s.curVC(); ok {
		t.vc = t.vc.Join(v)
	}
}

// ReleaseInto merges the current thread's clock into *dst (release-merge) and advances the thread.
func (s *S) ReleaseInto(dst *VC) {
	if v := s.Snapshot(); v != nil {
		*dst = (*dst).Join(v)
	}
}

// ReleaseStore overwrites *dst with the current thread's clock and advances the thread.
func (s *S) ReleaseStore(dst *VC) {
	if v := s.Snapshot(); v != nil {
		*dst = v
	}
}

// AcquireFinished orders everything the finished threads did before the caller (the harness's join).
func (s *S) AcquireFinished() {
	t, ok := s.curVC()
	if !ok {
		return
	}
	for _, o := range s.threads {
		if o.st == stDone {
			t.vc = t.vc.Join(o.vc)
		}
	}
}

// Access records a read or write of the memory location p by the current thread.
func (s *S) Access(p unsafe.Pointer, write bool, site string) {
	t, ok := s.curVC()
	if !ok || p == nil || s.Race != nil {
		return
	}
	if s.shadow == nil {
		s.shadow = map[unsafe.Pointer]*shadow{}
	}
	sh := s.shadow[p]
	if sh == nil {
		sh = &shadow{}
		s.shadow[p] = sh
	}
	me := epoch{t.ID, t.vc.get(t.ID), site}
	hb := func(e epoch) bool { return e.tid == t.ID || e.clk <= t.vc.get(e.tid) }
	report := func(kind string, prev epoch, prevKind string) {
		sites := []string{site, prev.site}
		sort.Strings(sites)
		s.Race = &RaceReport{
			Key: sites[0] + "|" + sites[1],
			Detail: fmt.Sprintf("%s at %s by T%d(%s) is not ordered with the previous %s at %s by T%d(%s)",
				kind, site, t.ID, t.Name, prevKind, prev.site, prev.tid, s.threads[prev.tid].Name),
		}
		s.tracef("DATA RACE %s", s.Race.Detail)
	}
	if sh.hasW && !hb(sh.w) {
		if write {
			report("write", sh.w, "write")
		} else {
			report("read", sh.w, "write")
		}
		return
	}
	if write {
		for _, r := range sh.reads {
			if !hb(r) {
				report("write", r, "read")
				return
			}
		}
		sh.w, sh.hasW, sh.reads = me, true, sh.reads[:0]
		return
	}
	for i, r := range sh.reads {
		if r.tid == t.ID {
			sh.reads[i] = me
			return
		}
	}
	sh.reads = append(sh.reads, me)
}
