// Package sched is the cooperative scheduler behind the shim packages (engine E2 of DESIGN.md).
//
// Every goroutine of the instrumented code is a *thread* parked on its own semaphore; exactly one
// runs at a time. At every synchronisation operation the running thread registers its pending
// operation and asks the scheduler who runs next; the answer comes from the explorer (a choice
// point of mc/enum). Switching away from a thread that could continue costs one preemption
// (enum.Ctx.Choose); all other scheduling choices are free (ChooseFree).
//
// Time is virtual: it advances only when no thread is enabled, to the earliest pending deadline.
package sched

import (
	"fmt"
	"os"
	"runtime"
	"sort"
	"strings"
	"sync"
	"time"
	"unsafe"
)

// Chooser is the explorer's interface.
type Chooser interface {
	Choose(n int) int
	ChooseFree(n int) int
}

type status int

const (
	stRunnable status = iota // has a pending operation; may be enabled or not
	stDone
)

// Thread is one cooperative goroutine.
type Thread struct {
	ID          int
	Name        string
	wake        chan struct{}
	st          status
	enabled     func() bool // is the pending operation enabled now?
	desc        string      // description of the pending op (for traces / deadlock reports)
	deadline    time.Time   // for sleeping threads: becomes enabled at this virtual time
	hasDeadline bool
	client      bool // a thread whose completion the harness waits for
	killed      bool
	vc          VC // vector clock (race detection)
}

// S is the scheduler state of one execution.
type S struct {
	ch       Chooser
	threads  []*Thread
	cur      *Thread
	now      time.Time
	horizon  time.Time
	steps    int
	maxSteps int
	Trace    []string
	traceOn  bool
	dead     bool
	timers   []*timer
	// outcome
	Deadlock    string
	StepCap     bool
	HorizonHit  bool
	mainDone    chan struct{}
	states      map[uint64]struct{}
	Preemptions int
	// ModeB: firing the earliest pending timer although some thread is enabled is an explored deviation (cost 1).
	ModeB     bool
	TimeJumps int
	// DelayBounded (default): every departure from the deterministic base scheduler costs one deviation
	// (delay-bounded scheduling); otherwise only preemptions of a runnable thread cost (context bounding).
	DelayBounded bool
	wg           sync.WaitGroup
	// RaceDetect turns on happens-before race detection (see race.go); Race is the first race found.
	RaceDetect bool
	Race       *RaceReport
	shadow     map[unsafe.Pointer]*shadow
	inTimer    bool // a timer callback is running (no current thread): clocks come from timerVC
	timerVC    VC
}

type timer struct {
	when   time.Time
	fire   func()
	active bool
	id     int
	vc     VC // clock of the thread that armed the timer
}

var (
	// G is the scheduler of the execution in progress (exactly one execution runs per process at a time).
	G  *S
	mu sync.Mutex // protects G swap only
)

// Start creates the scheduler for one execution.
func Start(ch Chooser, start time.Time, horizon time.Duration, maxSteps int, trace bool) *S {
	s := &S{DelayBounded: true, ch: ch, now: start, horizon: start.Add(horizon), maxSteps: maxSteps, traceOn: trace, mainDone: make(chan struct{}), states: map[uint64]struct{}{}}
	mu.Lock()
	G = s
	mu.Unlock()
	return s
}

// Now returns the virtual time.
func (s *S) Now() time.Time { return s.now }

func (s *S) tracef(format string, a ...any) {
	if s.traceOn && len(s.Trace) < 4000 {
		id := -1
		if s.cur != nil {
			id = s.cur.ID
		}
		s.Trace = append(s.Trace, fmt.Sprintf("t=%v T%d ", s.now.Sub(s.horizon).Round(time.Millisecond), id)+fmt.Sprintf(format, a...))
	}
}

// Run executes body as thread 0 and returns when every client thread has finished, on deadlock, or at the horizon.
func (s *S) Run(body func()) {
	main := s.newThread("main", true)
	s.cur = main
	s.wg.Add(1)
	go func() {
		defer s.wg.Done()
		<-main.wake
		if s.dead {
			return
		}
		defer s.exitThread(main)
		body()
	}()
	main.wake <- struct{}{}
	select {
	case <-s.mainDone:
	case <-time.After(watchdog): // real time: a lost baton is a bug of the scheduler itself
		for _, l := range s.Trace {
			fmt.Fprintln(os.Stderr, "TRACE", l)
		}
		for _, t := range s.threads {
			fmt.Fprintf(os.Stderr, "THREAD %d %s st=%d desc=%s\n", t.ID, t.Name, t.st, t.desc)
		}
		panic("sched: execution made no progress for 60 s of real time (scheduler bug or uninstrumented blocking call)")
	}
	s.wg.Wait() // every goroutine of this execution has unwound (teardown mode) before the next one starts
}

func (s *S) newThread(name string, client bool) *Thread {
	t := &Thread{ID: len(s.threads), Name: name, wake: make(chan struct{}, 1), client: client}
	t.enabled = func() bool { return true }
	s.threads = append(s.threads, t)
	if s.RaceDetect {
		// go statement (or timer callback) happens before the start of the new thread
		t.vc = s.Snapshot()
		t.tick()
	}
	return t
}

// Go spawns a thread. It is a scheduling point.
func (s *S) Go(name string, f func()) {
	if s.dead {
		return
	}
	t := s.newThread(name, false)
	t.desc = "start " + name
	s.wg.Add(1)
	go func() {
		defer s.wg.Done()
		<-t.wake
		if s.dead {
			return
		}
		defer s.exitThread(t)
		f()
	}()
	// no scheduling point here: the child is runnable from now on and the parent's next visible operation has a point in front of it
}

// GoClient spawns a thread whose completion is awaited by the harness.
func (s *S) GoClient(name string, f func()) {
	if s.dead {
		return
	}
	t := s.newThread(name, true)
	t.desc = "start " + name
	s.wg.Add(1)
	go func() {
		defer s.wg.Done()
		<-t.wake
		if s.dead {
			return
		}
		defer s.exitThread(t)
		f()
	}()
}

type killed struct{}

func (s *S) exitThread(t *Thread) {
	if r := recover(); r != nil {
		if _, ok := r.(killed); ok {
			return
		}
		if s.dead {
			return
		}
		// a panic in the code under test: record and stop the execution
		s.Deadlock = fmt.Sprintf("PANIC in thread %d (%s): %v", t.ID, t.Name, r)
		s.finish()
		return
	}
	if s.dead {
		return
	}
	t.st = stDone
	s.tracef("exit")
	s.next()
}

// Yield is the scheduling point: the current thread's next operation is enabled iff enabled() (nil = always).
// It returns when the thread is scheduled with its operation enabled.
func (s *S) Yield(desc string, enabled func() bool) {
	if s.dead {
		panic(killed{})
	}
	t := s.cur
	t.desc = desc
	if enabled == nil {
		enabled = func() bool { return true }
	}
	t.enabled = enabled
	if !s.next() {
		// parked: wait to be woken (the decision is taken before the baton is handed over: after that
		// this goroutine must not read scheduler state any more)
		<-t.wake
		if s.dead {
			panic(killed{})
		}
	}
	t.hasDeadline = false
}

// SleepUntil parks the current thread until virtual time reaches d.
func (s *S) SleepUntil(d time.Time, desc string) {
	t := s.cur
	t.deadline, t.hasDeadline = d, true
	s.Yield(desc, func() bool { return !s.now.Before(d) })
}

func (s *S) allClientsDone() bool {
	for _, t := range s.threads {
		if t.client && t.st != stDone {
			return false
		}
	}
	return true
}

// next picks the thread to run and hands the baton over. Called by the running thread.
// It reports whether the calling thread keeps running.
func (s *S) next() bool {
	for {
		if s.allClientsDone() {
			s.finish()
			return false
		}
		s.steps++
		if s.steps > s.maxSteps {
			s.StepCap = true
			s.finish()
			return false
		}
		// fire due timers (they only make channels ready; no thread switch)
		s.fireDue()
		var en []*Thread
		for _, t := range s.threads {
			if t.st == stRunnable && t.enabled() {
				en = append(en, t)
			}
		}
		if len(en) == 0 {
			// advance virtual time to the earliest deadline
			next, ok := s.earliest()
			if !ok {
				s.Deadlock = s.describeBlocked()
				s.finish()
				return false
			}
			if next.After(s.horizon) {
				s.HorizonHit = true
				s.finish()
				return false
			}
			s.now = next
			continue
		}
		// canonical order: the running thread first if it is enabled, then the others round-robin after it
		cur := s.cur
		curEnabled := false
		sort.Slice(en, func(i, j int) bool {
			a, b := en[i].ID-cur.ID, en[j].ID-cur.ID
			if a < 0 {
				a += 1 << 20
			}
			if b < 0 {
				b += 1 << 20
			}
			return a < b
		})
		if en[0] == cur {
			curEnabled = true
		}
		if s.ModeB {
			if nextT, ok := s.earliest(); ok && !nextT.After(s.horizon) {
				if s.ch.Choose(2) == 1 {
					s.TimeJumps++
					s.now = nextT
					s.tracef("time jump (deviation)")
					continue
				}
			}
		}
		k := 0
		if len(en) > 1 {
			if curEnabled || s.DelayBounded {
				// preemption bounding: leaving a runnable thread costs one deviation.
				// delay bounding (default): the base scheduler is deterministic (continue, else round-robin);
				// every departure from it, also when the running thread blocked, costs one deviation.
				k = s.ch.Choose(len(en))
				if k != 0 {
					s.Preemptions++
				}
			} else {
				k = s.ch.ChooseFree(len(en))
			}
		}
		chosen := en[k]
		s.fingerprint()
		if chosen == cur {
			return true
		}
		s.tracef("switch -> T%d (%s)", chosen.ID, chosen.desc)
		s.cur = chosen
		chosen.wake <- struct{}{}
		return false
	}
}

func (s *S) earliest() (time.Time, bool) {
	var best time.Time
	ok := false
	for _, t := range s.threads {
		if t.st == stRunnable && t.hasDeadline && t.deadline.After(s.now) {
			if !ok || t.deadline.Before(best) {
				best, ok = t.deadline, true
			}
		}
	}
	for _, tm := range s.timers {
		if tm.active && tm.when.After(s.now) {
			if !ok || tm.when.Before(best) {
				best, ok = tm.when, true
			}
		}
	}
	return best, ok
}

func (s *S) fireDue() {
	for {
		fired := false
		// fire in (when, id) order
		var due *timer
		for _, tm := range s.timers {
			if tm.active && !tm.when.After(s.now) {
				if due == nil || tm.when.Before(due.when) || (tm.when.Equal(due.when) && tm.id < due.id) {
					due = tm
				}
			}
		}
		if due != nil {
			due.active = false
			s.inTimer, s.timerVC = true, due.vc.Copy()
			due.fire()
			s.inTimer = false
			fired = true
		}
		if !fired {
			return
		}
	}
}

// AddTimer registers fire to run (inside the scheduler, no thread) when virtual time reaches when.
func (s *S) AddTimer(when time.Time, fire func()) *timer {
	tm := &timer{when: when, fire: fire, active: true, id: len(s.timers), vc: s.Snapshot()}
	s.timers = append(s.timers, tm)
	return tm
}

// StopTimer deactivates a timer; reports whether it was active.
func (s *S) StopTimer(tm *timer) bool {
	was := tm.active
	tm.active = false
	return was
}

// ResetTimer re-arms a timer.
func (s *S) ResetTimer(tm *timer, when time.Time) {
	tm.when, tm.active = when, true
	if s.RaceDetect {
		tm.vc = s.Snapshot()
	}
}

func (s *S) describeBlocked() string {
	var parts []string
	for _, t := range s.threads {
		if t.st == stRunnable {
			parts = append(parts, fmt.Sprintf("T%d(%s) blocked at %s", t.ID, t.Name, t.desc))
		}
	}
	return "DEADLOCK: " + strings.Join(parts, "; ")
}

// Blocked lists the threads that have not finished (for horizon reports).
func (s *S) Blocked() string { return s.describeBlocked() }

func (s *S) fingerprint() {
	var h uint64 = 1469598103934665603
	mix := func(x uint64) { h ^= x; h *= 1099511628211 }
	for _, t := range s.threads {
		mix(uint64(t.st))
		for i := 0; i < len(t.desc); i++ {
			mix(uint64(t.desc[i]))
		}
	}
	mix(uint64(s.now.UnixNano()))
	s.states[h] = struct{}{}
}

// States returns the number of distinct scheduler fingerprints seen, Steps the number of scheduling points.
func (s *S) States() int { return len(s.states) }
func (s *S) Steps() int  { return s.steps }

// finish ends the execution: all parked goroutines are released in teardown mode.
func (s *S) finish() {
	if s.dead {
		return
	}
	s.dead = true
	for _, t := range s.threads {
		if t != s.cur && t.st != stDone {
			select {
			case t.wake <- struct{}{}:
			default:
			}
		}
	}
	close(s.mainDone)
	// the calling goroutine is one of the threads: it must stop running the code under test
	runtime.Goexit()
}

// Dead reports teardown mode (shim operations become no-ops / exits).
func (s *S) Dead() bool { return s == nil || s.dead }

// Cur returns the running thread id.
func (s *S) Cur() int {
	if s.cur == nil {
		return -1
	}
	return s.cur.ID
}

// ChooseFree asks the explorer for a free (zero-cost) choice.
func ChooseFree(n int) int { return G.ch.ChooseFree(n) }

// Choose asks the explorer for a costed choice.
func Choose(n int) int { return G.ch.Choose(n) }

// PanicKilled unwinds the calling thread in teardown mode.
func PanicKilled() { panic(killed{}) }

// StopAny / ResetAny operate on the opaque timer handle returned by AddTimer.
func StopAny(s *S, h interface{}) bool             { return s.StopTimer(h.(*timer)) }
func ResetAny(s *S, h interface{}, when time.Time) { s.ResetTimer(h.(*timer), when) }

// SpawnFromTimer creates a runnable thread from inside the scheduler (timer callback).
func (s *S) SpawnFromTimer(name string, f func()) {
	t := s.newThread(name, false)
	t.desc = "start " + name
	s.wg.Add(1)
	go func() {
		defer s.wg.Done()
		<-t.wake
		if s.dead {
			return
		}
		defer s.exitThread(t)
		f()
	}()
}

// Tracef adds a line to the execution trace (when tracing is on).
func (s *S) Tracef(format string, a ...any) {
	if s != nil {
		s.tracef(format, a...)
	}
}

// Live returns the number of threads that have not finished.
func (s *S) Live() int {
	n := 0
	for _, t := range s.threads {
		if t.st != stDone {
			n++
		}
	}
	return n
}

// LiveExcept counts the unfinished threads whose name does not start with prefix (environment threads of the harness).
func (s *S) LiveExcept(prefix string) int {
	n := 0
	for _, t := range s.threads {
		if t.st != stDone && !strings.HasPrefix(t.Name, prefix) {
			n++
		}
	}
	return n
}

var watchdog = 60 * time.Second

func init() {
	if os.Getenv("VERIF_SCHED_WATCHDOG") != "" {
		watchdog = 5 * time.Second
	}
}
