// Package vcrand replaces "crypto/rand": a deterministic byte stream, reset by the harness per execution.
package vcrand

import "io"

type reader struct{}

var state uint64 = 0x9E3779B97F4A7C15

// Reset restarts the stream.
func Reset(seed uint64) { state = seed*0x9E3779B97F4A7C15 + 0x1234567 }

func next() byte {
	state ^= state << 13
	state ^= state >> 7
	state ^= state << 17
	return byte(state >> 24)
}

func (reader) Read(p []byte) (int, error) {
	for i := range p {
		p[i] = next()
	}
	return len(p), nil
}

// Reader replaces crypto/rand.Reader.
var Reader io.Reader = reader{}

func Read(p []byte) (int, error) { return Reader.Read(p) }
