// Package vctx replaces "context" in scheduler-instrumented sources.
package vctx

import (
	"context"
	"errors"
	"time"

	"verif/shim/sched"
	"verif/shim/vsync"
)

type (
	Context    = context.Context
	CancelFunc = context.CancelFunc
)

var (
	Canceled         = context.Canceled
	DeadlineExceeded = context.DeadlineExceeded
)

type vctx struct {
	parent   Context
	done     chan struct{}
	err      error
	deadline time.Time
	hasDl    bool
	closed   bool
	children []*vctx
}

type background struct{}

func (background) Deadline() (time.Time, bool) { return time.Time{}, false }
func (background) Done() <-chan struct{}       { return nil }
func (background) Err() error                  { return nil }
func (background) Value(any) any               { return nil }

func Background() Context { return background{} }
func TODO() Context       { return background{} }

func (c *vctx) Deadline() (time.Time, bool) { return c.deadline, c.hasDl }
func (c *vctx) Done() <-chan struct{}       { return c.done }
func (c *vctx) Err() error                  { return c.err }
func (c *vctx) Value(k any) any {
	if c.parent != nil {
		return c.parent.Value(k)
	}
	return nil
}

func (c *vctx) cancel(err error, schedulePoint bool) {
	if schedulePoint && !sched.G.Dead() {
		sched.G.Yield("ctx cancel", nil)
	}
	if c.closed {
		return
	}
	c.closed = true
	c.err = err
	vsync.CloseQuiet(c.done)
	for _, ch := range c.children {
		ch.cancel(err, false)
	}
}

func newChild(parent Context) *vctx {
	c := &vctx{parent: parent, done: make(chan struct{})}
	if p, ok := parent.(*vctx); ok {
		if p.closed {
			c.closed, c.err = true, p.err
			vsync.CloseQuiet(c.done)
		} else {
			p.children = append(p.children, c)
		}
		if p.hasDl {
			c.deadline, c.hasDl = p.deadline, true
		}
	} else if parent != nil && parent.Done() != nil {
		panic("vctx: parent context is not a virtual context")
	}
	return c
}

func WithCancel(parent Context) (Context, CancelFunc) {
	c := newChild(parent)
	return c, func() { c.cancel(Canceled, true) }
}

func WithTimeout(parent Context, d time.Duration) (Context, CancelFunc) {
	return WithDeadline(parent, sched.G.Now().Add(d))
}

func WithDeadline(parent Context, dl time.Time) (Context, CancelFunc) {
	c := newChild(parent)
	if !c.hasDl || dl.Before(c.deadline) {
		c.deadline, c.hasDl = dl, true
	}
	g := sched.G
	if !g.Dead() && !c.closed {
		g.AddTimer(c.deadline, func() { c.cancel(DeadlineExceeded, false) })
	}
	return c, func() { c.cancel(Canceled, true) }
}

var _ = errors.New
