// Package vnet replaces "net" in scheduler-instrumented sources: an in-memory network whose
// blocking operations are scheduling points.
package vnet

import (
	"context"
	"errors"
	"io"
	"net"
	"os"
	"time"

	"verif/shim/sched"
)

type (
	Conn = net.Conn
	Addr = net.Addr
)

// Net is the virtual network of one execution (set by the harness).
type Net struct {
	// Accept is called (as a new thread) with the server side of every accepted connection.
	Accept func(host string, c *VConn)
	// RefuseDials: the next n dials fail.
	RefuseDials int
	Dials       int
	Conns       []*VConn
	// ioSync mirrors the runtime poller's race annotations: every socket write is released into it, every read acquires it.
	ioSync sched.VC
}

// Current is the network in use.
var Current *Net

type Dialer struct {
	Timeout time.Duration
}

var ErrRefused = errors.New("connection refused")

func (d *Dialer) DialContext(ctx context.Context, network, host string) (Conn, error) {
	g := sched.G
	if g.Dead() {
		sched.PanicKilled()
	}
	n := Current
	g.Yield("dial "+host, nil)
	if err := ctx.Err(); err != nil {
		return nil, err // a dial with an expired or cancelled context fails at once, as net.Dialer does
	}
	n.Dials++
	if n.RefuseDials > 0 {
		n.RefuseDials--
		return nil, ErrRefused
	}
	a, b := &VConn{name: "client"}, &VConn{name: "server"}
	a.peer, b.peer = b, a
	n.Conns = append(n.Conns, a)
	if n.Accept != nil {
		g.Go("server-conn", func() { n.Accept(host, b) })
	}
	return a, nil
}

func (d *Dialer) Dial(network, host string) (Conn, error) {
	return d.DialContext(context.Background(), network, host)
}

// VConn is one end of an in-memory byte stream.
type VConn struct {
	name   string
	peer   *VConn
	in     []byte // bytes written by the peer, not yet read
	closed bool   // this end was closed
	// Written records everything this end wrote (for the harness).
	Written []byte
	// MaxRead limits how many bytes one Read returns (0 = no limit): the harness uses it to model TCP segmentation.
	MaxRead int
	// SplitAt lists absolute offsets of the incoming byte stream at which a TCP segment ends: a Read never
	// crosses the next boundary (the following segment "arrives" only after the previous one was consumed).
	SplitAt  []int
	consumed int
	// read deadline (virtual time); zero = none. A timer makes the scheduler's clock reach it.
	rdl      time.Time
	rdlTimer interface{}
}

// Peer returns the other end.
func (c *VConn) Peer() *VConn { return c.peer }

type addr struct{}

func (addr) Network() string { return "vnet" }
func (addr) String() string  { return "vnet" }

func (c *VConn) Read(p []byte) (int, error) {
	g := sched.G
	if g.Dead() {
		sched.PanicKilled()
	}
	g.Yield("read "+c.name, func() bool {
		return len(c.in) > 0 || c.closed || c.peer.closed || (!c.rdl.IsZero() && !g.Now().Before(c.rdl))
	})
	if Current != nil {
		g.AcquireVC(Current.ioSync)
	}
	if len(c.in) > 0 {
		n := len(p)
		if n > len(c.in) {
			n = len(c.in)
		}
		if c.MaxRead > 0 && n > c.MaxRead {
			n = c.MaxRead
		}
		for _, b := range c.SplitAt {
			if b > c.consumed {
				if n > b-c.consumed {
					n = b - c.consumed
				}
				break
			}
		}
		c.consumed += n
		copy(p, c.in[:n])
		c.in = c.in[n:]
		return n, nil
	}
	if c.closed {
		return 0, net.ErrClosed
	}
	if !c.peer.closed && !c.rdl.IsZero() && !g.Now().Before(c.rdl) {
		return 0, os.ErrDeadlineExceeded
	}
	return 0, io.EOF
}

func (c *VConn) Write(p []byte) (int, error) {
	g := sched.G
	if g.Dead() {
		sched.PanicKilled()
	}
	g.Yield("write "+c.name, nil)
	if Current != nil {
		g.ReleaseInto(&Current.ioSync)
	}
	if c.closed {
		return 0, net.ErrClosed
	}
	if c.peer.closed {
		return 0, errors.New("broken pipe")
	}
	c.Written = append(c.Written, p...)
	c.peer.in = append(c.peer.in, p...)
	return len(p), nil
}

func (c *VConn) Close() error {
	g := sched.G
	if g.Dead() {
		return nil
	}
	g.Yield("close "+c.name, nil)
	if Current != nil {
		g.ReleaseInto(&Current.ioSync)
	}
	if c.closed {
		return net.ErrClosed
	}
	c.closed = true
	return nil
}

// Pending returns the number of unread bytes.
func (c *VConn) Pending() int { return len(c.in) }

// PeerClosed reports whether the other end was closed.
func (c *VConn) PeerClosed() bool { return c.peer.closed }

func (c *VConn) LocalAddr() Addr                    { return addr{} }
func (c *VConn) RemoteAddr() Addr                   { return addr{} }
func (c *VConn) SetDeadline(t time.Time) error      { return c.SetReadDeadline(t) }
func (c *VConn) SetWriteDeadline(t time.Time) error { return nil } // writes never block here

// SetReadDeadline: a Read that finds no data fails with os.ErrDeadlineExceeded once the virtual clock has reached t
// (zero = no deadline), as net.Conn promises.
func (c *VConn) SetReadDeadline(t time.Time) error {
	g := sched.G
	if g.Dead() {
		return nil
	}
	if c.rdlTimer != nil {
		sched.StopAny(g, c.rdlTimer)
		c.rdlTimer = nil
	}
	c.rdl = t
	if !t.IsZero() {
		c.rdlTimer = g.AddTimer(t, func() {})
	}
	return nil
}
