// Package vrand replaces "math/rand" in scheduler-instrumented sources: deterministic streams.
// The package-level functions are safe for concurrent use (as in math/rand); a *Rand is not, and every
// method reports a write of the generator state to the race detector of the scheduler.
package vrand

import (
	"fmt"
	"runtime"
	"unsafe"

	"verif/shim/sched"
	"verif/shim/vcrand"
)

func Read(p []byte) (int, error) { return vcrand.Read(p) }
func Uint32() uint32 {
	var b [4]byte
	vcrand.Read(b[:])
	return uint32(b[0]) | uint32(b[1])<<8 | uint32(b[2])<<16 | uint32(b[3])<<24
}
func Uint64() uint64 { return uint64(Uint32())<<32 | uint64(Uint32()) }
func Int63() int64   { return int64(Uint64() >> 1) }
func Int() int       { return int(Uint64() >> 1) }
func Intn(n int) int { return int(Uint64() % uint64(n)) }
func Int63n(n int64) int64 {
	return int64(Uint64() % uint64(n))
}
func Int31n(n int32) int32 { return int32(Uint64() % uint64(n)) }
func Float64() float64     { return float64(Uint64()>>11) / (1 << 53) }
func Seed(int64)           {}

// Source mirrors math/rand.Source.
type Source interface {
	Int63() int64
	Seed(seed int64)
}

type src struct{ state uint64 }

func (s *src) next() uint64 {
	s.state = s.state*6364136223846793005 + 1442695040888963407
	x := s.state
	x ^= x >> 33
	x *= 0xff51afd7ed558ccd
	x ^= x >> 33
	return x
}
func (s *src) Int63() int64    { return int64(s.next() >> 1) }
func (s *src) Seed(seed int64) { s.state = uint64(seed) }

// NewSource returns a deterministic source.
func NewSource(seed int64) Source { return &src{state: uint64(seed)} }

// Rand mirrors math/rand.Rand: NOT safe for concurrent use.
type Rand struct {
	src Source
	_   [8]byte
}

// New returns a generator over s.
func New(s Source) *Rand { return &Rand{src: s} }

func (r *Rand) touch() {
	if g := sched.G; g != nil {
		site := "math/rand.(*Rand)"
		if _, file, line, ok := runtime.Caller(2); ok {
			for i := len(file) - 1; i >= 0; i-- {
				if file[i] == '/' {
					file = file[i+1:]
					break
				}
			}
			site = fmt.Sprintf("%s:%d (*rand.Rand)", file, line)
		}
		g.Access(unsafe.Pointer(r), true, site)
	}
}

func (r *Rand) Int63() int64   { r.touch(); return r.src.Int63() }
func (r *Rand) Uint32() uint32 { r.touch(); return uint32(r.src.Int63() >> 31) }
func (r *Rand) Uint64() uint64 {
	r.touch()
	return uint64(r.src.Int63())<<1 ^ uint64(r.src.Int63())
}
func (r *Rand) Int() int             { r.touch(); return int(uint(r.src.Int63())) }
func (r *Rand) Int31() int32         { r.touch(); return int32(r.src.Int63() >> 32) }
func (r *Rand) Intn(n int) int       { r.touch(); return int(uint64(r.src.Int63()) % uint64(n)) }
func (r *Rand) Int63n(n int64) int64 { r.touch(); return int64(uint64(r.src.Int63()) % uint64(n)) }
func (r *Rand) Int31n(n int32) int32 { r.touch(); return int32(uint64(r.src.Int63()) % uint64(n)) }
func (r *Rand) Float64() float64     { r.touch(); return float64(r.src.Int63()>>10) / (1 << 53) }
func (r *Rand) Seed(seed int64)      { r.touch(); r.src.Seed(seed) }
func (r *Rand) Read(p []byte) (int, error) {
	r.touch()
	for i := range p {
		p[i] = byte(r.src.Int63() >> 20)
	}
	return len(p), nil
}
