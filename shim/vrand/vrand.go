// Package vrand replaces "math/rand" in instrumented sources: a deterministic stream per execution.
package vrand

import "verif/shim/vcrand"

func Read(p []byte) (int, error) { return vcrand.Read(p) }
func Uint32() uint32 {
	var b [4]byte
	vcrand.Read(b[:])
	return uint32(b[0]) | uint32(b[1])<<8 | uint32(b[2])<<16 | uint32(b[3])<<24
}
func Uint64() uint64 { return uint64(Uint32())<<32 | uint64(Uint32()) }
func Int63() int64   { return int64(Uint64() >> 1) }
func Intn(n int) int { return int(Uint64() % uint64(n)) }
