// Package vsync replaces "sync" and the channel / go / select constructs in instrumented sources.
package vsync

import (
	"cmp"
	"fmt"
	"reflect"
	"sort"

	"verif/shim/sched"
)

func s() *sched.S { return sched.G }

// ---- goroutines -------------------------------------------------------------------------------

// Go replaces the go statement (arguments are evaluated by the caller before the call).
func Go(name string, f func()) {
	if s().Dead() {
		return
	}
	s().Go(name, f)
}

// ---- mutexes ----------------------------------------------------------------------------------

type Mutex struct {
	locked bool
	owner  int
}

func (m *Mutex) Lock() {
	g := s()
	if g.Dead() {
		return
	}
	g.Yield("Mutex.Lock", func() bool { return !m.locked })
	m.locked, m.owner = true, g.Cur()
}

func (m *Mutex) TryLock() bool {
	if s().Dead() || m.locked {
		return false
	}
	m.locked = true
	return true
}

func (m *Mutex) Unlock() {
	g := s()
	if g.Dead() {
		return
	}
	if !m.locked {
		panic("sync: unlock of unlocked mutex")
	}
	// no scheduling point after the release: the thread's next visible operation has one in front of it
	g.Yield("Mutex.Unlock", nil)
	m.locked = false
}

type RWMutex struct {
	writer         bool
	readers        int
	waitingWriters int
}

func (m *RWMutex) Lock() {
	g := s()
	if g.Dead() {
		return
	}
	m.waitingWriters++
	g.Yield("RWMutex.Lock", func() bool { return !m.writer && m.readers == 0 })
	m.waitingWriters--
	m.writer = true
}

func (m *RWMutex) Unlock() {
	g := s()
	if g.Dead() {
		return
	}
	if !m.writer {
		panic("sync: Unlock of unlocked RWMutex")
	}
	g.Yield("RWMutex.Unlock", nil)
	m.writer = false
}

func (m *RWMutex) RLock() {
	g := s()
	if g.Dead() {
		return
	}
	// Go's RWMutex: a blocked Lock call excludes new readers
	g.Yield("RWMutex.RLock", func() bool { return !m.writer && m.waitingWriters == 0 })
	m.readers++
}

func (m *RWMutex) RUnlock() {
	g := s()
	if g.Dead() {
		return
	}
	if m.readers <= 0 {
		panic("sync: RUnlock of unlocked RWMutex")
	}
	g.Yield("RWMutex.RUnlock", nil)
	m.readers--
}

// WaitGroup / Once (small, for completeness)
type WaitGroup struct{ n int }

func (w *WaitGroup) Add(d int) { w.n += d }
func (w *WaitGroup) Done() {
	w.n--
	if !s().Dead() {
		s().Yield("WaitGroup.Done", nil)
	}
}
func (w *WaitGroup) Wait() {
	if s().Dead() {
		return
	}
	s().Yield("WaitGroup.Wait", func() bool { return w.n <= 0 })
}

type Once struct{ done bool }

func (o *Once) Do(f func()) {
	if !o.done {
		o.done = true
		f()
	}
}

// ---- channels ---------------------------------------------------------------------------------

// chanState is the scheduler-side state of one channel; the real channel is only an identity token.
type chanState struct {
	cap    int
	buf    []any
	closed bool
	// rendez-vous (cap == 0): parked senders with their values, parked receivers with their slots
	sendq []*sender
	recvq []*receiver
	name  string
}
type sender struct {
	v    any
	done bool
	sel  *Sel
	idx  int
}
type receiver struct {
	v    any
	ok   bool
	done bool
	sel  *Sel
	idx  int
}

var chans = map[uintptr]*chanState{}
var pinned []any // keeps channels alive so that addresses are not reused within an execution

// ResetChannels forgets all channel state (between executions).
func ResetChannels() { chans = map[uintptr]*chanState{}; pinned = nil }

func stateOf(ch any) *chanState {
	v := reflect.ValueOf(ch)
	if v.Kind() != reflect.Chan {
		panic("vsync: not a channel")
	}
	if v.IsNil() {
		return nil
	}
	p := v.Pointer()
	st, ok := chans[p]
	if !ok {
		st = &chanState{cap: v.Cap(), name: fmt.Sprintf("chan#%d(cap %d)", len(chans), v.Cap())}
		chans[p] = st
		pinned = append(pinned, ch)
	}
	return st
}

func (r *receiver) avail() bool { return !r.done && (r.sel == nil || r.sel.fired < 0) }
func (sd *sender) avail() bool  { return !sd.done && (sd.sel == nil || sd.sel.fired < 0) }

func (st *chanState) canSend() bool {
	if st == nil {
		return false
	}
	if st.closed {
		return true // will panic
	}
	if len(st.buf) < st.cap {
		return true
	}
	for _, r := range st.recvq {
		if r.avail() {
			return true
		}
	}
	return false
}

func (st *chanState) canRecv() bool {
	if st == nil {
		return false
	}
	if len(st.buf) > 0 || st.closed {
		return true
	}
	for _, sd := range st.sendq {
		if sd.avail() {
			return true
		}
	}
	return false
}

// doSend performs an enabled send.
func (st *chanState) doSend(v any) {
	s().Tracef("doSend %s %v (buf %d, recvq %d)", st.name, v, len(st.buf), len(st.recvq))
	if st.closed {
		panic("send on closed channel")
	}
	for _, r := range st.recvq {
		if r.avail() {
			r.v, r.ok, r.done = v, true, true
			if r.sel != nil {
				r.sel.fired = r.idx
			}
			st.recvq = removeRecv(st.recvq, r)
			return
		}
	}
	st.buf = append(st.buf, v)
}

// doRecv performs an enabled receive.
func (st *chanState) doRecv() (any, bool) {
	s().Tracef("doRecv %s (buf %d, sendq %d)", st.name, len(st.buf), len(st.sendq))
	if len(st.buf) > 0 {
		v := st.buf[0]
		st.buf = st.buf[1:]
		// a parked sender (buffer was full) can now complete
		for _, sd := range st.sendq {
			if sd.avail() {
				st.buf = append(st.buf, sd.v)
				sd.done = true
				if sd.sel != nil {
					sd.sel.fired = sd.idx
				}
				st.sendq = removeSend(st.sendq, sd)
				break
			}
		}
		return v, true
	}
	for _, sd := range st.sendq {
		if sd.avail() {
			sd.done = true
			if sd.sel != nil {
				sd.sel.fired = sd.idx
			}
			st.sendq = removeSend(st.sendq, sd)
			return sd.v, true
		}
	}
	if st.closed {
		return nil, false
	}
	panic("vsync: doRecv on a channel that is not ready")
}

func removeRecv(q []*receiver, r *receiver) []*receiver {
	for i, x := range q {
		if x == r {
			return append(q[:i:i], q[i+1:]...)
		}
	}
	return q
}
func removeSend(q []*sender, r *sender) []*sender {
	for i, x := range q {
		if x == r {
			return append(q[:i:i], q[i+1:]...)
		}
	}
	return q
}

// Send replaces `ch <- v`.
func Send[T any](ch chan<- T, v T) {
	g := s()
	if g.Dead() {
		return
	}
	st := stateOf(ch)
	if st == nil {
		g.Yield("send on nil channel", func() bool { return false })
		return
	}
	// park as a sender so that a receiver arriving later can complete the rendez-vous
	me := &sender{v: v}
	st.sendq = append(st.sendq, me)
	g.Yield("send "+st.name, func() bool { return me.done || st.canSendFor(me) })
	if me.done {
		return
	}
	st.sendq = removeSend(st.sendq, me)
	st.doSend(v)
}

// canSendFor: like canSend but ignoring the caller's own queue entry.
func (st *chanState) canSendFor(me *sender) bool { return st.canSend() }

// Recv replaces `<-ch`.
func Recv[T any](ch <-chan T) T {
	v, _ := Recv2(ch)
	return v
}

// Recv2 replaces `v, ok := <-ch`.
func Recv2[T any](ch <-chan T) (T, bool) {
	var zero T
	g := s()
	if g.Dead() {
		return zero, false
	}
	st := stateOf(ch)
	if st == nil {
		g.Yield("recv on nil channel", func() bool { return false })
		return zero, false
	}
	me := &receiver{}
	st.recvq = append(st.recvq, me)
	g.Yield("recv "+st.name, func() bool { return me.done || st.canRecvFor() })
	if me.done {
		if me.v == nil {
			return zero, me.ok
		}
		return me.v.(T), me.ok
	}
	st.recvq = removeRecv(st.recvq, me)
	v, ok := st.doRecv()
	if !ok || v == nil {
		return zero, ok
	}
	return v.(T), true
}

func (st *chanState) canRecvFor() bool { return st.canRecv() }

// Close replaces close(ch).
func Close[T any](ch chan T) {
	g := s()
	if g.Dead() {
		return
	}
	st := stateOf(ch)
	if st == nil {
		panic("close of nil channel")
	}
	if st.closed {
		panic("close of closed channel")
	}
	g.Yield("close "+st.name, nil)
	if st.closed {
		panic("close of closed channel")
	}
	st.closed = true
}

// Len replaces len(ch) for channels.
func Len[T any](ch chan T) int {
	st := stateOf(ch)
	if st == nil {
		return 0
	}
	return len(st.buf)
}

// ---- select -----------------------------------------------------------------------------------

// Sel is one select statement in progress.
type Sel struct {
	cases []selCase
	fired int
}
type selCase struct {
	st   *chanState
	send bool
	v    any
	recv *receiver
	sd   *sender
}

// RecvCase carries the result of a receive case.
type RecvCase[T any] struct {
	sel *Sel
	idx int
	Val T
	Ok  bool
}

// NewSel starts a select.
func NewSel() *Sel { return &Sel{fired: -1} }

// AddRecv adds `case v := <-ch`.
func AddRecv[T any](sl *Sel, ch <-chan T) *RecvCase[T] {
	rc := &RecvCase[T]{sel: sl, idx: len(sl.cases)}
	if s().Dead() {
		sl.cases = append(sl.cases, selCase{})
		return rc
	}
	sl.cases = append(sl.cases, selCase{st: stateOf(ch)})
	return rc
}

// AddSend adds `case ch <- v`.
func AddSend[T any](sl *Sel, ch chan<- T, v T) int {
	idx := len(sl.cases)
	if s().Dead() {
		sl.cases = append(sl.cases, selCase{})
		return idx
	}
	sl.cases = append(sl.cases, selCase{st: stateOf(ch), send: true, v: v})
	return idx
}

// Wait blocks until a case can proceed and returns its index, or -1 for default.
func (sl *Sel) Wait(hasDefault bool) int {
	g := s()
	if g.Dead() {
		panicKilled()
	}
	// park on every channel so that partners arriving later can complete a rendez-vous with us
	for i := range sl.cases {
		c := &sl.cases[i]
		if c.st == nil {
			continue
		}
		if c.send {
			c.sd = &sender{v: c.v, sel: sl, idx: i}
			c.st.sendq = append(c.st.sendq, c.sd)
		} else {
			c.recv = &receiver{sel: sl, idx: i}
			c.st.recvq = append(c.st.recvq, c.recv)
		}
	}
	ready := func() []int {
		var r []int
		for i := range sl.cases {
			c := &sl.cases[i]
			if c.st == nil {
				continue
			}
			if c.send && c.st.canSendExcept(c.sd) {
				r = append(r, i)
			}
			if !c.send && c.st.canRecvExcept(c.recv) {
				r = append(r, i)
			}
		}
		return r
	}
	unpark := func() {
		for i := range sl.cases {
			c := &sl.cases[i]
			if c.st == nil {
				continue
			}
			if c.send {
				c.st.sendq = removeSend(c.st.sendq, c.sd)
			} else {
				c.st.recvq = removeRecv(c.st.recvq, c.recv)
			}
		}
	}
	g.Yield("select", func() bool { return hasDefault || sl.fired >= 0 || len(ready()) > 0 })
	g.Tracef("select resumes: fired=%d ready=%v default=%v", sl.fired, ready(), hasDefault)
	if sl.fired >= 0 {
		// a partner completed one of our cases while we were parked
		unpark()
		return sl.fired
	}
	r := ready()
	if len(r) == 0 {
		unpark()
		return -1
	}
	k := 0
	if len(r) > 1 {
		k = sched.Choose(len(r)) // which ready case fires is the runtime's coin: a costed deviation from "first ready in source order"
	}
	i := r[k]
	unpark()
	c := &sl.cases[i]
	if c.send {
		c.st.doSend(c.v)
	} else {
		v, ok := c.st.doRecv()
		c.recv.v, c.recv.ok = v, ok
	}
	sl.fired = i
	return i
}

func (st *chanState) canSendExcept(me *sender) bool {
	if st.closed || len(st.buf) < st.cap {
		return true
	}
	for _, r := range st.recvq {
		if r.avail() && (r.sel == nil || r.sel != me.sel) {
			return true
		}
	}
	return false
}

func (st *chanState) canRecvExcept(me *receiver) bool {
	if len(st.buf) > 0 || st.closed {
		return true
	}
	for _, sd := range st.sendq {
		if sd.avail() && (sd.sel == nil || sd.sel != me.sel) {
			return true
		}
	}
	return false
}

// Get fetches the value of a fired receive case.
func (rc *RecvCase[T]) Get() (T, bool) {
	var zero T
	c := rc.sel.cases[rc.idx]
	if c.recv == nil || c.recv.v == nil {
		if c.recv != nil {
			return zero, c.recv.ok
		}
		return zero, false
	}
	return c.recv.v.(T), c.recv.ok
}

func chooseFree(n int) int { return sched.ChooseFree(n) }
func panicKilled()         { sched.PanicKilled() }

// ---- maps -------------------------------------------------------------------------------------

// SortedKeys returns the keys of m in ascending order (map iteration order is owned by the harness: canonical).
func SortedKeys[K cmp.Ordered, V any](m map[K]V) []K {
	keys := make([]K, 0, len(m))
	for k := range m {
		keys = append(keys, k)
	}
	sort.Slice(keys, func(i, j int) bool { return keys[i] < keys[j] })
	return keys
}

// TimerSend is used by the virtual clock: a non-blocking send performed by the scheduler itself (no thread).
func TimerSend[T any](ch chan T, v T) {
	st := stateOf(ch)
	if st == nil || st.closed {
		return
	}
	if st.canSend() {
		st.doSend(v)
	}
}

// CloseQuiet closes a channel without a scheduling point (used by timers / context cancellation inside the scheduler).
func CloseQuiet[T any](ch chan T) {
	st := stateOf(ch)
	if st != nil {
		st.closed = true
	}
}
