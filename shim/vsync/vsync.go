// Package vsync replaces "sync" and the channel / go / select constructs in instrumented sources.
package vsync

import (
	"cmp"
	"fmt"
	"reflect"
	"sort"
	"unsafe"

	"verif/shim/sched"
)

func s() *sched.S { return sched.G }

// ---- goroutines -------------------------------------------------------------------------------

// Go replaces the go statement (arguments are evaluated by the caller before the call).
func Go(name string, f func()) {
	if s().Dead() {
		return
	}
	s().Go(name, f)
}

// ---- mutexes ----------------------------------------------------------------------------------

type Mutex struct {
	locked bool
	owner  int
	vc     sched.VC
}

func (m *Mutex) Lock() {
	g := s()
	if g.Dead() {
		return
	}
	g.Yield("Mutex.Lock", func() bool { return !m.locked })
	m.locked, m.owner = true, g.Cur()
	g.AcquireVC(m.vc)
}

func (m *Mutex) TryLock() bool {
	if s().Dead() || m.locked {
		return false
	}
	m.locked = true
	s().AcquireVC(m.vc)
	return true
}

func (m *Mutex) Unlock() {
	g := s()
	if g.Dead() {
		return
	}
	if !m.locked {
		panic("sync: unlock of unlocked mutex")
	}
	// no scheduling point after the release: the thread's next visible operation has one in front of it
	g.Yield("Mutex.Unlock", nil)
	g.ReleaseStore(&m.vc)
	m.locked = false
}

type RWMutex struct {
	writer         bool
	readers        int
	waitingWriters int
	vc, rvc        sched.VC // released by writers / by readers
}

func (m *RWMutex) Lock() {
	g := s()
	if g.Dead() {
		return
	}
	// The scheduling point comes before the call becomes visible to others: a writer that has started waiting
	// excludes new readers (Go's writer preference), so "about to call Lock" and "waiting in Lock" are different states.
	g.Yield("RWMutex.Lock", nil)
	if m.writer || m.readers > 0 {
		m.waitingWriters++
		g.Yield("RWMutex.Lock(waiting)", func() bool { return !m.writer && m.readers == 0 })
		m.waitingWriters--
	}
	m.writer = true
	g.AcquireVC(m.vc)
	g.AcquireVC(m.rvc)
}

func (m *RWMutex) Unlock() {
	g := s()
	if g.Dead() {
		return
	}
	if !m.writer {
		panic("sync: Unlock of unlocked RWMutex")
	}
	g.Yield("RWMutex.Unlock", nil)
	g.ReleaseStore(&m.vc)
	m.writer = false
}

func (m *RWMutex) RLock() {
	g := s()
	if g.Dead() {
		return
	}
	// Go's RWMutex: a blocked Lock call excludes new readers
	g.Yield("RWMutex.RLock", func() bool { return !m.writer && m.waitingWriters == 0 })
	m.readers++
	g.AcquireVC(m.vc)
}

func (m *RWMutex) RUnlock() {
	g := s()
	if g.Dead() {
		return
	}
	if m.readers <= 0 {
		panic("sync: RUnlock of unlocked RWMutex")
	}
	g.Yield("RWMutex.RUnlock", nil)
	g.ReleaseInto(&m.rvc)
	m.readers--
}

// WaitGroup / Once (small, for completeness)
type WaitGroup struct {
	n  int
	vc sched.VC
}

func (w *WaitGroup) Add(d int) { w.n += d }
func (w *WaitGroup) Done() {
	if !s().Dead() {
		s().Yield("WaitGroup.Done", nil)
		s().ReleaseInto(&w.vc)
	}
	w.n--
}
func (w *WaitGroup) Wait() {
	if s().Dead() {
		return
	}
	s().Yield("WaitGroup.Wait", func() bool { return w.n <= 0 })
	s().AcquireVC(w.vc)
}

type Once struct {
	done bool
	vc   sched.VC
}

func (o *Once) Do(f func()) {
	if !o.done {
		o.done = true
		f()
		if !s().Dead() {
			s().ReleaseStore(&o.vc)
		}
		return
	}
	if !s().Dead() {
		s().AcquireVC(o.vc)
	}
}

// Pool replaces sync.Pool: deterministic LIFO reuse (the most adversarial policy for code that keeps using an object
// after putting it back); package-level pools are emptied between executions.
type Pool struct {
	New   func() any
	items []any
	vc    sched.VC
	reg   bool
}

var allPools []*Pool

func (p *Pool) Get() any {
	if n := len(p.items); n > 0 {
		x := p.items[n-1]
		p.items = p.items[:n-1]
		if g := s(); !g.Dead() {
			g.AcquireVC(p.vc)
		}
		return x
	}
	if p.New != nil {
		return p.New()
	}
	return nil
}

func (p *Pool) Put(x any) {
	if !p.reg {
		p.reg = true
		allPools = append(allPools, p)
	}
	if g := s(); !g.Dead() {
		g.ReleaseInto(&p.vc)
	}
	p.items = append(p.items, x)
}

// ---- channels ---------------------------------------------------------------------------------

// chanState is the scheduler-side state of one channel; the real channel is only an identity token.
type chanState struct {
	cap    int
	buf    []any
	bufVC  []sched.VC // clock of the send of each buffered value
	freed  []sched.VC // clocks of receives that freed a buffer slot (k-th receive happens before the (k+cap)-th send completes)
	closeV sched.VC
	closed bool
	// rendez-vous (cap == 0): parked senders with their values, parked receivers with their slots
	sendq []*sender
	recvq []*receiver
	name  string
}
type sender struct {
	v    any
	done bool
	sel  *Sel
	idx  int
	vc   sched.VC // clock of the sender when it started the send
	ack  sched.VC // clock of the receive that completed it
}
type receiver struct {
	v     any
	ok    bool
	done  bool
	sel   *Sel
	idx   int
	vc    sched.VC // clock of the receiver when it started the receive
	msgVC sched.VC // clock that came with the value
}

var chans = map[uintptr]*chanState{}
var pinned []any // keeps channels alive so that addresses are not reused within an execution

// ResetChannels forgets all channel state (between executions).
func ResetChannels() {
	chans = map[uintptr]*chanState{}
	pinned = nil
	for _, p := range allPools {
		p.items, p.vc = nil, nil
	}
}

func stateOf(ch any) *chanState {
	v := reflect.ValueOf(ch)
	if v.Kind() != reflect.Chan {
		panic("vsync: not a channel")
	}
	if v.IsNil() {
		return nil
	}
	p := v.Pointer()
	st, ok := chans[p]
	if !ok {
		st = &chanState{cap: v.Cap(), name: fmt.Sprintf("chan#%d(cap %d)", len(chans), v.Cap())}
		chans[p] = st
		pinned = append(pinned, ch)
	}
	return st
}

func (r *receiver) avail() bool { return !r.done && (r.sel == nil || r.sel.fired < 0) }
func (sd *sender) avail() bool  { return !sd.done && (sd.sel == nil || sd.sel.fired < 0) }

func (st *chanState) canSend() bool {
	if st == nil {
		return false
	}
	if st.closed {
		return true // will panic
	}
	if len(st.buf) < st.cap {
		return true
	}
	for _, r := range st.recvq {
		if r.avail() {
			return true
		}
	}
	return false
}

func (st *chanState) canRecv() bool {
	if st == nil {
		return false
	}
	if len(st.buf) > 0 || st.closed {
		return true
	}
	for _, sd := range st.sendq {
		if sd.avail() {
			return true
		}
	}
	return false
}

// doSend performs an enabled send.
func (st *chanState) doSend(v any, vc sched.VC) {
	s().Tracef("doSend %s %v (buf %d, recvq %d)", st.name, v, len(st.buf), len(st.recvq))
	if st.closed {
		panic("send on closed channel")
	}
	for _, r := range st.recvq {
		if r.avail() {
			r.v, r.ok, r.done = v, true, true
			r.msgVC = vc
			if st.cap == 0 {
				s().AcquireVC(r.vc) // unbuffered: the receive happens before the send completes
			}
			if r.sel != nil {
				r.sel.fired = r.idx
			}
			st.recvq = removeRecv(st.recvq, r)
			return
		}
	}
	st.buf = append(st.buf, v)
	st.bufVC = append(st.bufVC, vc)
	if len(st.freed) > 0 {
		s().AcquireVC(st.freed[0])
		st.freed = st.freed[1:]
	}
}

// doRecv performs an enabled receive.
func (st *chanState) doRecv(vc sched.VC) (any, bool, sched.VC) {
	s().Tracef("doRecv %s (buf %d, sendq %d)", st.name, len(st.buf), len(st.sendq))
	if len(st.buf) > 0 {
		v := st.buf[0]
		st.buf = st.buf[1:]
		var mvc sched.VC
		if len(st.bufVC) > 0 {
			mvc = st.bufVC[0]
			st.bufVC = st.bufVC[1:]
		}
		// a parked sender (buffer was full) can now complete
		moved := false
		for _, sd := range st.sendq {
			if sd.avail() {
				st.buf = append(st.buf, sd.v)
				st.bufVC = append(st.bufVC, sd.vc)
				sd.done = true
				sd.ack = vc // this receive freed the slot the parked send completes into
				if sd.sel != nil {
					sd.sel.fired = sd.idx
				}
				st.sendq = removeSend(st.sendq, sd)
				moved = true
				break
			}
		}
		if !moved && vc != nil {
			st.freed = append(st.freed, vc)
		}
		return v, true, mvc
	}
	for _, sd := range st.sendq {
		if sd.avail() {
			sd.done = true
			sd.ack = vc
			if sd.sel != nil {
				sd.sel.fired = sd.idx
			}
			st.sendq = removeSend(st.sendq, sd)
			return sd.v, true, sd.vc
		}
	}
	if st.closed {
		return nil, false, st.closeV
	}
	panic("vsync: doRecv on a channel that is not ready")
}

func removeRecv(q []*receiver, r *receiver) []*receiver {
	for i, x := range q {
		if x == r {
			return append(q[:i:i], q[i+1:]...)
		}
	}
	return q
}
func removeSend(q []*sender, r *sender) []*sender {
	for i, x := range q {
		if x == r {
			return append(q[:i:i], q[i+1:]...)
		}
	}
	return q
}

// Send replaces `ch <- v`.
func Send[T any](ch chan<- T, v T) {
	g := s()
	if g.Dead() {
		return
	}
	st := stateOf(ch)
	if st == nil {
		g.Yield("send on nil channel", func() bool { return false })
		return
	}
	// park as a sender so that a receiver arriving later can complete the rendez-vous
	me := &sender{v: v, vc: g.Snapshot()}
	st.sendq = append(st.sendq, me)
	g.Yield("send "+st.name, func() bool { return me.done || st.canSendFor(me) })
	if me.done {
		g.AcquireVC(me.ack)
		return
	}
	st.sendq = removeSend(st.sendq, me)
	st.doSend(v, me.vc)
}

// canSendFor: like canSend but ignoring the caller's own queue entry.
func (st *chanState) canSendFor(me *sender) bool { return st.canSend() }

// Recv replaces `<-ch`.
func Recv[T any](ch <-chan T) T {
	v, _ := Recv2(ch)
	return v
}

// Recv2 replaces `v, ok := <-ch`.
func Recv2[T any](ch <-chan T) (T, bool) {
	var zero T
	g := s()
	if g.Dead() {
		return zero, false
	}
	st := stateOf(ch)
	if st == nil {
		g.Yield("recv on nil channel", func() bool { return false })
		return zero, false
	}
	me := &receiver{vc: g.Snapshot()}
	st.recvq = append(st.recvq, me)
	g.Yield("recv "+st.name, func() bool { return me.done || st.canRecvFor() })
	if me.done {
		g.AcquireVC(me.msgVC)
		if me.v == nil {
			return zero, me.ok
		}
		return me.v.(T), me.ok
	}
	st.recvq = removeRecv(st.recvq, me)
	v, ok, mvc := st.doRecv(me.vc)
	g.AcquireVC(mvc)
	if !ok || v == nil {
		return zero, ok
	}
	return v.(T), true
}

func (st *chanState) canRecvFor() bool { return st.canRecv() }

// Close replaces close(ch).
func Close[T any](ch chan T) {
	g := s()
	if g.Dead() {
		return
	}
	st := stateOf(ch)
	if st == nil {
		panic("close of nil channel")
	}
	if st.closed {
		panic("close of closed channel")
	}
	g.Yield("close "+st.name, nil)
	if st.closed {
		panic("close of closed channel")
	}
	st.closeV = g.Snapshot()
	st.closed = true
}

// Len replaces len(ch) for channels.
func Len[T any](ch chan T) int {
	st := stateOf(ch)
	if st == nil {
		return 0
	}
	return len(st.buf)
}

// ---- select -----------------------------------------------------------------------------------

// Sel is one select statement in progress.
type Sel struct {
	cases []selCase
	fired int
}
type selCase struct {
	st   *chanState
	send bool
	v    any
	recv *receiver
	sd   *sender
}

// RecvCase carries the result of a receive case.
type RecvCase[T any] struct {
	sel *Sel
	idx int
	Val T
	Ok  bool
}

// NewSel starts a select.
func NewSel() *Sel { return &Sel{fired: -1} }

// AddRecv adds `case v := <-ch`.
func AddRecv[T any](sl *Sel, ch <-chan T) *RecvCase[T] {
	rc := &RecvCase[T]{sel: sl, idx: len(sl.cases)}
	if s().Dead() {
		sl.cases = append(sl.cases, selCase{})
		return rc
	}
	sl.cases = append(sl.cases, selCase{st: stateOf(ch)})
	return rc
}

// AddSend adds `case ch <- v`.
func AddSend[T any](sl *Sel, ch chan<- T, v T) int {
	idx := len(sl.cases)
	if s().Dead() {
		sl.cases = append(sl.cases, selCase{})
		return idx
	}
	sl.cases = append(sl.cases, selCase{st: stateOf(ch), send: true, v: v})
	return idx
}

// Wait blocks until a case can proceed and returns its index, or -1 for default.
func (sl *Sel) Wait(hasDefault bool) int {
	g := s()
	if g.Dead() {
		panicKilled()
	}
	// park on every channel so that partners arriving later can complete a rendez-vous with us
	snap := g.Snapshot()
	for i := range sl.cases {
		c := &sl.cases[i]
		if c.st == nil {
			continue
		}
		if c.send {
			c.sd = &sender{v: c.v, sel: sl, idx: i, vc: snap}
			c.st.sendq = append(c.st.sendq, c.sd)
		} else {
			c.recv = &receiver{sel: sl, idx: i, vc: snap}
			c.st.recvq = append(c.st.recvq, c.recv)
		}
	}
	ready := func() []int {
		var r []int
		for i := range sl.cases {
			c := &sl.cases[i]
			if c.st == nil {
				continue
			}
			if c.send && c.st.canSendExcept(c.sd) {
				r = append(r, i)
			}
			if !c.send && c.st.canRecvExcept(c.recv) {
				r = append(r, i)
			}
		}
		return r
	}
	unpark := func() {
		for i := range sl.cases {
			c := &sl.cases[i]
			if c.st == nil {
				continue
			}
			if c.send {
				c.st.sendq = removeSend(c.st.sendq, c.sd)
			} else {
				c.st.recvq = removeRecv(c.st.recvq, c.recv)
			}
		}
	}
	g.Yield("select", func() bool { return hasDefault || sl.fired >= 0 || len(ready()) > 0 })
	g.Tracef("select resumes: fired=%d ready=%v default=%v", sl.fired, ready(), hasDefault)
	if sl.fired >= 0 {
		// a partner completed one of our cases while we were parked
		unpark()
		if c := &sl.cases[sl.fired]; c.send {
			g.AcquireVC(c.sd.ack)
		} else {
			g.AcquireVC(c.recv.msgVC)
		}
		return sl.fired
	}
	r := ready()
	if len(r) == 0 {
		unpark()
		return -1
	}
	k := 0
	if len(r) > 1 {
		k = sched.Choose(len(r)) // which ready case fires is the runtime's coin: a costed deviation from "first ready in source order"
	}
	i := r[k]
	unpark()
	c := &sl.cases[i]
	if c.send {
		c.st.doSend(c.v, snap)
	} else {
		v, ok, mvc := c.st.doRecv(snap)
		c.recv.v, c.recv.ok = v, ok
		g.AcquireVC(mvc)
	}
	sl.fired = i
	return i
}

func (st *chanState) canSendExcept(me *sender) bool {
	if st.closed || len(st.buf) < st.cap {
		return true
	}
	for _, r := range st.recvq {
		if r.avail() && (r.sel == nil || r.sel != me.sel) {
			return true
		}
	}
	return false
}

func (st *chanState) canRecvExcept(me *receiver) bool {
	if len(st.buf) > 0 || st.closed {
		return true
	}
	for _, sd := range st.sendq {
		if sd.avail() && (sd.sel == nil || sd.sel != me.sel) {
			return true
		}
	}
	return false
}

// Get fetches the value of a fired receive case.
func (rc *RecvCase[T]) Get() (T, bool) {
	var zero T
	c := rc.sel.cases[rc.idx]
	if c.recv == nil || c.recv.v == nil {
		if c.recv != nil {
			return zero, c.recv.ok
		}
		return zero, false
	}
	return c.recv.v.(T), c.recv.ok
}

func chooseFree(n int) int { return sched.ChooseFree(n) }
func panicKilled()         { sched.PanicKilled() }

// ---- maps -------------------------------------------------------------------------------------

// SortedKeys returns the keys of m in ascending order (map iteration order is owned by the harness: canonical).
func SortedKeys[K cmp.Ordered, V any](m map[K]V) []K {
	keys := make([]K, 0, len(m))
	for k := range m {
		keys = append(keys, k)
	}
	sort.Slice(keys, func(i, j int) bool { return keys[i] < keys[j] })
	return keys
}

// TimerSend is used by the virtual clock: a non-blocking send performed by the scheduler itself (no thread).
func TimerSend[T any](ch chan T, v T) {
	st := stateOf(ch)
	if st == nil || st.closed {
		return
	}
	if st.canSend() {
		st.doSend(v, s().Snapshot())
	}
}

// CloseQuiet closes a channel without a scheduling point (used by timers / context cancellation inside the scheduler).
func CloseQuiet[T any](ch chan T) {
	st := stateOf(ch)
	if st != nil {
		if !st.closed {
			st.closeV = s().Snapshot()
		}
		st.closed = true
	}
}

// ---- memory accesses (race detection) ----------------------------------------------------------------------------

// R / W report a read / write of *p by the current thread and return p (the instrumenter rewrites x.f into (*R(&x.f, site))).
func R[T any](p *T, site string) *T {
	if g := sched.G; g != nil {
		g.Access(unsafe.Pointer(p), false, site)
	}
	return p
}

func W[T any](p *T, site string) *T {
	if g := sched.G; g != nil {
		g.Access(unsafe.Pointer(p), true, site)
	}
	return p
}

// MR / MW report a read / write of the map m (any key) and return m.
func MR[M ~map[K]V, K comparable, V any](m M, site string) M {
	if g := sched.G; g != nil && m != nil {
		g.Access(*(*unsafe.Pointer)(unsafe.Pointer(&m)), false, site)
	}
	return m
}

func MW[M ~map[K]V, K comparable, V any](m M, site string) M {
	if g := sched.G; g != nil && m != nil {
		g.Access(*(*unsafe.Pointer)(unsafe.Pointer(&m)), true, site)
	}
	return m
}
