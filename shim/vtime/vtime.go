// Package vtime is a virtual clock. Source files of tongo that are instrumented at check time
// (build overlay) import it in place of "time"; the harness owns the clock.
package vtime

import (
	"sync"
	"time"
)

type (
	Time     = time.Time
	Duration = time.Duration
	Month    = time.Month
)

const (
	Nanosecond  = time.Nanosecond
	Microsecond = time.Microsecond
	Millisecond = time.Millisecond
	Second      = time.Second
	Minute      = time.Minute
	Hour        = time.Hour
)

var (
	mu  sync.Mutex
	now = time.Unix(1_700_000_000, 0)
	// SleepHook, if set, is called on every Sleep with the requested duration (after the clock advanced).
	SleepHook func(d Duration)
	sleeps    int
)

// Reset puts the clock to t and clears the counters.
func Reset(t Time) {
	mu.Lock()
	now = t
	sleeps = 0
	mu.Unlock()
}

// Advance moves the clock forward.
func Advance(d Duration) {
	mu.Lock()
	now = now.Add(d)
	mu.Unlock()
}

// Sleeps returns how many times Sleep was called since Reset.
func Sleeps() int { mu.Lock(); defer mu.Unlock(); return sleeps }

func Now() Time { mu.Lock(); defer mu.Unlock(); return now }

func Since(t Time) Duration { return Now().Sub(t) }

func Until(t Time) Duration { return t.Sub(Now()) }

func Sleep(d Duration) {
	mu.Lock()
	if d > 0 {
		now = now.Add(d)
	}
	sleeps++
	h := SleepHook
	mu.Unlock()
	if h != nil {
		h(d)
	}
}

func Unix(sec, nsec int64) Time { return time.Unix(sec, nsec) }

// After, NewTimer, Tick and AfterFunc: the sequential model of the wallet / tonconnect code has one thread, so a wait of
// d is "the clock moves by d, then the channel is ready" (the same as Sleep(d)); a context that is already done is
// still observable by the caller's select because both channels are ready then.
func After(d Duration) <-chan Time {
	Sleep(d)
	ch := make(chan Time, 1)
	ch <- Now()
	return ch
}

// Timer mirrors time.Timer for the sequential model.
type Timer struct {
	C <-chan Time
}

func NewTimer(d Duration) *Timer { return &Timer{C: After(d)} }
func (t *Timer) Stop() bool      { return false }
func (t *Timer) Reset(d Duration) bool {
	t.C = After(d)
	return false
}

func AfterFunc(d Duration, f func()) *Timer {
	Sleep(d)
	f()
	return &Timer{C: make(chan Time)}
}

func Date(year int, month Month, day, hour, min, sec, nsec int, loc *time.Location) Time {
	return time.Date(year, month, day, hour, min, sec, nsec, loc)
}

var UTC = time.UTC
