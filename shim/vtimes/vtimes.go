// Package vtimes replaces "time" in scheduler-instrumented sources: virtual clock owned by the scheduler.
package vtimes

import (
	"time"

	"verif/shim/sched"
	"verif/shim/vsync"
)

type (
	Time     = time.Time
	Duration = time.Duration
	Month    = time.Month
)

const (
	Nanosecond  = time.Nanosecond
	Microsecond = time.Microsecond
	Millisecond = time.Millisecond
	Second      = time.Second
	Minute      = time.Minute
	Hour        = time.Hour
)

func Now() Time {
	if sched.G == nil {
		return time.Unix(1_700_000_000, 0)
	}
	return sched.G.Now()
}
func Since(t Time) Duration     { return Now().Sub(t) }
func Until(t Time) Duration     { return t.Sub(Now()) }
func Unix(sec, nsec int64) Time { return time.Unix(sec, nsec) }

func Sleep(d Duration) {
	g := sched.G
	if g.Dead() {
		return
	}
	g.SleepUntil(g.Now().Add(d), "sleep "+d.String())
}

// After returns a channel that receives the virtual time after d.
func After(d Duration) <-chan Time {
	return NewTimer(d).C
}

type Timer struct {
	C  <-chan Time
	ch chan Time
	tm interface{}
	d  Duration
}

func NewTimer(d Duration) *Timer {
	ch := make(chan Time, 1)
	t := &Timer{C: ch, ch: ch, d: d}
	g := sched.G
	if g.Dead() {
		return t
	}
	t.tm = g.AddTimer(g.Now().Add(d), func() { vsync.TimerSend(ch, g.Now()) })
	return t
}

func (t *Timer) Stop() bool {
	g := sched.G
	if g.Dead() || t.tm == nil {
		return false
	}
	return sched.StopAny(g, t.tm)
}

func (t *Timer) Reset(d Duration) bool {
	g := sched.G
	if g.Dead() || t.tm == nil {
		return false
	}
	was := sched.StopAny(g, t.tm)
	sched.ResetAny(g, t.tm, g.Now().Add(d))
	return was
}

type Ticker struct {
	C    <-chan Time
	ch   chan Time
	tm   interface{}
	d    Duration
	stop bool
}

func NewTicker(d Duration) *Ticker {
	ch := make(chan Time, 1)
	t := &Ticker{C: ch, ch: ch, d: d}
	g := sched.G
	if g.Dead() {
		return t
	}
	var fire func()
	fire = func() {
		if t.stop {
			return
		}
		vsync.TimerSend(ch, g.Now())
		t.tm = g.AddTimer(g.Now().Add(d), fire)
	}
	t.tm = g.AddTimer(g.Now().Add(d), fire)
	return t
}

func (t *Ticker) Stop() {
	t.stop = true
	g := sched.G
	if !g.Dead() && t.tm != nil {
		sched.StopAny(g, t.tm)
	}
}

// AfterFunc runs f as a new thread after d.
func AfterFunc(d Duration, f func()) *Timer {
	t := &Timer{}
	g := sched.G
	if g.Dead() {
		return t
	}
	t.tm = g.AddTimer(g.Now().Add(d), func() { g.SpawnFromTimer("afterfunc", f) })
	return t
}
