#!/usr/bin/env python3
"""tools/baseline.py: runs the pinned stable tests of /root/.vp/BASELINE.json on /repo's working tree (no build tag) and lists the ones that no longer pass."""
import json, os, subprocess
env = dict(os.environ, GOFLAGS="-mod=mod", GOPROXY="off", GOSUMDB="off", GOTOOLCHAIN="local")
base = json.load(open("/root/.vp/BASELINE.json"))
pkgs = sorted({t.split("::", 1)[0] for t in base["stable_pass"]})
rel = " ".join("./" + p[len("github.com/tonkeeper/tongo"):].lstrip("/") if p != "github.com/tonkeeper/tongo" else "." for p in pkgs)
r = subprocess.run(f"go test -json -vet=off -count=1 -timeout 25m {rel}", shell=True, cwd="/repo", env=env, capture_output=True, text=True)
passed = set()
for line in r.stdout.splitlines():
    try:
        e = json.loads(line)
    except Exception:
        continue
    if e.get("Action") == "pass" and e.get("Test"):
        passed.add(e["Package"] + "::" + e["Test"])
missing = [t for t in base["stable_pass"] if t not in passed]
print(f"stable tests: {len(base['stable_pass'])}, passing now: {len(base['stable_pass']) - len(missing)}")
for m in missing:
    print("  NOT PASSING:", m)
