#!/usr/bin/env python3
"""Regenerates /verif/MANIFEST.json from tools/checks.json (per-property claim texts)."""
import json, os
V = os.path.dirname(os.path.dirname(os.path.abspath(__file__)))
checks = json.load(open(os.path.join(V, "tools", "checks.json")))
props = [json.loads(l) for l in open(os.path.join(V, "properties.jsonl"))]
man = {
    "version": 1,
    "setup_cmd": "./setup.sh",
    "hooks": {
        "guard": "verif",
        "enable": "go build -tags verif -overlay <generated at check time by cmd/mkoverlay>; no hook is committed in /repo: in-package export files under /verif/inject and scheduler-instrumented sources are supplied through the build overlay",
        "baseline_off_cmd": "cd /repo && GOFLAGS=-mod=mod GOPROXY=off GOSUMDB=off GOTOOLCHAIN=local go test -json -vet=off -count=1 -timeout 25m ./...",
        "source_commits": [],
        "add_only": True,
    },
    "engines": [
        {"name": "E1 choice-tree explorer", "path": "mc/enum", "serves_properties": sorted(checks.keys()),
         "kind_free_text": "stateless bounded-exhaustive DFS over harness choice points (deviation bound, free sub-spaces), executes the real code on every leaf and compares with a reference model"},
        {"name": "E2 controlled scheduler on instrumented sources", "path": "shim/sched, shim/v*, instr", "serves_properties": [k for k in sorted(checks) if "E2" in checks[k].get("engine","")],
         "kind_free_text": "go/packages-based source instrumenter (go/chan/select/sync/time/context/net/rand -> shims, supplied by build overlay) + cooperative scheduler with virtual time; schedules enumerated by the E1 explorer with preemption bounding"},
        {"name": "E3 crash-isolating workers", "path": "fw", "serves_properties": [k for k in sorted(checks) if checks[k].get("isolated")],
         "kind_free_text": "process-level sharding with case journal: worker death (stack overflow, OOM under RLIMIT_AS, hang) is attributed to the journaled case"},
    ],
    "checks": [],
    "not_applicable": [],
    "notes": "All verdicts come from bounded exhaustive exploration of the implementation in /repo's working tree against reference models in /verif/ref (see DESIGN.md). Exit 2 = tool error (no verdict).",
}
for p in props:
    i = p["id"]
    if i in checks:
        c = checks[i]
        man["checks"].append({
            "property_id": i,
            "quick_cmd": "./run %s quick" % i,
            "thorough_cmd": "./run %s thorough" % i,
            "evidence_file": "/verif/evidence/%s.json" % i,
            "replay_cmd_template": "./run %s quick -replay {path}" % i,
            "engine": c.get("engine", "E1 choice-tree explorer"),
            "level_claimed": {"category": "model_checking", "text": c["text"], "design_ref": c.get("design_ref", "DESIGN.md §2 " + i)},
            "level_note": c["note"],
            "technique": c.get("technique", "bounded exhaustive enumeration of inputs / operation sequences on the real code vs reference model (stateless model checking)"),
        })
    else:
        man["not_applicable"].append({"property_id": i, "reason": "check not built yet in this round (planned in DESIGN.md §2 %s); no verdict is claimed" % i})
json.dump(man, open(os.path.join(V, "MANIFEST.json"), "w"), indent=1)
print("checks:", len(man["checks"]), "not_applicable:", len(man["not_applicable"]))
