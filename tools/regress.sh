#!/bin/bash
# tools/regress.sh <commit> <Cxx> [tier]: re-introduces the defect repaired by a fix: commit (reverse patch) and runs the check.
# A combined reversal can be requested with commit1+commit2 (applied in that order, newest first).
C="$1"; ID="$2"; TIER="${3:-quick}"
cd /repo || exit 2
git diff --quiet || { echo "repo dirty"; exit 2; }
IFS='+' read -ra CS <<< "$C"
for c in "${CS[@]}"; do
  if ! git show "$c" --format= | git apply -R - 2>/tmp/regress.err; then echo "REVERT-FAILED $c $(head -2 /tmp/regress.err)"; git reset -q --hard HEAD; exit 2; fi
done
cd /verif; ./run "$ID" "$TIER" > /tmp/regress.$$.log 2>&1; rc=$?
cd /repo && git reset -q --hard HEAD
git -C /verif checkout -- evidence 2>/dev/null
case $rc in
 0) echo "MISSED ($C $ID)";;
 1) echo "DETECTED ($C $ID): $(grep -A1 VIOLATION /tmp/regress.$$.log | grep key= | head -2 | cut -c1-200)";;
 *) echo "TOOLERR rc=$rc $(tail -3 /tmp/regress.$$.log | cut -c1-300)";;
esac
rm -f /tmp/regress.$$.log
