#!/bin/bash
# tools/runall.sh <tier> [ids...]: runs the checks one after another, prints rc and wall time per property.
TIER="${1:-quick}"; shift
IDS="$@"; [ -z "$IDS" ] && IDS="C01 C02 C03 C04 C05 C06 C07 C08 C09 C10 C11 C12 C13 C14 C15 C16 C17 C18 C19 C20"
cd /verif; mkdir -p .work/logs
for id in $IDS; do
  s=$(date +%s)
  ./run $id $TIER > .work/logs/$id.$TIER.log 2>&1; rc=$?
  e=$(date +%s)
  echo "$id $TIER rc=$rc wall=$((e-s))s viol=$(grep -c '^VIOLATION' .work/logs/$id.$TIER.log) known=$(grep -c '^KNOWN-FINDING' .work/logs/$id.$TIER.log) nonexh=$(grep -c 'exhaustive=false' .work/logs/$id.$TIER.log)"
done
