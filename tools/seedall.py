#!/usr/bin/env python3
"""tools/seedall.py [Cxx...]: re-runs the quick check of every kept seeded change (/verif/seeded/*) and records the verdict in its meta.json."""
import glob, json, os, subprocess, sys
only = set(sys.argv[1:])
rows = []
for d in sorted(glob.glob("/verif/seeded/*")):
    name = os.path.basename(d)
    cid = name.split("-")[0]
    if only and cid not in only:
        continue
    out = subprocess.run(["/verif/tools/seedcheck.sh", d + "/patch.diff", cid, "quick"], capture_output=True, text=True, errors="replace").stdout.strip()
    meta = json.load(open(d + "/meta.json"))
    meta["check_result"] = out[:600]
    json.dump(meta, open(d + "/meta.json", "w"), indent=1)
    verdict = out.split(" ")[0] if out else "?"
    rows.append((name, verdict))
    print(name, out[:150].replace("\n", " "), flush=True)
bad = [r for r in rows if r[1] != "DETECTED"]
print(f"{len(rows)} seeded changes, {len(rows)-len(bad)} detected; not detected: {bad}")
