#!/bin/bash
# tools/seedcheck.sh <patch.diff> <Cxx> [tier] : applies a seeded change to /repo, runs the check, reverts.
# prints DETECTED / MISSED / TOOLERR
P="$1"; ID="$2"; TIER="${3:-quick}"
cd /repo || exit 2
if ! git diff --quiet; then echo "repo dirty"; exit 2; fi
if ! git apply "$P" 2>/tmp/apply.err; then
  if ! git apply --3way "$P" 2>>/tmp/apply.err; then echo "APPLY-FAILED $(head -3 /tmp/apply.err)"; git reset -q --hard HEAD; exit 2; fi
fi
cd /verif
./run "$ID" "$TIER" > /tmp/seedcheck.$$.log 2>&1
rc=$?
cd /repo && git reset -q --hard HEAD && git clean -fdq 2>/dev/null
git -C /verif checkout -- evidence 2>/dev/null
case $rc in
 0) echo "MISSED ($ID $TIER)";;
 1) echo "DETECTED ($ID $TIER): $(grep -A1 VIOLATION /tmp/seedcheck.$$.log | grep key= | head -3 | cut -c1-220)";;
 *) echo "TOOLERR rc=$rc: $(tail -5 /tmp/seedcheck.$$.log | cut -c1-300)";;
esac
rm -f /tmp/seedcheck.$$.log
