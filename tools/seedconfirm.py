#!/usr/bin/env python3
"""tools/seedconfirm.py <dir with patch.diff demo_test.go meta.json> -> confirms a seeded change in a scratch worktree:
   applies, compiles, the pinned stable tests still pass, the demo fails with the change and passes without."""
import json, os, re, subprocess, sys, shutil, tempfile
d = os.path.abspath(sys.argv[1])
env = dict(os.environ, GOFLAGS="-mod=mod", GOPROXY="off", GOSUMDB="off", GOTOOLCHAIN="local")
meta = json.load(open(d + "/meta.json"))
cmd = meta["demo_cmd"]
dest = re.search(r"cp (?:\S*/)?demo_test.go (?:<[^>]+>/)?(\S+)", cmd).group(1)
gotest = cmd[cmd.index("go test"):]
gotest = re.sub(r"<[^>]+>/", "", gotest)
base = json.load(open("/root/.vp/BASELINE.json"))
stable = {}
for t in base["stable_pass"]:
    pkg, name = t.split("::", 1)
    stable.setdefault(pkg, set()).add(name)
wt = tempfile.mkdtemp(prefix="confirm-", dir="/tmp")
os.rmdir(wt)
def sh(c, cwd=None, **kw):
    return subprocess.run(c, shell=True, cwd=cwd, env=env, capture_output=True, text=True, errors="replace", **kw)
r = sh(f"git -C /repo worktree add --detach {wt} HEAD")
assert r.returncode == 0, r.stderr
res = {"dir": d}
try:
    r = sh(f"git apply {d}/patch.diff || git apply --3way {d}/patch.diff", cwd=wt)
    res["applies"] = r.returncode == 0
    if not res["applies"]:
        res["apply_err"] = r.stderr[-400:]
        raise SystemExit
    pkgs = " ".join("./" + p[len("github.com/tonkeeper/tongo"):].lstrip("/") if p != "github.com/tonkeeper/tongo" else "." for p in sorted(stable))
    r = sh(f"go test -json -vet=off -count=1 -timeout 15m {pkgs}", cwd=wt)
    passed = set()
    for line in r.stdout.splitlines():
        try:
            e = json.loads(line)
        except Exception:
            continue
        if e.get("Action") == "pass" and e.get("Test"):
            passed.add(e["Package"] + "::" + e["Test"])
    missing = [t for t in base["stable_pass"] if t not in passed]
    res["stable_tests_pass"] = len(missing) == 0
    res["stable_missing"] = missing[:10]
    os.makedirs(os.path.dirname(os.path.join(wt, dest)), exist_ok=True)
    shutil.copy(d + "/demo_test.go", os.path.join(wt, dest))
    r = sh(gotest + " 2>&1 | tail -15", cwd=wt, timeout=900)
    out1 = r.stdout
    res["demo_fails_with_change"] = ("FAIL" in out1) and ("[build failed]" not in out1) and ("[setup failed]" not in out1)
    res["demo_with_change_tail"] = out1[-300:]
    sh("git reset -q --hard HEAD", cwd=wt)
    r = sh(gotest + " 2>&1 | tail -5", cwd=wt, timeout=900)
    res["demo_passes_without"] = ("ok " in r.stdout or "ok\t" in r.stdout) and "FAIL" not in r.stdout
    res["demo_without_tail"] = r.stdout[-200:]
finally:
    sh(f"git -C /repo worktree remove --force {wt}")
    res["confirmed"] = bool(res.get("applies") and res.get("stable_tests_pass") and res.get("demo_fails_with_change") and res.get("demo_passes_without"))
    print(json.dumps(res, indent=1))
