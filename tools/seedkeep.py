#!/usr/bin/env python3
"""tools/seedkeep.py <Cxx> <a|b> [patch override] : confirm a seeded change on the current /repo HEAD in a scratch worktree,
run the check against it, and keep it under /verif/seeded/<Cxx>-<x>/ if confirmed."""
import json, os, shutil, subprocess, sys, tempfile
cid, x = sys.argv[1], sys.argv[2]
src = f"{os.environ.get('SEEDSRC', '/tmp/seed')}/{cid}.out/{x}"
patch = sys.argv[3] if len(sys.argv) > 3 else src + "/patch.diff"
tmpd = tempfile.mkdtemp(prefix="seedkeep-")
for f in ("demo_test.go", "meta.json"):
    shutil.copy(f"{src}/{f}", tmpd)
shutil.copy(patch, tmpd + "/patch.diff")
r = subprocess.run(["python3", "/verif/tools/seedconfirm.py", tmpd], capture_output=True, text=True, errors="replace")
try:
    conf = json.loads(r.stdout[r.stdout.index("{"):])
except Exception:
    conf = {"confirmed": False, "raw": r.stdout[-500:] + r.stderr[-500:]}
det = subprocess.run(["/verif/tools/seedcheck.sh", tmpd + "/patch.diff", cid, "quick"], capture_output=True, text=True, errors="replace").stdout.strip()
meta = json.load(open(tmpd + "/meta.json"))
meta["confirmation"] = {k: conf.get(k) for k in ("applies", "stable_tests_pass", "demo_fails_with_change", "demo_passes_without", "confirmed")}
meta["confirmed_on_repo_head"] = subprocess.run("git -C /repo rev-parse --short HEAD", shell=True, capture_output=True, text=True, errors="replace").stdout.strip()
meta["check_result"] = det[:600]
meta["what_i_ran"] = "tools/seedconfirm.py (scratch worktree of /repo HEAD: git apply, pinned stable tests of BASELINE.json, demo with and without the change) and tools/seedcheck.sh (git apply in /repo, ./run %s quick, git reset)" % cid
if len(sys.argv) > 3:
    meta["patch_note"] = "patch rebased onto the repaired tree (the original hunk overlapped a fix: commit)"
print(cid, x, "confirmed=%s" % conf.get("confirmed"), "|", det[:160])
if conf.get("confirmed"):
    dst = f"/verif/seeded/{cid}-{x}"
    os.makedirs(dst, exist_ok=True)
    shutil.copy(tmpd + "/patch.diff", dst)
    shutil.copy(tmpd + "/demo_test.go", dst)
    json.dump(meta, open(dst + "/meta.json", "w"), indent=1)
else:
    print("  not kept:", json.dumps(meta["confirmation"]), conf.get("demo_with_change_tail", "")[-200:])
shutil.rmtree(tmpd)
